#!/bin/sh
# usage: tools_mut.sh <patch.diff> <Cxx> [extra check args]  -- run a check against a scratch copy of /repo with the patch applied
set -e
P="$1"; shift
D=$(mktemp -d /tmp/mut.XXXXXX)
cp -r /repo/src "$D/src"
(cd "$D" && patch -s -p1 < "$P")
VERIF_EVIDENCE_DIR="$D/evidence" VERIF_REPO="$D" /verif/check "$@" || echo "exit=$?"
rm -rf "$D"
