"""A share whose block data AND block hash tree were rewritten consistently is accepted by the verifier's
ValidatedReadBucketProxy although its block-hash-tree root is not the leaf the (validated) share hash tree holds."""
from twisted.internet import defer
from allmydata import hashtree
from allmydata.util import hashutil
from allmydata.immutable.checker import ValidatedReadBucketProxy, BadOrMissingHash

NUM_SHARES, NUM_BLOCKS, SHNUM = 4, 4, 1
def blocks_of(tag): return [(b"%s-block-%d" % (tag, i)).ljust(16, b".") for i in range(NUM_BLOCKS)]
genuine = {sh: blocks_of(b"share%d" % sh) for sh in range(NUM_SHARES)}
def bht_of(blocks): return hashtree.HashTree([hashutil.block_hash(b) for b in blocks])
share_tree = hashtree.HashTree([bht_of(genuine[sh])[0] for sh in range(NUM_SHARES)])     # what the uploader built
share_root = share_tree[0]                                                                # authenticated by the UEB / cap

tampered = list(genuine[SHNUM]); tampered[2] = b"EVIL DATA".ljust(16, b".")
tampered_bht = bht_of(tampered)                      # the attacker rebuilds the block hash tree of his share

class Bucket:
    def get_share_hashes(self):
        needed = share_tree.needed_hashes(SHNUM, include_leaf=True)
        return defer.succeed([(i, share_tree[i]) for i in sorted(needed)])      # the genuine chain, leaf included
    def get_block_hashes(self, needed):
        return defer.succeed(list(tampered_bht))
    def get_block_data(self, blocknum, blocksize, thissize):
        return defer.succeed(tampered[blocknum])
    def __repr__(self): return "<bucket>"

sht = hashtree.IncompleteHashTree(NUM_SHARES); sht.set_hashes({0: share_root})
v = ValidatedReadBucketProxy(SHNUM, Bucket(), sht, NUM_BLOCKS, 16, 64)
outcome = []
d = v.get_all_sharehashes()
d.addCallback(lambda ign: v.get_all_blockhashes())
for i in range(NUM_BLOCKS):
    d.addCallback(lambda ign, i=i: v.get_block(i))
d.addCallbacks(lambda last: outcome.append("ACCEPTED"), lambda f: outcome.append("rejected: %s" % f.type.__name__))
print("verifier on a consistently tampered share:", outcome)
print("block-hash-tree root == validated share-hash leaf ?", v.block_hash_tree[0] == sht.get_leaf(SHNUM))
assert outcome and outcome[0].startswith("rejected"), "tampered share reported good"
print("PASS")
