"""D26 (C06): one server failing allocate_buckets makes the selector re-plan; the new plan may move a share that another
server already accepted, so it is allocated twice and CHKUploader.set_shareholders dies with AssertionError instead of the
upload succeeding or failing with UploadUnhappinessError.
Run: PYTHONPATH=/verif:<tree>/src:/verif/shims /verif/.venv/bin/python defects/d26.py"""
import sys, warnings
warnings.simplefilter("ignore")
from twisted.internet import reactor, defer
from allmydata.immutable import upload
from allmydata.interfaces import UploadUnhappinessError
from contracts import real_grid

@defer.inlineCallbacks
def main():
    bad = 0
    for breaker in range(7):
        g = real_grid.build(num_servers=7, k=4, happy=4, n=4)
        try:
            g.wrappers[breaker].broken = {"allocate_buckets": 0}
            try:
                res = yield g.uploader.upload(upload.Data(bytes(range(200)) * 10, convergence=b"x"))
                print("server %d fails allocate_buckets, six healthy servers, 4-of-4 happy=4: upload succeeded" % breaker)
            except UploadUnhappinessError as e:
                print("server %d fails allocate_buckets: UploadUnhappinessError" % breaker)
            except Exception as e:
                bad += 1
                print("server %d fails allocate_buckets: upload died with %s: %s" % (breaker, type(e).__name__, str(e)[:100]))
        finally:
            g.cleanup()
    rc.append(1 if bad else 0)
rc = []
d = main()
d.addErrback(lambda f: (f.printTraceback(), rc.append(2)))
d.addBoth(lambda _: reactor.stop())
reactor.run()
sys.exit(rc[0])
