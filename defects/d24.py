"""
demo2 -- C09 (mutable files read back what one writer wrote), in-place update.

History on one MDMF file of three full segments plus a short tail, one writer:
  1. create
  2. in-place update inside one segment
  3. in-place update that starts in the tail segment and extends the file
  4. in-place update that starts near the end of segment 0 and ends in the
     middle of segment 1 (so the old bytes after it in segment 1 must survive)
  5. in-place update that starts in segment 1 and ends in the middle of
     segment 3
After every step the whole file is downloaded and compared with a plain bytes
model of the same operations ("an in-place update changes only the bytes it
writes ... and leaves every other byte intact").

Run:  PYTHONPATH=<tree>/src:/tmp/wt_shim /venv/bin/python demo2.py
Prints PASS / exits 0 when every read-back equals the model; otherwise says
which step went wrong and where, and exits 1.

The storage servers are in-memory fakes (test-and-set semantics included);
NodeMaker, MutableFileNode/MutableFileVersion, ServermapUpdater, Publish,
TransformingUploadable, Retrieve and the layout proxies are the real ones.
"""

import sys, os
from io import BytesIO
from twisted.internet import defer, reactor
from foolscap.api import fireEventually
from allmydata import client
from allmydata.node import config_from_string
from allmydata.nodemaker import NodeMaker
from allmydata.interfaces import SDMF_VERSION, MDMF_VERSION
from allmydata.util import base32
from allmydata.util.hashutil import tagged_hash
from allmydata.util.consumer import MemoryConsumer
from allmydata.storage_client import StorageFarmBroker
from allmydata.mutable.publish import MutableData


class DemoFailure(Exception):
    pass


class FakeStorage:
    def __init__(self):
        self._peers = {}

    def read(self, peerid, storage_index):
        return fireEventually(self._peers.get(peerid, {}))

    def write(self, peerid, storage_index, shnum, offset, data):
        shares = self._peers.setdefault(peerid, {})
        f = BytesIO()
        f.write(shares.get(shnum, b""))
        f.seek(offset)
        f.write(data)
        shares[shnum] = f.getvalue()


class FakeStorageServer:
    def __init__(self, peerid, storage):
        self.peerid = peerid
        self.storage = storage

    def callRemote(self, methname, *args, **kwargs):
        d = fireEventually()
        d.addCallback(lambda res: getattr(self, methname)(*args, **kwargs))
        return d

    def callRemoteOnly(self, methname, *args, **kwargs):
        d = self.callRemote(methname, *args, **kwargs)
        d.addBoth(lambda ignore: None)

    def advise_corrupt_share(self, share_type, storage_index, shnum, reason):
        pass

    def slot_readv(self, storage_index, shnums, readv):
        d = self.storage.read(self.peerid, storage_index)
        def _read(shares):
            response = {}
            for shnum in shares:
                if shnums and shnum not in shnums:
                    continue
                response[shnum] = [shares[shnum][o:o+l] for (o, l) in readv]
            return response
        d.addCallback(_read)
        return d

    def slot_testv_and_readv_and_writev(self, storage_index, secrets,
                                        tw_vectors, read_vector):
        shares = self.storage._peers.get(self.peerid, {})
        # real test-and-set semantics
        readv = {}
        for shnum in shares:
            readv[shnum] = [shares[shnum][o:o+l] for (o, l) in read_vector]
        ok = True
        for shnum, (testv, writev, new_length) in tw_vectors.items():
            for (offset, length, op, specimen) in testv:
                assert op == b"eq"
                if shares.get(shnum, b"")[offset:offset+length] != specimen:
                    ok = False
        if ok:
            for shnum, (testv, writev, new_length) in tw_vectors.items():
                for (offset, data) in writev:
                    self.storage.write(self.peerid, storage_index, shnum,
                                       offset, data)
        return fireEventually((ok, readv))


def make_nodemaker(storage, num_peers=10):
    cfg = config_from_string("/dev/null", "tub.port", "")
    sb = StorageFarmBroker(True, None, cfg)
    for i in range(num_peers):
        peerid = base32.b2a(tagged_hash(b"peerid", b"%d" % i)[:20])
        ann = {"anonymous-storage-FURL": "pb://%s@nowhere/fake" % str(peerid, "utf-8"),
               "permutation-seed-base32": peerid}
        sb.test_add_rref(peerid, FakeStorageServer(peerid, storage), ann)
    sh = client.SecretHolder(b"lease secret", b"convergence secret")
    keygen = client.KeyGenerator()
    return NodeMaker(sb, sh, None, None, None, {"k": 3, "n": 10},
                     SDMF_VERSION, keygen)




def describe_difference(got, want, written):
    (w_off, w_len) = written
    if len(got) != len(want):
        return "length %d, wanted %d" % (len(got), len(want))
    diffs = [i for i in range(len(want)) if got[i] != want[i]]
    outside = [i for i in diffs if not (w_off <= i < w_off + w_len)]
    return ("%d byte(s) differ, %d of them outside the written range "
            "[%d, %d); first at offset %d, last at offset %d"
            % (len(diffs), len(outside), w_off, w_off + w_len,
               diffs[0], diffs[-1]))



@defer.inlineCallbacks
def main():
    from allmydata.mutable.publish import DEFAULT_MUTABLE_MAX_SEGMENT_SIZE
    from allmydata.util import mathutil
    K = 3
    SEG = mathutil.next_multiple(DEFAULT_MUTABLE_MAX_SEGMENT_SIZE, K)
    nm = make_nodemaker(FakeStorage())
    model = bytes((i * 7 + 3) % 251 for i in range(SEG + 5000))              # 2 segments
    node = yield nm.create_mutable_file(MutableData(model), version=MDMF_VERSION)
    # step 2: grow the file with modify() (whole-file path)
    grown = model + bytes((i * 5 + 1) % 241 for i in range(2 * SEG))         # now 4 segments
    yield node.modify(lambda old, servermap, first_time: grown)
    model = grown
    print("node.get_size() after modify():", node.get_size(), " real size:", len(model))
    # step 3: in-place update in the MIDDLE of the file, no intermediate download
    mv = yield node.get_best_mutable_version()
    off, new = SEG + 100, b"Z" * 300
    yield mv.update(MutableData(new), off)
    model = model[:off] + new + model[off + len(new):]
    got = yield node.download_best_version()
    if got != model:
        print("FAIL: after create, modify (grow), update (middle): read-back has length %d, wanted %d; first difference at %s"
              % (len(got), len(model), next((i for i in range(min(len(got), len(model))) if got[i] != model[i]), "none within common prefix")))
        raise DemoFailure()
    print("PASS")


def run():
    rc = [1]
    def go():
        d = main()
        def ok(_):
            rc[0] = 0
        def bad(f):
            if not f.check(DemoFailure):
                print("FAIL: unexpected error")
                print(f.getTraceback())
        d.addCallbacks(ok, bad)
        d.addBoth(lambda _: reactor.stop())
    reactor.callWhenRunning(go)
    reactor.run()
    sys.exit(rc[0])

run()
