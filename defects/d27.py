"""D27 (C10): a read-cap holder cannot read a mutable file when the first few shares the MODE_READ survey finds are damaged,
although k intact shares are reachable: the retry in MutableFileNode._download_best_version goes through
get_best_mutable_version(), which for a read-only node falls back to the same shallow MODE_READ survey.
Run: PYTHONPATH=/verif:<tree>/src:/verif/shims /verif/.venv/bin/python defects/d27.py"""
import sys, warnings, struct
warnings.simplefilter("ignore")
from twisted.internet import reactor, defer
from allmydata import client
from allmydata.nodemaker import NodeMaker
from allmydata.interfaces import SDMF_VERSION, MDMF_VERSION
from allmydata.mutable.publish import MutableData
from contracts import real_grid

def nodemaker(g):
    class T(object):
        def register(self, x): pass
    return NodeMaker(g.storage_broker, g.secret_holder, None, g.uploader, T(), dict(g.params), SDMF_VERSION, client.KeyGenerator())

@defer.inlineCallbacks
def main():
    bad = 0
    for fmt, name in ((SDMF_VERSION, "SDMF"), (MDMF_VERSION, "MDMF")):
        g = real_grid.build(num_servers=10, k=3, happy=1, n=10)
        try:
            data = b"the contents " * 50
            node = yield nodemaker(g).create_mutable_file(MutableData(data), version=fmt)
            si = node.get_storage_index()
            files = g.share_files(si)
            # damage the block data of the shares held by the first four servers in this file's permuted order
            order = [g.serverids.index(s.get_serverid()) for s in g.storage_broker.get_servers_for_psi(si)]
            for (i, sh), path in files.items():
                if i in order[:4]:
                    c = bytearray(open(path, "rb").read())
                    d = bytes(c[468:])
                    if d[0] == 0:
                        o = struct.unpack(">LLLLQQ", d[75:107]); pos = o[3]
                    else:
                        o = struct.unpack(">QQQQQQQQ", d[59:123]); pos = o[5] + 20
                    c[468 + pos] ^= 1
                    open(path, "wb").write(bytes(c))
            for capname, cap in (("write-cap", node.get_uri()), ("read-cap", node.get_readonly_uri())):
                reader = nodemaker(g).create_from_cap(cap)
                try:
                    got = yield reader.download_best_version()
                    ok = got == data
                    print("%s, 4 of 10 shares damaged (6 intact, k=3), read with the %s: %s" % (name, capname, "correct contents" if ok else "WRONG BYTES"))
                    bad += not ok
                except Exception as e:
                    bad += 1
                    print("%s, 4 of 10 shares damaged (6 intact, k=3), read with the %s: FAILED %s: %s" % (name, capname, type(e).__name__, str(e)[:90]))
        finally:
            g.cleanup()
    rc.append(1 if bad else 0)
rc = []
d = main()
d.addErrback(lambda f: (f.printTraceback(), rc.append(2)))
d.addBoth(lambda _: reactor.stop())
reactor.run()
sys.exit(rc[0])
