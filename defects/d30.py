"""D30 (C39): two reads on an open SFTP file that wait for the same download milestone (e.g. two pipelined reads that both
reach end-of-file) make heapq compare two Deferreds: the second read raises TypeError instead of returning its bytes.
Run: PYTHONPATH=<tree>/src:/verif/shims /verif/.venv/bin/python defects/d30.py"""
import sys
from allmydata.frontends.sftpd import OverwriteableFileConsumer

data = bytes(range(200))
c = OverwriteableFileConsumer(len(data), None) if False else None
import tempfile
from allmydata.frontends import sftpd
tf = tempfile.TemporaryFile
c = OverwriteableFileConsumer(len(data), tf)
class P(object):
    def resumeProducing(self): pass
    def pauseProducing(self): pass
    def stopProducing(self): pass
c.registerProducer(P(), True)
results, errors = [], []
rc = 0
try:
    for (off, ln) in ((150, 100), (180, 100)):       # both clipped at EOF: both wait for milestone 200
        d = c.read(off, ln)
        d.addCallbacks(lambda r, off=off: results.append((off, r)), lambda f: errors.append(f))
except TypeError as e:
    print("FAIL: the second read raised %s: %s" % (type(e).__name__, e))
    rc = 1
c.write(data)            # the download delivers everything
from twisted.internet import reactor
def finish():
    global rc
    if rc == 0:
        want = {150: data[150:250], 180: data[180:280]}
        got = dict(results)
        if got != want or errors:
            print("FAIL: reads returned %r errors %r" % ({k: len(v) for k, v in got.items()}, errors))
            rc = 1
        else:
            print("PASS")
    reactor.stop()
reactor.callLater(0.2, finish)
reactor.run()
sys.exit(rc)
