"""D29 (C26/C27): a LeaseCheckingCrawler that is restarted in the middle of a cycle reloads 'lease-age-histogram' from its JSON
state file as a list, then indexes it like a dict at the first lease it examines: TypeError, the slice dies, and because the
state file is only rewritten at the end of a slice the crawler dies at the same place after every restart -- no share is
examined (or expired) ever again.
Run: PYTHONPATH=<tree>/src:/verif/shims /verif/.venv/bin/python defects/d29.py"""
import os, sys, tempfile, shutil, time
from allmydata.storage.server import StorageServer
from allmydata.storage.expirer import LeaseCheckingCrawler
from allmydata.storage.crawler import TimeSliceExceeded

d = tempfile.mkdtemp(prefix="verif.d29.")
rc = 0
try:
    ss = StorageServer(d, b"\x00" * 20, expiration_enabled=True, expiration_mode="age", expiration_override_lease_duration=1000)
    # six immutable shares in different prefixes, all with leases that expired long ago
    sis = [bytes([i * 40 + 3]) * 16 for i in range(6)]
    for si in sis:
        already, writers = ss.allocate_buckets(si, b"r" * 32, b"c" * 32, {0}, 10)
        writers[0].write(0, b"x" * 10)
        writers[0].close()
        for sf in [p for (n, p) in ss.get_shares(si)]:
            from allmydata.storage.immutable import ShareFile
            s = ShareFile(sf)
            for lease in list(s.get_leases()):
                pass
    lc = ss.lease_checker
    lc.load_state()
    lc.cpu_slice = -1.0            # every slice ends after one prefix directory
    real_time = time.time
    time.time = lambda: real_time() + 10 ** 7      # the leases are 115 days old, the configured lease duration is 1000 s
    slices = 0
    while not lc.state["cycle-to-date"]["lease-age-histogram"]:
        try:
            lc.start_current_prefix(real_time())
        except TimeSliceExceeded:
            slices += 1
        lc.save_state()            # start_slice() saves after every slice
    left_after_first_slice = sum(1 for si in sis if list(ss.get_shares(si)))
    print("%d slices ran, the first bucket has been examined and its share expired; %d of 6 expired shares still on disk" % (slices, left_after_first_slice))
    # restart: a new server object on the same directory reloads the crawler state
    ss2 = StorageServer(d, b"\x00" * 20, expiration_enabled=True, expiration_mode="age", expiration_override_lease_duration=1000)
    lc2 = ss2.lease_checker
    lc2.load_state()
    lc2.cpu_slice = 1000.0
    print("reloaded cycle-to-date lease-age-histogram is a %s" % type(lc2.state["cycle-to-date"]["lease-age-histogram"]).__name__)
    crashes = 0
    for attempt in range(3):
        try:
            lc2.start_current_prefix(time.time())
            break
        except TimeSliceExceeded:
            continue
        except Exception as e:
            crashes += 1
            print("slice after the restart died: %s: %s" % (type(e).__name__, e))
            lc3 = StorageServer(d, b"\x00" * 20, expiration_enabled=True, expiration_mode="age", expiration_override_lease_duration=1000).lease_checker
            lc3.load_state(); lc3.cpu_slice = 1000.0
            lc2 = lc3
    left = sum(1 for si in sis if list(ss2.get_shares(si)))
    print("after the restarted crawler ran: %d of 6 expired shares still on disk" % left)
    if crashes or left:
        print("FAIL: the restarted crawler does not finish its cycle")
        rc = 1
    else:
        print("PASS")
finally:
    time.time = real_time
    shutil.rmtree(d, ignore_errors=True)
sys.exit(rc)
