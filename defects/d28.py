"""D28 (C10): one damaged share makes the intact shares on the same server unusable (Retrieve._mark_bad_share).  Prints FAILED lines on the tree before add1a6d.
Run: PYTHONPATH=/verif:<tree>/src:/verif/shims /verif/.venv/bin/python defects/d28.py"""
import sys, warnings, struct, os
warnings.simplefilter("ignore")
from twisted.internet import reactor, defer
from allmydata import client
from allmydata.nodemaker import NodeMaker
from allmydata.interfaces import SDMF_VERSION, MDMF_VERSION
from allmydata.mutable.publish import MutableData
from contracts import real_grid

def nodemaker(g):
    class T(object):
        def register(self, x): pass
    return NodeMaker(g.storage_broker, g.secret_holder, None, g.uploader, T(), dict(g.params), SDMF_VERSION, client.KeyGenerator())

def flip(path, pos):
    c = bytearray(open(path, "rb").read()); c[468 + pos] ^= 1; open(path, "wb").write(bytes(c))

@defer.inlineCallbacks
def main():
    for variant in ("prefix", "data"):
      for fmt in (SDMF_VERSION, MDMF_VERSION):
        g = real_grid.build(num_servers=3, k=2, happy=1, n=6)
        try:
            data = b"the contents " * 50
            node = yield nodemaker(g).create_mutable_file(MutableData(data), version=fmt)
            si = node.get_storage_index()
            files = g.share_files(si)
            print(sorted(files))
            # on each of two servers: one share damaged, one intact; third server: nothing
            byserver = {}
            for (i, sh), p in sorted(files.items()):
                byserver.setdefault(i, []).append((sh, p))
            for i in (0, 1):
                sh, p = byserver[i][0]
                if variant == "prefix":
                    flip(p, 21)
                else:
                    d = open(p, "rb").read()[468:]
                    pos = struct.unpack(">LLLLQQ", d[75:107])[3] if d[0] == 0 else struct.unpack(">QQQQQQQQ", d[59:123])[5] + 20
                    flip(p, pos)
            for sh, p in byserver[2]:
                os.unlink(p)
            for capname, cap in (("write-cap", node.get_uri()), ("read-cap", node.get_readonly_uri())):
                reader = nodemaker(g).create_from_cap(cap)
                try:
                    got = yield reader.download_best_version()
                    print(variant, fmt, capname, "ok" if got == data else "WRONG")
                except Exception as e:
                    print(variant, fmt, capname, "FAILED", type(e).__name__, str(e)[:300])
        finally:
            g.cleanup()
d = main()
d.addErrback(lambda f: f.printTraceback())
d.addBoth(lambda _: reactor.stop())
reactor.run()
