import types
from twisted.internet import defer
import allmydata.immutable.downloader.node as N
from allmydata.immutable.downloader.common import BadCiphertextHashError
N.eventually = lambda f, *a, **k: f(*a, **k)
started = []
class FakeFetcher:
    def __init__(self, node, segnum, k, lp):
        self.segnum = segnum; started.append(segnum)
    def add_shares(self, s): pass
    def stop(self): pass
N.SegmentFetcher = FakeFetcher
node = object.__new__(N.DownloadNode)
node._active_segment = None
node._segment_requests = []
node._shares = set()
node._lp = None
node._si_prefix = "abcde"
node._verifycap = types.SimpleNamespace(needed_shares=3, storage_index=b"s"*16)
class Ev:
    def activate(self, t): pass
    def error(self, t): pass
    def deliver(self, *a): pass
node._download_status = types.SimpleNamespace(add_segment_request=lambda s,t: Ev(), add_misc_event=lambda *a: None)
node._decode_blocks = lambda segnum, blocks: defer.succeed((b"seg", 0.1))
def bad(res, segnum): raise BadCiphertextHashError("bad ciphertext hash")
node._check_ciphertext_hash = bad
results = []
d0, c0 = node.get_segment(0)
d0.addBoth(lambda r: results.append(("read0", type(getattr(r, "value", r)).__name__)))
node.process_blocks(0, {0: b"x", 1: b"y", 2: b"z"})
d1, c1 = node.get_segment(1)
d1.addBoth(lambda r: results.append(("read1", r)))
print("read 0:", results, "| fetchers started for segments:", started, "| pending requests:", len(node._segment_requests), "| active:", node._active_segment is not None)
assert started == [0, 1], "the request for segment 1 was never started: the node is stuck on the failed segment"
print("PASS")
