"""D25: a share too short to hold its own header (container data < 0x24 bytes) from a server that tolerates read overrun makes
Share.loop re-request the missing bytes forever: the read never completes and the server is queried without end."""
import sys
src = open("/verif/contracts/immutable_grid.py").read()
src = src.replace("    rng = random.Random(seed)", "    HOOK(locals())\n    rng = random.Random(seed)")
def HOOK(loc):
    from twisted.internet import defer, reactor
    make_file, Server, Broker, start_read, wait_for, ImmutableFileNode, Bucket = [loc[x] for x in "make_file Server Broker start_read wait_for ImmutableFileNode Bucket".split()]
    count = [0]
    orig = Bucket.callRemote
    def counting(self, name, *a):
        count[0] += 1
        return orig(self, name, *a)
    Bucket.callRemote = counting
    @defer.inlineCallbacks
    def one():
        data = bytes(range(200))
        cap, shares = yield make_file(data, 2, 4, 4096)
        bad = 0
        for cut in (0, 3, 4, 20, 35, 36, 100):
            servers = [Server(b"s3", {3: shares[3][:cut]}), Server(b"s0", {0: shares[0]}), Server(b"s1", {1: shares[1]}), Server(b"s2", {2: shares[2]})]
            node = ImmutableFileNode(cap, Broker(servers), None, None, None)
            count[0] = 0
            r = start_read(node)
            yield wait_for(r)
            ok = r["done"] and r.get("data") == data
            print("share 3 truncated to %3d bytes, three intact shares, k=2: read %s; %d remote reads issued" % (cut, "returned the file" if ok else ("NEVER COMPLETED" if not r["done"] else "failed: %r" % r.get("error")), count[0]))
            bad += not ok
            node._cnode._node.stop() if hasattr(node._cnode._node, "stop") else None
        rc.append(1 if bad else 0)
    rc = []
    d = one()
    d.addErrback(lambda f: (f.printTraceback(), rc.append(2)))
    d.addBoth(lambda _: reactor.stop())
    reactor.run()
    sys.exit(rc[0])
exec(compile(src, "g", "exec"), dict(HOOK=HOOK, __name__="g2"))["main_"] if False else None
ns = dict(HOOK=HOOK, __name__="g2"); exec(compile(src, "g", "exec"), ns); ns["main_"](1, 1)
