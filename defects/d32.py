"""D32 (C10, known finding, not repaired): the offset table of a mutable share is not covered by the signature but is part of the
version identifier (verinfo).  One share whose offset table was damaged therefore shows up as a second 'version' with the same
sequence number and root hash; with k=1 it is 'recoverable', best_recoverable_version() may prefer it (tuples are compared down
to the offsets), its retrieval fails, and the read ends with NotEnoughSharesError although an intact share of that very version
is on another server.
Run: PYTHONPATH=/verif:<tree>/src:/verif/shims /verif/.venv/bin/python defects/d32.py"""
import sys, warnings
warnings.simplefilter("ignore")
from twisted.internet import reactor, defer
from allmydata import client
from allmydata.nodemaker import NodeMaker
from allmydata.interfaces import SDMF_VERSION, MDMF_VERSION
from allmydata.mutable.publish import MutableData
from allmydata.util import cputhreadpool
cputhreadpool._DISABLED = True
from contracts import real_grid

def nodemaker(g):
    class T(object):
        def register(self, x): pass
    return NodeMaker(g.storage_broker, g.secret_holder, None, g.uploader, T(), dict(g.params), SDMF_VERSION, client.KeyGenerator())

@defer.inlineCallbacks
def main():
    bad = 0
    for fmt, name, pos in ((MDMF_VERSION, "MDMF", 67), (SDMF_VERSION, "SDMF", 75)):
        for victim in range(3):
            g = real_grid.build(num_servers=3, k=1, happy=1, n=3)
            try:
                data = b"the newest contents"
                node = yield nodemaker(g).create_mutable_file(MutableData(data), version=fmt)
                si = node.get_storage_index()
                for (i, sh), path in g.share_files(si).items():
                    if i == victim:
                        c = bytearray(open(path, "rb").read())
                        c[468 + pos] ^= 0x40          # the most significant byte of one offset: far beyond the share
                        open(path, "wb").write(bytes(c))
                try:
                    got = yield nodemaker(g).create_from_cap(node.get_readonly_uri()).download_best_version()
                    ok = got == data
                    print("%s 1-of-3, offset table of the share on server %d damaged, two intact shares left: read %s" % (name, victim, "returned the contents" if ok else "returned WRONG BYTES"))
                except Exception as e:
                    ok = False
                    print("%s 1-of-3, offset table of the share on server %d damaged, two intact shares left: read FAILED with %s" % (name, victim, type(e).__name__))
                bad += not ok
            finally:
                g.cleanup()
    rc.append(1 if bad else 0)
rc = []
d = main()
d.addErrback(lambda f: (f.printTraceback(), rc.append(2)))
d.addBoth(lambda _: reactor.stop())
reactor.run()
sys.exit(rc[0])
