"""D31 (C37): Spans.__isub__/__iadd__ iterate over the right operand while modifying the left one; when both are the same object
(s -= s) every other span is skipped.  Run: PYTHONPATH=<tree>/src /verif/.venv/bin/python defects/d31.py"""
import sys
from allmydata.util.spans import Spans
s = Spans(); s.add(0, 5); s.add(10, 5); s.add(20, 5)
s -= s
print("three spans minus themselves leave:", s.dump())
sys.exit(1 if s.len() else 0)
