#!/bin/bash
# usage: tools/seed_matrix.sh [seed ...]  -- run every seeded change against the check of its own property (and, if that
# does not report it, against the related checks listed in EXTRA) on a scratch copy of /repo/src; writes detected_by into
# seeded/<id>/meta.json and prints one line per seed.  Never touches /repo.
cd /verif
declare -A EXTRA=( [C01]="C03 C04 C36" [C18]="C16 C19" [C02]="C35 C04" [C29]="C24" [C07]="C08" )
one() {
  s=$1; p=${s%-*}
  for c in $p ${EXTRA[$p]}; do
    out=$(./tools_mut.sh /verif/seeded/$s/patch.diff $c 2>&1 | grep -E "^VIOLATION" | sed -E 's/.*obligation=([^ ]*).*/\1/' | sort -u | head -6 | tr '\n' ' ')
    if [ -n "$out" ]; then
      python3 - "$s" "$c" "$out" <<'PY'
import json,sys
s,c,out=sys.argv[1:4]
p='/verif/seeded/%s/meta.json'%s
m=json.load(open(p)); m['detected_by']={'check':c,'tier':'quick','obligations':out.split()}; json.dump(m,open(p,'w'),indent=1)
PY
      echo "$s DETECTED by $c: $out"; return
    fi
  done
  python3 - "$s" <<'PY'
import json,sys
s=sys.argv[1]
p='/verif/seeded/%s/meta.json'%s
m=json.load(open(p)); m['detected_by']=None; json.dump(m,open(p,'w'),indent=1)
PY
  echo "$s NOT-DETECTED"
}
export -f one
declare -p EXTRA > /dev/null
if [ $# -gt 0 ]; then seeds="$@"; else seeds=$(ls seeded); fi
for s in $seeds; do one $s; done
