#!/bin/bash
# usage: confirm_seed3.sh <agent-worktree> <Cxx> <n>
#   independently confirm a seeded change written by a sub-agent in <agent-worktree>/out/{patch.diff,demo.py,meta.json}
#   (fresh scratch worktree of /repo HEAD: demo before, `git apply`, full baseline test command, demo after) and, if it is a
#   genuine property-breaking change that the 151 tests do not see, store it as /verif/seeded/<Cxx>-<n>/.
W=$1; ID=$2; N=$3; NAME=$ID-$N; OUT=$W/out
WT=$(mktemp -d /tmp/confirm.XXXXXX); rmdir $WT
git -C /repo worktree add --detach -q $WT HEAD || exit 9
cd $WT
R0=$(PYTHONPATH=$WT/src:/verif/shims timeout 300 /venv/bin/python $OUT/demo.py >/tmp/confirm.$NAME.pre 2>&1; echo $?)
git apply $OUT/patch.diff || { echo "$NAME apply-failed"; cd /; git -C /repo worktree remove --force $WT; exit 8; }
T=$(timeout 900 /venv/bin/python -m pytest -q -p no:cacheprovider --timeout=900 --continue-on-collection-errors 2>&1 | tail -1)
R1=$(PYTHONPATH=$WT/src:/verif/shims timeout 300 /venv/bin/python $OUT/demo.py >/tmp/confirm.$NAME.post 2>&1; echo $?)
cd /; git -C /repo worktree remove --force $WT
echo "$NAME demo_pristine_exit=$R0 tests='$T' demo_mutant_exit=$R1"
if [ "$R0" = 0 ] && [ "$R1" != 0 ] && echo "$T" | grep -q "151 passed"; then
  D=/verif/seeded/$NAME; mkdir -p $D
  cp $OUT/patch.diff $D/patch.diff; cp $OUT/demo.py $D/demo.py
  python3 - "$ID" "$NAME" "$T" "$R0" "$R1" "$OUT/meta.json" <<'PY'
import json, sys
ID, NAME, T, R0, R1, M = sys.argv[1:7]
try:
    m = json.load(open(M))
except Exception:
    m = {}
json.dump({"property": ID, "breaks": m.get("summary"), "needs_to_manifest": m.get("needs_to_manifest"), "files_changed": m.get("files_changed"),
           "confirmed": {"demo_on_pristine_exit": int(R0), "test_suite_with_change": T, "demo_with_change_exit": int(R1),
                         "how": "fresh scratch worktree of /repo HEAD; PYTHONPATH=<wt>/src:/verif/shims /venv/bin/python demo.py before and after `git apply patch.diff`; baseline pytest command with the change applied"},
           "detected_by": None}, open("/verif/seeded/%s/meta.json" % NAME, "w"), indent=1)
PY
  echo "$NAME KEPT"
else echo "$NAME REJECTED"; fi
