#!/bin/bash
# run every claimed check (quick tier) against /repo, sequentially; print one line per property
cd /verif
for id in $(python3 -c "import json; print(' '.join(c['property_id'] for c in json.load(open('MANIFEST.json'))['checks']))"); do
  out=$(./check $id --tier ${1:-quick} 2>&1 | grep -v conda | tail -1); echo "$out"
done
