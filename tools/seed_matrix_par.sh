#!/bin/bash
# usage: tools/seed_matrix_par.sh [jobs]  -- tools/seed_matrix.sh over every seed, <jobs> seeds at a time
cd /verif
ls seeded | xargs -P ${1:-4} -n 1 tools/seed_matrix.sh
