#!/usr/bin/env python3
"""Regenerate MANIFEST.json from contracts/*.py metadata (MANIFEST_ENTRY dict in each module) and NA.json."""
import importlib, json, os, sys, glob
V = os.path.dirname(os.path.dirname(os.path.abspath(__file__)))
sys.path[:0] = [V, "/repo/src", os.path.join(V, "shims")]
props = [json.loads(l) for l in open(os.path.join(V, "properties.jsonl"))]
na = json.load(open(os.path.join(V, "contracts", "NA.json")))
checks, served = [], []
for p in props:
    pid = p["id"]
    f = os.path.join(V, "contracts", pid + ".py")
    if not os.path.exists(f) or pid in na.get("_unclaimed", []):
        continue
    m = importlib.import_module("contracts." + pid)
    e = getattr(m, "MANIFEST_ENTRY", None)
    if not e:
        continue
    served.append(pid)
    checks.append({
        "property_id": pid,
        "quick_cmd": "./check %s --tier quick" % pid,
        "thorough_cmd": "./check %s --tier thorough" % pid,
        "evidence_file": "evidence/%s.json" % pid,
        "replay_cmd_template": "./check %s --replay {path}" % pid,
        "engine": "pyvc",
        "level_claimed": {"category": m.LEVEL, "text": e["text"], "design_ref": "DESIGN.md section 6, " + pid},
        "level_note": e["note"],
        "technique": e.get("technique", "contract-based deductive verification: pre/postconditions on the real functions, VCs generated from the AST, discharged by z3/cvc5"),
    })
not_app = []
for p in props:
    if p["id"] not in served:
        not_app.append({"property_id": p["id"], "reason": na.get(p["id"], "contracts designed (DESIGN.md section 6) but not brought within the verifier's reach in the time available")})
man = {
    "version": 1, "setup_cmd": "./setup.sh",
    "hooks": {"guard": "TAHOE_LAFS_VERIF", "enable": "not used: all contracts are sidecar files under /verif/contracts; /repo is never patched for instrumentation",
              "baseline_off_cmd": "cd /repo && /venv/bin/python -m pytest -ra -q -p no:cacheprovider --timeout=900 --continue-on-collection-errors",
              "source_commits": [], "add_only": True},
    "engines": [{"name": "pyvc", "path": "pyvc/", "serves_properties": served,
                 "kind_free_text": "self-built symbolic executor / VC generator over the real /repo ASTs (re-read every run), sidecar contracts, obligations discharged by z3 5.1 with cvc5 1.0.3 and z3 4.8.12 as second opinion; counter-models replayed natively on the real code"}],
    "checks": checks,
    "notes": "See DESIGN.md. Exit codes: 0 held, 1 VIOLATION, 2 UNDECIDED (engine limit), 3 crash. known_findings.jsonl lists genuine defects recorded or fixed.",
    "not_applicable": not_app,
}
json.dump(man, open(os.path.join(V, "MANIFEST.json"), "w"), indent=1)
import jsonschema
jsonschema.validate(man, json.load(open("/root/.vp/MANIFEST.schema.json")))
print("MANIFEST ok: %d checks, %d not_applicable" % (len(checks), len(not_app)))
