#!/bin/bash
# usage: confirm_seed.sh <Cxx> <n>   -- independently confirm a seeded change and store it under /verif/seeded/<Cxx>-<n>/
ID=$1; N=$2; OUT=${3:-/tmp/wt/out/$ID}; M=${4:-$N}; NAME=$ID-$M
WT=$(mktemp -d /tmp/confirm.XXXXXX); rmdir $WT
git -C /repo worktree add --detach -q $WT HEAD || exit 9
cd $WT
R0=$(PYTHONPATH=$WT/src:/tmp/wt_shim timeout 300 /venv/bin/python $OUT/demo$N.py >/tmp/confirm.$NAME.pre 2>&1; echo $?)
git apply $OUT/change$N.diff || { echo "$NAME apply-failed"; git -C /repo worktree remove --force $WT; exit 8; }
T=$(timeout 900 /venv/bin/python -m pytest -q -p no:cacheprovider --timeout=900 --continue-on-collection-errors 2>&1 | tail -1)
R1=$(PYTHONPATH=$WT/src:/tmp/wt_shim timeout 300 /venv/bin/python $OUT/demo$N.py >/tmp/confirm.$NAME.post 2>&1; echo $?)
cd /; git -C /repo worktree remove --force $WT
echo "$NAME demo_pristine_exit=$R0 tests='$T' demo_mutant_exit=$R1"
if [ "$R0" = 0 ] && [ "$R1" != 0 ] && echo "$T" | grep -q "151 passed"; then
  D=/verif/seeded/$NAME; mkdir -p $D
  cp $OUT/change$N.diff $D/patch.diff; cp $OUT/demo$N.py $D/demo.py; cp $OUT/notes$N.md $D/notes.md
  NAME=$NAME python3 - "$ID" "$N" "$T" "$R0" "$R1" <<'PY'
import json,sys,os
ID,N,T,R0,R1=sys.argv[1:6]
NAME=os.environ['NAME']
json.dump({"property":ID,"breaks":"see notes.md (clause, site)","needs_to_manifest":"see notes.md",
 "confirmed":{"demo_on_pristine_exit":int(R0),"test_suite_with_change":T,"demo_with_change_exit":int(R1),
 "how":"fresh scratch worktree of /repo HEAD; PYTHONPATH=<wt>/src:<RangeMap shim> /venv/bin/python demo.py before and after `git apply patch.diff`; baseline pytest command with the change applied"},
 "detected_by":None}, open("/verif/seeded/%s/meta.json"%(NAME,),"w"), indent=1)
PY
  echo "$NAME KEPT"
else echo "$NAME REJECTED"; fi
