#!/usr/bin/env python3
"""Regenerate the generated tables of DESIGN.md (between <!-- BEGIN x --> / <!-- END x --> markers):
  contracts: per property, the functions under contract (from contracts/Cxx.py), level, technique (from MANIFEST.json)
  seeds:     per seeded change, what it breaks and which check/obligation reports it (from seeded/*/meta.json)"""
import importlib, json, os, re, sys
sys.path.insert(0, "/verif")
sys.path.insert(0, os.path.join(os.environ.get("VERIF_REPO", "/repo"), "src"))
sys.path.insert(0, "/verif/shims")


def contracts_table():
    man = json.load(open("/verif/MANIFEST.json"))
    rows = ["| id | level | functions under contract (spec: real function) | bounded specs | deciding technique |", "|----|-------|------|------|------|"]
    for c in man["checks"]:
        pid = c["property_id"]
        mod = importlib.import_module("contracts." + pid)
        specs = mod.contracts("quick")
        fn = []
        nb = 0
        for s in specs:
            q = getattr(s, "qualname", "?")
            lvl = getattr(s, "level", "P")
            nb += lvl == "B"
            fn.append("%s: `%s`%s" % (s.name, q, " (B)" if lvl == "B" else ""))
        if hasattr(mod, "extra_checks"):
            fn.append("run-time contract(s) in `extra_checks` (B)")
        lvl = c.get("level_claimed", {})
        rows.append("| %s | %s | %s | %d of %d | %s |" % (pid, lvl.get("category", "") if isinstance(lvl, dict) else "", "; ".join(fn) if fn else "-", nb, len(specs), c.get("technique", "")))
    return "\n".join(rows)


def seeds_table():
    rows = ["| seed | site and effect (from the seeder's notes) | reported by | obligation(s) |", "|------|------|------|------|"]
    for s in sorted(os.listdir("/verif/seeded")):
        d = "/verif/seeded/" + s
        if not os.path.isdir(d):
            continue
        m = json.load(open(d + "/meta.json"))
        notes = open(d + "/notes.md").read() if os.path.exists(d + "/notes.md") else ""
        title = ""
        for line in notes.splitlines():
            if line.startswith("#"):
                title = re.sub(r"^#+\s*", "", line).strip()
                break
        if not title and m.get("breaks"):
            title = re.sub(r"\s+", " ", str(m["breaks"])).strip()
        files = sorted(set(re.findall(r"^\+\+\+ b/(\S+)", open(d + "/patch.diff").read(), re.M)))
        det = m.get("detected_by")
        if det:
            rows.append("| %s | %s (%s) | %s | %s |" % (s, title[:110].replace("|", "/"), ", ".join(f.replace("src/allmydata/", "") for f in files), det["check"], "<br>".join(o[:90] for o in det["obligations"][:3])))
        else:
            rows.append("| %s | %s (%s) | **not reported** | %s |" % (s, title[:110].replace("|", "/"), ", ".join(f.replace("src/allmydata/", "") for f in files), m.get("note", "")))
    return "\n".join(rows)


def main():
    p = "/verif/DESIGN.md"
    s = open(p).read()
    for key, fn in (("contracts", contracts_table), ("seeds", seeds_table)):
        b, e = "<!-- BEGIN %s -->" % key, "<!-- END %s -->" % key
        if b in s and e in s:
            s = s[:s.index(b) + len(b)] + "\n" + fn() + "\n" + s[s.index(e):]
    open(p, "w").write(s)


if __name__ == "__main__":
    main()
