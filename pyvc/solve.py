"""Discharging obligations: z3 5.1 (API) first; on unknown, cvc5 and /usr/bin/z3 on the SMT-LIB2 dump."""
import os
import subprocess
import tempfile
import time
import z3


class Result(object):
    def __init__(self, status, solver, time_s, model=None, detail=""):
        self.status = status      # 'unsat' (discharged) | 'sat' (counter-model) | 'unknown'
        self.solver = solver
        self.time_s = time_s
        self.model = model
        self.detail = detail


def negation_query(hyps, goal):
    s = z3.Solver()
    for h in hyps:
        s.add(h)
    s.add(z3.Not(goal))
    return s


def run_external(cmd, smt2, timeout_s):
    fd, path = tempfile.mkstemp(suffix=".smt2", dir=os.environ.get("PYVC_TMP") or None)
    try:
        with os.fdopen(fd, "w") as f:
            f.write(smt2)
        try:
            p = subprocess.run(cmd + [path], capture_output=True, text=True, timeout=timeout_s + 2)
            out = (p.stdout or "").strip().splitlines()
            return out[0].strip() if out else "unknown"
        except subprocess.TimeoutExpired:
            return "timeout"
    finally:
        try:
            os.unlink(path)
        except OSError:
            pass


def discharge(hyps, goal, timeout_s=10, use_external=True):
    """returns Result."""
    t0 = time.time()
    if z3.is_true(z3.simplify(goal)):
        return Result("unsat", "trivial", 0.0)
    s = negation_query(hyps, goal)
    s.set("timeout", int(timeout_s * 1000))
    r = s.check()
    if r == z3.unsat:
        return Result("unsat", "z3-5.1", time.time() - t0)
    if r == z3.sat:
        return Result("sat", "z3-5.1", time.time() - t0, model=s.model())
    detail = s.reason_unknown()
    if use_external:
        smt2 = s.to_smt2()
        body = "(set-logic ALL)\n" + smt2
        for name, cmd in (("cvc5-1.0.3", ["/usr/bin/cvc5", "--strings-exp", "--tlimit=%d" % int(timeout_s * 1000)]),
                          ("z3-4.8.12", ["/usr/bin/z3", "-T:%d" % int(timeout_s)])):
            if not os.path.exists(cmd[0]):
                continue
            out = run_external(cmd, body if "cvc5" in name else smt2, timeout_s)
            if out == "unsat":
                return Result("unsat", name, time.time() - t0)
            detail += "; %s:%s" % (name, out)
        # retry z3 with a different tactic seed
        s2 = negation_query(hyps, goal)
        s2.set("timeout", int(timeout_s * 1000))
        s2.set("random_seed", 7)
        r2 = s2.check()
        if r2 == z3.unsat:
            return Result("unsat", "z3-5.1(seed7)", time.time() - t0)
        if r2 == z3.sat:
            return Result("sat", "z3-5.1(seed7)", time.time() - t0, model=s2.model())
        # the budgets are wall-clock: on a busy machine a query that needs a few CPU seconds can run out of them, so a
        # timeout (not a genuine 'incomplete') gets one last, four times longer attempt before the verdict is 'undecided'
        if "timeout" in detail or "canceled" in detail or "interrupted" in detail:
            s3 = negation_query(hyps, goal)
            s3.set("timeout", int(timeout_s * 4000))
            r3 = s3.check()
            if r3 == z3.unsat:
                return Result("unsat", "z3-5.1(long)", time.time() - t0)
            if r3 == z3.sat:
                return Result("sat", "z3-5.1(long)", time.time() - t0, model=s3.model())
    return Result("unknown", "all", time.time() - t0, detail=detail)
