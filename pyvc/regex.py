"""Python `re` patterns -> z3 regular expressions (DESIGN.md 2.6).

Supported subset: literals, classes, ANY, concatenation, alternation, {m,n} * + ?, (capturing and
non-capturing) groups, ^ and $ / \\Z at the two ends (or in a trailing alternative like (:|$)),
\\d \\s \\w categories, IGNORECASE.  `$` is translated faithfully: end of string, or before a final "\\n".
Anything else raises Undecided.
"""
import re
try:
    import re._parser as sre_parse
    import re._constants as sre_c
except ImportError:  # python < 3.11
    import sre_parse
    import sre_constants as sre_c
import z3

from .values import Undecided

MAXCH = 0x2FFFF


def ch(c):
    return z3.StringVal(chr(c))


def any_char(is_bytes, dotall=True):
    hi = 255 if is_bytes else MAXCH
    if dotall:
        return z3.Range(chr(0), chr(hi))
    return z3.Union(z3.Range(chr(0), chr(9)), z3.Range(chr(11), chr(hi)))


def sigma_star(is_bytes):
    return z3.Star(any_char(is_bytes))


def empty_re():
    return z3.Re(z3.StringVal(""))


def lit_re(s):
    return z3.Re(z3.StringVal(s))


def union(rs):
    rs = list(rs)
    if not rs:
        return z3.Empty(z3.ReSort(z3.StringSort()))
    if len(rs) == 1:
        return rs[0]
    return z3.Union(*rs)


def concat(rs):
    rs = list(rs)
    if not rs:
        return empty_re()
    if len(rs) == 1:
        return rs[0]
    return z3.Concat(*rs)


CATS = {}


def category(cat, is_bytes, ascii_only):
    name = str(cat)
    if name.endswith("CATEGORY_DIGIT"):
        if is_bytes or ascii_only:
            return z3.Range("0", "9")
        raise Undecided("\\d on str matches non-ASCII digits (unicode categories are not modelled)")
    if name.endswith("CATEGORY_SPACE"):
        if is_bytes or ascii_only:
            return union([lit_re(c) for c in " \t\n\r\x0b\x0c"])
        raise Undecided("\\s on str matches unicode whitespace (not modelled)")
    if name.endswith("CATEGORY_WORD"):
        if is_bytes or ascii_only:
            return union([z3.Range("a", "z"), z3.Range("A", "Z"), z3.Range("0", "9"), lit_re("_")])
        raise Undecided("\\w on str")
    raise Undecided("regex category %s" % name)


def case_fold(c, ignorecase):
    if not ignorecase:
        return [c]
    s = chr(c)
    out = {c}
    for v in (s.lower(), s.upper()):
        if len(v) == 1:
            out.add(ord(v))
    return sorted(out)


class Tr(object):
    def __init__(self, pattern, flags, ascii_only=False):
        self.is_bytes = isinstance(pattern, bytes)
        self.flags = flags
        self.ic = bool(flags & re.IGNORECASE)
        self.ascii_only = ascii_only or bool(flags & re.ASCII)
        if flags & (re.MULTILINE | re.VERBOSE | re.LOCALE):
            raise Undecided("regex flags MULTILINE/VERBOSE/LOCALE")
        self.dotall = bool(flags & re.DOTALL)
        self.tree = sre_parse.parse(pattern, flags & ~re.UNICODE if self.is_bytes else flags)

    def item(self, op, av):
        name = str(op)
        if name == "LITERAL":
            return union([lit_re(chr(c)) for c in case_fold(av, self.ic)])
        if name == "NOT_LITERAL":
            ex = set(case_fold(av, self.ic))
            return self.complement_set(ex)
        if name == "ANY":
            return any_char(self.is_bytes, self.dotall)
        if name == "IN":
            return self.char_class(av)
        if name in ("MAX_REPEAT", "MIN_REPEAT"):
            lo, hi, sub = av
            r = self.seq(sub)
            if hi == sre_c.MAXREPEAT:
                if lo == 0:
                    return z3.Star(r)
                if lo == 1:
                    return z3.Plus(r)
                return z3.Concat(z3.Loop(r, lo, lo), z3.Star(r))
            if lo == 0 and hi == 1:
                return z3.Option(r)
            return z3.Loop(r, lo, hi)
        if name == "SUBPATTERN":
            group, add_flags, del_flags, sub = av
            if add_flags or del_flags:
                raise Undecided("inline regex flags")
            return self.seq(sub)
        if name == "BRANCH":
            _, alts = av
            return union([self.seq(a) for a in alts])
        if name == "CATEGORY":
            return category(av, self.is_bytes, self.ascii_only)
        if name == "AT":
            raise Undecided("anchor in the middle of a pattern")
        raise Undecided("regex construct %s" % name)

    def complement_set(self, excluded):
        hi = 255 if self.is_bytes else MAXCH
        rs = []
        lo = 0
        for c in sorted(excluded) + [hi + 1]:
            if c > lo:
                rs.append(z3.Range(chr(lo), chr(c - 1)))
            lo = c + 1
        return union(rs)

    def class_chars(self, av):
        """-> (negated, set of chars or None if it has categories, category regexes)"""
        negate = False
        chars = set()
        cats = []
        for op, v in av:
            name = str(op)
            if name == "NEGATE":
                negate = True
            elif name == "LITERAL":
                chars.update(case_fold(v, self.ic))
            elif name == "RANGE":
                lo, hi = v
                if hi - lo > 512:
                    raise Undecided("large character range")
                for c in range(lo, hi + 1):
                    chars.update(case_fold(c, self.ic))
            elif name == "CATEGORY":
                cats.append(category(v, self.is_bytes, self.ascii_only))
            else:
                raise Undecided("class item %s" % name)
        return negate, chars, cats

    def char_class(self, av):
        negate, chars, cats = self.class_chars(av)
        if negate:
            if cats:
                raise Undecided("negated class with categories")
            return self.complement_set(chars)
        rs = []
        cs = sorted(chars)
        i = 0
        while i < len(cs):
            j = i
            while j + 1 < len(cs) and cs[j + 1] == cs[j] + 1:
                j += 1
            rs.append(z3.Range(chr(cs[i]), chr(cs[j])) if j > i else lit_re(chr(cs[i])))
            i = j + 1
        return union(rs + cats)

    def seq(self, items):
        return concat([self.item(op, av) for op, av in items])


def is_at(item, which):
    op, av = item
    return str(op) == "AT" and str(av) in which


def split_anchors(tr):
    """-> (anchored_start, body_items, end) with end in {'none', 'dollar', 'Z', ('alt', [alts...])}"""
    items = list(tr.tree)
    start = False
    if items and is_at(items[0], ("AT_BEGINNING", "AT_BEGINNING_STRING")):
        start = True
        items = items[1:]
    end = "none"
    if items and is_at(items[-1], ("AT_END",)):
        end, items = "dollar", items[:-1]
    elif items and is_at(items[-1], ("AT_END_STRING",)):
        end, items = "Z", items[:-1]
    elif items and str(items[-1][0]) == "SUBPATTERN":
        group, af, df, sub = items[-1][1]
        sub = list(sub)
        if len(sub) == 1 and str(sub[0][0]) == "BRANCH":
            alts = [list(a) for a in sub[0][1][1]]
            if any(len(a) == 1 and is_at(a[0], ("AT_END", "AT_END_STRING")) for a in alts):
                end, items = ("alt", alts, group), items[:-1]
    for it in items:
        if str(it[0]) == "AT":
            raise Undecided("anchor in the middle of a pattern")
    return start, items, end


def end_regex(tr, end):
    """language of what may follow the body, for search()"""
    nl_opt = z3.Option(lit_re("\n"))
    if end == "none":
        return sigma_star(tr.is_bytes)
    if end == "dollar":
        return nl_opt
    if end == "Z":
        return empty_re()
    _, alts, group = end
    rs = []
    for a in alts:
        if len(a) == 1 and is_at(a[0], ("AT_END",)):
            rs.append(nl_opt)
        elif len(a) == 1 and is_at(a[0], ("AT_END_STRING",)):
            rs.append(empty_re())
        else:
            rs.append(z3.Concat(tr.seq(a), sigma_star(tr.is_bytes)))
    return union(rs)


def search_language(pattern, flags=0, ascii_only=False, mode="search"):
    """z3 regex of all strings on which pattern.search (or .match / .fullmatch) succeeds."""
    tr = Tr(pattern, flags, ascii_only)
    start, items, end = split_anchors(tr)
    body = tr.seq(items)
    pre = empty_re() if (start or mode in ("match", "fullmatch")) else sigma_star(tr.is_bytes)
    if mode == "fullmatch":
        post = empty_re() if end in ("none", "Z") else end_regex(tr, end)
        if end == "dollar":
            post = empty_re()
    else:
        post = end_regex(tr, end)
    return z3.Concat(pre, body, post), tr


def top_level_parts(pattern, flags=0, ascii_only=False):
    """Decompose the body into a list of ('lit', str) / ('group', index, regex, charset|None, fixed_len|None) /
    ('re', regex) parts for group extraction."""
    tr = Tr(pattern, flags, ascii_only)
    start, items, end = split_anchors(tr)
    parts = []
    for op, av in items:
        name = str(op)
        if name == "LITERAL" and not tr.ic:
            if parts and parts[-1][0] == "lit":
                parts[-1] = ("lit", parts[-1][1] + chr(av))
            else:
                parts.append(("lit", chr(av)))
        elif name == "SUBPATTERN" and av[0] is not None:
            group, af, df, sub = av
            parts.append(("group", group, tr.seq(sub), charset_of(tr, sub), fixed_len(sub)))
        else:
            parts.append(("re", tr.item(op, av), charset_of(tr, [(op, av)]), fixed_len([(op, av)])))
    return tr, start, parts, end


def charset_of(tr, items):
    """set of characters that can occur in strings of this sub-pattern (None = unknown/any)"""
    out = set()
    for op, av in items:
        name = str(op)
        if name == "LITERAL":
            out.update(case_fold(av, tr.ic))
        elif name == "IN":
            neg, chars, cats = tr.class_chars(av)
            if neg or cats:
                return None
            out.update(chars)
        elif name in ("MAX_REPEAT", "MIN_REPEAT"):
            s = charset_of(tr, av[2])
            if s is None:
                return None
            out.update(s)
        elif name == "SUBPATTERN":
            s = charset_of(tr, av[3])
            if s is None:
                return None
            out.update(s)
        elif name == "BRANCH":
            for a in av[1]:
                s = charset_of(tr, a)
                if s is None:
                    return None
                out.update(s)
        else:
            return None
    return out


def fixed_len(items):
    n = 0
    for op, av in items:
        name = str(op)
        if name in ("LITERAL", "IN", "ANY", "NOT_LITERAL", "CATEGORY"):
            n += 1
        elif name in ("MAX_REPEAT", "MIN_REPEAT"):
            lo, hi, sub = av
            k = fixed_len(sub)
            if k is None or lo != hi:
                return None
            n += lo * k
        elif name == "SUBPATTERN":
            k = fixed_len(av[3])
            if k is None:
                return None
            n += k
        elif name == "BRANCH":
            ks = set(fixed_len(a) for a in av[1])
            if len(ks) != 1 or None in ks:
                return None
            n += ks.pop()
        else:
            return None
    return n
