"""String/bytes methods on z3 strings, int() parsing, regex (DESIGN.md 2.6)."""
import z3
from .values import *  # noqa
from . import models as M


def MF(name, fn):
    from .interp import ModelFn
    return ModelFn(name, fn)


DIGITS = z3.Range("0", "9")


def is_digits(t):
    return z3.InRe(t, z3.Plus(DIGITS))


def plain_or_sstr(t, isb):
    if z3.is_string_value(t):
        from .harness import decode_z3_string
        v = decode_z3_string(t.as_string())
        return bytes(ord(c) for c in v) if isb else v
    return SStr(t, isb)


def int_of_str(I, s, base=10):
    """int(s) for a symbolic string: defined on plain ASCII digit strings with optional
    sign; other accepted spellings (whitespace, underscores, non-ASCII digits) make
    the result UNDECIDED unless excluded by the path condition."""
    if base != 10:
        raise Undecided("int(s, base)")
    t = s.term
    sp = struct_parts(I, t)
    if sp is not None and len(sp) == 1 and sp[0][0] == "num":
        return norm_int(sp[0][1].arg(0))      # int(str(n)) == n for n >= 0 (decimal bijection, trusted)
    if sp is not None and base == 10 and struct_is_digits(I, sp):
        r = norm_int(z3.StrToInt(t))
        if is_sym_int(r):
            I.ghost.setdefault("nonneg", set()).add(r.get_id())
            I.path.fact(r >= 0, "int() of a digit string is non-negative")
        return r
    plain = is_digits(t)
    neg = z3.And(z3.PrefixOf(z3.StringVal("-"), t), is_digits(z3.SubString(t, 1, z3.Length(t) - 1)))
    if I.path.branch(plain):
        canon = z3.InRe(t, z3.Union(z3.Re("0"), z3.Concat(z3.Range("1", "9"), z3.Star(DIGITS))))
        I.path.fact(z3.Implies(canon, z3.IntToStr(z3.StrToInt(t)) == t),
                    "decimal bijection: str(int(s)) == s for canonical numerals (assumed; cross-checked natively)")
        r = norm_int(z3.StrToInt(t))
        if is_sym_int(r):
            I.ghost.setdefault("nonneg", set()).add(r.get_id())
            I.path.fact(r >= 0, "int() of a digit string is non-negative")
        return r
    if I.path.branch(neg):
        return norm_int(-z3.StrToInt(z3.SubString(t, 1, z3.Length(t) - 1)))
    # strings int() may still accept: +N, whitespace-padded, underscores, unicode digits
    lenient = z3.InRe(t, z3.Concat(z3.Star(WS), z3.Option(z3.Union(z3.Re("+"), z3.Re("-"))), z3.Plus(DIGITS),
                                  z3.Star(z3.Concat(z3.Option(z3.Re("_")), z3.Plus(DIGITS))), z3.Star(WS)))
    if s.is_bytes or I.cfg.get("ascii_only_strings"):
        if I.path.branch(lenient):
            raise Undecided("int() on a leniently accepted numeral (sign/whitespace/underscore)")
        raise PyRaise(ValueError("invalid literal for int()"), ValueError)
    raise Undecided("int() on a str that may contain non-ASCII digits or lenient spellings")


WS = z3.Union(z3.Re(" "), z3.Re("\t"), z3.Re("\n"), z3.Re("\r"), z3.Re("\x0b"), z3.Re("\x0c"))


UTF8_DECODE = z3.Function("utf8_decode", z3.StringSort(), z3.StringSort())
UTF8_ENCODE = z3.Function("utf8_encode", z3.StringSort(), z3.StringSort())


def decode(I, s, enc="utf-8"):
    if isinstance(s, bytes):
        try:
            return s.decode(enc)
        except UnicodeDecodeError as e:
            raise PyRaise(e, UnicodeDecodeError)
    # ASCII-only bytes decode to the same characters
    ascii_only = z3.InRe(s.term, z3.Star(z3.Range("\x00", "\x7f")))
    if I.path.branch(ascii_only):
        return SStr(s.term, False)
    if enc in ("ascii", "us-ascii"):
        raise PyRaise(UnicodeDecodeError("ascii", b"", 0, 1, "ordinal not in range(128)"), UnicodeDecodeError)
    if enc.lower().replace("_", "-") in ("utf-8", "utf8"):
        # non-ASCII UTF-8: either invalid (UnicodeDecodeError) or some text that is a function of the bytes
        if I.path.choose(2) == 1:
            raise PyRaise(UnicodeDecodeError("utf-8", b"", 0, 1, "invalid start byte"), UnicodeDecodeError)
        return SStr(UTF8_DECODE(s.term), False)
    raise Undecided("decode of non-ASCII bytes")


def encode(I, s, enc="utf-8"):
    if isinstance(s, str):
        try:
            return s.encode(enc)
        except UnicodeEncodeError as e:
            raise PyRaise(e, UnicodeEncodeError)
    ascii_only = z3.InRe(s.term, z3.Star(z3.Range("\x00", "\x7f")))
    if I.path.branch(ascii_only):
        return SStr(s.term, True)
    if enc in ("ascii", "us-ascii"):
        raise PyRaise(UnicodeEncodeError("ascii", "", 0, 1, "ordinal not in range(128)"), UnicodeEncodeError)
    if enc.lower().replace("_", "-") in ("utf-8", "utf8"):
        if I.path.choose(2) == 1:      # lone surrogates cannot be encoded
            raise PyRaise(UnicodeEncodeError("utf-8", "", 0, 1, "surrogates not allowed"), UnicodeEncodeError)
        r = UTF8_ENCODE(s.term)
        I.path.fact(z3.Not(z3.InRe(r, z3.Star(z3.Range("\x00", "\x7f")))), "utf-8 encoding of a non-ASCII string is not ASCII")
        return SStr(r, True)
    raise Undecided("encode of non-ASCII str")


# ------------------------------------------------------------------ structured strings
# A symbolic string built as a concatenation of literals and ATOMS (string symbols whose alphabet and minimum
# length the contract declares in cfg["atoms"] = {name: (alphabet, min_len)} and asserts in `requires`) can be
# split / stripped / compared structurally, without the string solver.

def struct_parts(I, term):
    atoms = I.cfg.get("atoms") if I is not None else None
    if not atoms:
        if I is None or not I.cfg.get("rope"):
            return None
        atoms = {}
    t = z3.simplify(term)

    def flat(x):
        if z3.is_app(x) and x.decl().kind() == z3.Z3_OP_SEQ_CONCAT:
            r = []
            for c in x.children():
                r.extend(flat(c))
            return r
        return [x]
    kids = flat(t)
    out = []
    for k in kids:
        if z3.is_string_value(k):
            from .harness import decode_z3_string
            v = decode_z3_string(k.as_string())
            if out and out[-1][0] == "lit":
                out[-1] = ("lit", out[-1][1] + v)
            else:
                out.append(("lit", v))
        elif z3.is_const(k) and str(k) in atoms:
            out.append(("atom", k))
        elif I.cfg.get("rope") and z3.is_app(k) and k.decl().kind() == z3.Z3_OP_INT_TO_STR and rope_nonneg(I, k.arg(0)):
            out.append(("num", k))
        elif I.cfg.get("rope") and z3.is_app(k) and k.decl().kind() == z3.Z3_OP_UNINTERPRETED:
            out.append(("atom", k))       # any other string symbol / uninterpreted application: an opaque part
        else:
            return None
    return out


# ------------------------------------------------------------------ ropes (cfg["rope"]): positions, index, slices without the string solver
# A rope is a structured string whose parts are literals, atoms (alphabet None = any character) and decimal numerals
# IntToStr(n) with n >= 0.  The length of a numeral is the uninterpreted NUMLEN(n) >= 1; numerals consist of digits.
NUMLEN = z3.Function("numlen", z3.IntSort(), z3.IntSort())


def rope_nonneg(I, x):
    if z3.is_app(x) and x.decl().kind() == z3.Z3_OP_SEQ_LENGTH:
        return True
    if x.get_id() in I.ghost.get("nonneg", ()):
        return True
    return not I.path.feasible(x < 0)


def part_len(I, p):
    k, v = p
    if k == "lit":
        return len(v)
    if k == "atom":
        fixed = I.ghost.get("rope_fixed_len", {}).get(v.get_id())
        if fixed is None:
            al = atom_alpha(I, v)
            fixed = al[2] if len(al) > 2 else None
        return fixed if fixed is not None else z3.Length(v)
    n = NUMLEN(v.arg(0))
    key = ("numlen", n.get_id())
    if key not in I.ghost.setdefault("rope_facts", set()):
        I.ghost["rope_facts"].add(key)
        I.path.fact(n >= 1, "a decimal numeral has at least one digit")
    return n


def rope_len(I, parts):
    tot = 0
    for p in parts:
        tot = tot + part_len(I, p)
    return norm_int(z3.simplify(tot)) if not isinstance(tot, int) else tot


def rope_bounds(I, parts):
    b, tot = [0], 0
    for p in parts:
        tot = tot + part_len(I, p)
        b.append(tot)
    return b


def rope_locate(I, parts, pos):
    """-> (k, o): pos == start of part k + o, o concrete, 0 <= o <= len(part k) (o > 0 only inside a literal); or None"""
    b = rope_bounds(I, parts)
    for k in range(len(parts) + 1):
        d = concrete_int(norm_int(to_z3_int(pos) - to_z3_int(b[k])))
        if d is None:
            continue
        if d == 0:
            return k, 0
        if k < len(parts) and parts[k][0] == "lit" and 0 < d < len(parts[k][1]):
            return k, d
    return None


def part_may_contain(I, p, ch):
    k, v = p
    if k == "num":
        return ch.isdigit()
    if k == "atom":
        alpha = atom_alpha(I, v)[0]
        return alpha is None or ch in alpha
    return ch in v


def rope_index(I, parts, sep, start):
    """position of the first `sep` (one character) at or after `start`; None = cannot tell; -1 = absent"""
    loc = rope_locate(I, parts, start)
    if loc is None or len(sep) != 1:
        return None
    k, o = loc
    b = rope_bounds(I, parts)
    while k < len(parts):
        kind, v = parts[k]
        if kind == "lit":
            i = v.find(sep, o)
            if i >= 0:
                return norm_int(to_z3_int(b[k]) + i)
        elif part_may_contain(I, parts[k], sep):
            return None
        k, o = k + 1, 0
    return -1


def rope_slice(I, parts, lo, hi):
    """parts of s[lo:hi] when both ends are located and lo <= hi; else None"""
    a = rope_locate(I, parts, lo)
    z = rope_locate(I, parts, hi)
    if a is None or z is None:
        return None
    (k1, o1), (k2, o2) = a, z
    if (k1, o1) > (k2, o2):
        return None
    out = []
    for k in range(k1, min(k2 + 1, len(parts))):
        kind, v = parts[k]
        if kind == "lit":
            s0 = o1 if k == k1 else 0
            e0 = o2 if k == k2 else len(v)
            if v[s0:e0]:
                out.append(("lit", v[s0:e0]))
        elif k < k2:
            out.append((kind, v))
    return out


def rope_of(I, s):
    if not (I is not None and I.cfg.get("rope")) or not isinstance(s, SStr):
        return None
    return struct_parts(I, s.term)


def parts_term(parts):
    ts = [z3.StringVal(v) if k == "lit" else v for k, v in parts if not (k == "lit" and v == "")]
    if not ts:
        return z3.StringVal("")
    return ts[0] if len(ts) == 1 else z3.Concat(*ts)


def atom_alpha(I, a):
    r = (I.cfg.get("atoms") or {}).get(str(a))
    return r if r is not None else (None, 0)


def struct_split(I, parts, sep, maxsplit):
    """split on a single-character separator that no atom can contain"""
    if len(sep) != 1 or any(part_may_contain(I, (k, v), sep) for k, v in parts if k != "lit"):
        return None
    out, cur, n = [], [], 0
    for k, v in parts:
        if k != "lit":
            cur.append((k, v))
            continue
        while True:
            i = v.find(sep)
            if i < 0 or (maxsplit is not None and n >= maxsplit):
                cur.append(("lit", v))
                break
            cur.append(("lit", v[:i]))
            out.append(cur)
            cur, n, v = [], n + 1, v[i + 1:]
    out.append(cur)
    return out


def struct_strip(I, parts, left, right):
    ws = " \t\n\r\x0b\x0c"
    parts = [list(p) for p in parts]

    def solid(p):
        if p[0] == "num":
            return True
        alpha, mn = atom_alpha(I, p[1])
        return alpha is not None and mn >= 1 and not (set(alpha) & set(ws))
    if left:
        while parts:
            if parts[0][0] == "lit":
                parts[0][1] = parts[0][1].lstrip(ws)
                if parts[0][1] == "":
                    parts.pop(0)
                    continue
                break
            if solid(parts[0]):
                break
            return None
    if right:
        while parts:
            if parts[-1][0] == "lit":
                parts[-1][1] = parts[-1][1].rstrip(ws)
                if parts[-1][1] == "":
                    parts.pop()
                    continue
                break
            if solid(parts[-1]):
                break
            return None
    return [tuple(p) for p in parts]


def struct_min_len(I, parts):
    return sum(len(v) if k == "lit" else (1 if k == "num" else atom_alpha(I, v)[1]) for k, v in parts)


def struct_is_digits(I, parts):
    if struct_min_len(I, parts) < 1:
        return False
    for k, v in parts:
        if k == "lit":
            if v and not (v.isdigit() and v.isascii()):
                return False
        elif k == "num":
            continue
        elif atom_alpha(I, v)[0] is None or not set(atom_alpha(I, v)[0]) <= set("0123456789"):
            return False
    return True


def str_method(I, s, name):
    isb = s.is_bytes if isinstance(s, SStr) else isinstance(s, bytes)
    me = as_sstr(s)

    def conc(args):
        return isinstance(s, (bytes, str)) and all(I.is_plain(a) for a in args)

    def native(args, kwargs):
        try:
            return getattr(s, name)(*args, **kwargs)
        except Exception as e:
            raise PyRaise(e, type(e))

    def startswith(I_, a, k):
        if conc(a):
            return native(a, k)
        p = a[0]
        if isinstance(p, tuple):
            return norm_bool(z3.Or([z3.PrefixOf(as_sstr(x).term, me.term) for x in p]))
        return norm_bool(z3.PrefixOf(as_sstr(p).term, me.term))

    def endswith(I_, a, k):
        if conc(a):
            return native(a, k)
        p = a[0]
        if isinstance(p, tuple):
            return norm_bool(z3.Or([z3.SuffixOf(as_sstr(x).term, me.term) for x in p]))
        return norm_bool(z3.SuffixOf(as_sstr(p).term, me.term))

    def join(I_, a, k):
        items = I.iterate(a[0])
        if conc([items]):
            return native([items], k)
        if any(isinstance(x, Opaque) for x in items):
            return Opaque("join")
        parts = []
        for i, x in enumerate(items):
            if i:
                parts.append(s)
            parts.append(x)
        if not parts:
            return b"" if isb else ""
        if any(isinstance(x, SBytes) for x in parts):
            acc = None
            for x in parts:
                if isinstance(x, bytes) and not x:
                    continue
                xb = as_sbytes(x)
                acc = xb if acc is None else sb_concat(acc, xb)
            return acc
        return M.str_concat(I, parts, isb)

    def find(I_, a, k):
        if conc(a):
            return native(a, k)
        start = to_z3_int(a[1]) if len(a) > 1 else z3.IntVal(0)
        if len(a) > 2:
            raise Undecided("find with end")
        return norm_int(z3.IndexOf(me.term, as_sstr(a[0]).term, start))

    def index(I_, a, k):
        if conc(a):
            return native(a, k)
        rp = rope_of(I, s)
        if rp is not None and isinstance(a[0], (bytes, str)) and len(a) <= 2:
            sep = a[0].decode("latin-1") if isinstance(a[0], bytes) else a[0]
            r = rope_index(I, rp, sep, a[1] if len(a) > 1 else 0)
            if r is not None:
                if isinstance(r, int) and r < 0:
                    raise PyRaise(ValueError("subsection not found"), ValueError)
                return r
        r = find(I_, a, k)
        if I.path.branch(to_z3_int(r) < 0):
            raise PyRaise(ValueError("substring not found"), ValueError)
        return r

    def enc(I_, a, k):
        if conc(a):
            return native(a, k)
        return encode(I, s, a[0] if a else k.get("encoding", "utf-8"))

    def dec(I_, a, k):
        if conc(a):
            return native(a, k)
        return decode(I, s, a[0] if a else k.get("encoding", "utf-8"))

    def split(I_, a, k):
        if conc(a):
            return native(a, k)
        sp = struct_parts(I, me.term) if isinstance(s, SStr) else None
        if sp is not None and a and isinstance(a[0], (bytes, str)):
            sep = a[0].decode("latin-1") if isinstance(a[0], bytes) else a[0]
            r = struct_split(I, sp, sep, a[1] if len(a) > 1 else None)
            if r is not None:
                outl = []
                for piece in r:
                    t = z3.simplify(parts_term(piece))
                    outl.append(plain_or_sstr(t, isb))
                return outl
        if len(a) == 2 and isinstance(a[1], int) and a[1] == 1 and isinstance(a[0], (bytes, str)):
            sep = as_sstr(a[0]).term
            i = z3.IndexOf(me.term, sep, 0)
            if I.path.branch(i < 0):
                return [s]
            return [SStr(z3.SubString(me.term, 0, i), isb),
                    SStr(z3.SubString(me.term, i + z3.Length(sep), z3.Length(me.term) - i - z3.Length(sep)), isb)]
        if len(a) == 1 and isinstance(a[0], (bytes, str)) and len(a[0]) > 0:
            # split on every occurrence: explored up to 4 parts (more -> undecided)
            sep = as_sstr(a[0]).term
            parts, rest = [], me.term
            for _ in range(4):
                i = z3.IndexOf(rest, sep, 0)
                if I.path.branch(i < 0):
                    parts.append(SStr(rest, isb))
                    return parts
                parts.append(SStr(z3.simplify(z3.SubString(rest, 0, i)), isb))
                rest = z3.simplify(z3.SubString(rest, i + z3.Length(sep), z3.Length(rest) - i - z3.Length(sep)))
            raise Undecided("split into more than 4 parts")
        raise Undecided("split on symbolic string")

    def strip_like(I_, a, k):
        """strip/lstrip/rstrip (default whitespace set): result r is a substring of s; r == s iff the
        stripped end(s) of s carry no ASCII whitespace, otherwise r is strictly shorter."""
        if conc(a):
            return native(a, k)
        if a:
            if name == "rstrip" and isinstance(a[0], (bytes, str)) and len(a[0]) == 1 and isinstance(s, SStr):
                ch = a[0].decode("latin-1") if isinstance(a[0], bytes) else a[0]
                if not I.path.branch(z3.SuffixOf(z3.StringVal(ch), me.term)):
                    return s
                r = z3.String(fresh_name("rstripped"))
                I.path.fact(z3.And(z3.PrefixOf(r, me.term), z3.Length(r) < z3.Length(me.term), z3.Not(z3.SuffixOf(z3.StringVal(ch), r))), "str.rstrip(c) model")
                return SStr(r, isb)
            raise Undecided("strip with explicit character set on symbolic string")
        sp = struct_parts(I, me.term)
        if sp is not None:
            r = struct_strip(I, sp, name in ("strip", "lstrip"), name in ("strip", "rstrip"))
            if r is not None:
                return plain_or_sstr(z3.simplify(parts_term(r)), isb)
        t = me.term
        r = z3.String(fresh_name("stripped"))
        n = z3.Length(t)
        ws_first = z3.And(n > 0, z3.InRe(z3.SubString(t, 0, 1), WS))
        ws_last = z3.And(n > 0, z3.InRe(z3.SubString(t, n - 1, 1), WS))
        dirty = {"strip": z3.Or(ws_first, ws_last), "lstrip": ws_first, "rstrip": ws_last}[name]
        I.path.fact(z3.And(z3.Contains(t, r), z3.If(dirty, z3.Length(r) < n, r == t)), "str.%s model" % name)
        return SStr(r, isb)

    def fmt(I_, a, k):
        if conc(a) and all(I.is_plain(x) for x in k.values()):
            return native(a, k)
        return Opaque("str.format()")   # message text: never branched on

    def generic(I_, a, k):
        if conc(a):
            return native(a, k)
        raise Undecided("str.%s on symbolic string" % name)

    def upper(I_, a, k):
        if conc(a):
            return native(a, k)
        # case mapping of a symbolic string: uninterpreted (ASCII-only inputs assumed by the contracts that use it)
        f = z3.Function("py_" + name, z3.StringSort(), z3.StringSort())
        return SStr(f(me.term), isb)
    def just(I_, a, k):
        """ljust/rjust(width, fill): exact model -- unchanged when len(s) >= width, else s padded by a string of
        (width - len(s)) copies of the fill character"""
        if conc(a):
            return native(a, k)
        if k or not a or len(a) > 2:
            raise Undecided("str.%s with keyword arguments" % name)
        w = to_z3_int(a[0])
        fill = a[1] if len(a) > 1 else (b" " if isb else " ")
        if not isinstance(fill, (bytes, str)) or len(fill) != 1:
            raise Undecided("str.%s with a symbolic fill character" % name)
        ch = fill.decode("latin-1") if isinstance(fill, bytes) else fill
        n = z3.Length(me.term)
        if not I.path.branch(n < w):
            return s
        pad = z3.String(fresh_name("padding"))
        I.path.fact(z3.And(z3.Length(pad) == w - n, z3.InRe(pad, z3.Star(z3.Re(z3.StringVal(ch))))), "str.%s padding" % name)
        return SStr(z3.Concat(me.term, pad) if name == "ljust" else z3.Concat(pad, me.term), isb)

    t = {"upper": upper, "lower": upper, "format": fmt, "strip": strip_like, "lstrip": strip_like, "rstrip": strip_like, "startswith": startswith, "endswith": endswith, "join": join, "find": find, "index": index,
         "encode": enc, "decode": dec, "split": split, "ljust": just, "rjust": just}
    return MF("str." + name, t.get(name, generic))


def register(t):
    import re

    def mk(mode):
        def f(I, a, k):
            pat, subj = a[0], a[1]
            if isinstance(pat, SStr):
                raise Undecided("symbolic regex pattern")
            flags = a[2] if len(a) > 2 else k.get("flags", 0)
            return re_exec(I, re.compile(pat, flags), subj, mode)
        return f
    t[re.match] = mk("match")
    t[re.search] = mk("search")
    t[re.fullmatch] = mk("fullmatch")


# ------------------------------------------------------------------ re

class MatchObj(object):
    def __init__(self, whole, groups):
        self.whole = whole
        self.groups = groups      # {index: SStr}


def re_exec(I, pat, s, mode):
    import re
    from . import regex as R
    if isinstance(s, (bytes, str)):
        m = getattr(pat, mode)(s)
        if m is None:
            return None
        isb = isinstance(s, bytes)
        mo = MatchObj(m.group(0), {i + 1: g for i, g in enumerate(m.groups())})
        mo.end_idx = m.end()
        return mo
    if not isinstance(s, SStr):
        raise Undecided("regex on %r" % (s,))
    if isinstance(pat.pattern, bytes) != s.is_bytes:
        raise PyRaise(TypeError("cannot use a bytes pattern on a string-like object"), TypeError)
    ascii_only = bool(I.cfg.get("ascii_only_strings"))
    if I.cfg.get("regex_abstract"):
        # data-flow mode: the match succeeds or not (free choice) and the groups are unconstrained strings;
        # what the pattern accepts is decided separately by regular-language obligations
        given = I.cfg.get("regex_group_values", {})
        mo = MatchObj(s, {i + 1: given.get(i + 1, SStr(z3.String("G%d" % (i + 1)), s.is_bytes)) for i in range(pat.groups)})
        mo.names = dict(pat.groupindex)
        I.ghost.setdefault("regex_calls", []).append((pat, s, mo, mode))
        if not I.path.branch(z3.Bool(fresh_name("regex_matches"))):
            return None
        return mo
    L, tr = R.search_language(pat.pattern, pat.flags, ascii_only, mode)
    if not I.path.branch(z3.InRe(s.term, L)):
        return None
    tr, start, parts, end = R.top_level_parts(pat.pattern, pat.flags, ascii_only)
    if not (start or mode in ("match", "fullmatch")):
        if pat.groups == 0:
            return MatchObj(s, {})
        raise Undecided("unanchored search with capture groups")
    isb = s.is_bytes
    pieces, meta = [], []
    groups = {}
    for p in parts:
        if p[0] == "lit":
            pieces.append(z3.StringVal(p[1]))
            meta.append(("lit", p[1]))
        else:
            g = z3.String(fresh_name("grp"))
            rx, cs, fl = (p[2], p[3], p[4]) if p[0] == "group" else (p[1], p[2], p[3])
            I.path.fact(z3.InRe(g, rx), "regex: captured group is in the group's language")
            pieces.append(g)
            meta.append(("var", cs, fl))
            if p[0] == "group":
                groups[p[1]] = SStr(g, isb)
    rest = z3.String(fresh_name("rest"))
    sig = R.sigma_star(tr.is_bytes)
    if end == "none":
        rest_re = sig if mode != "fullmatch" else R.empty_re()
    else:
        rest_re = R.end_regex(tr, end) if not (mode == "fullmatch" and end in ("dollar", "Z")) else R.empty_re()
    I.path.fact(z3.InRe(rest, rest_re), "regex: text after the match")
    if isinstance(end, tuple) and end[2] is not None:
        # the trailing (:|$) style group: not used by callers; its value is the matched alternative
        groups[end[2]] = Opaque("trailing-group")
    I.path.fact(s.term == z3.Concat(*(pieces + [rest])) if pieces else s.term == rest, "regex: decomposition of the subject")
    # greedy / unique decomposition: a variable-length part takes every character it can
    for i, m in enumerate(meta):
        if m[0] != "var" or m[2] is not None:
            continue
        cs = m[1]
        if cs is None:
            raise Undecided("variable-length regex part with unknown alphabet")
        after = pieces[i + 1:] + [rest]
        nxt = meta[i + 1] if i + 1 < len(meta) else None
        if nxt is not None and nxt[0] == "lit":
            if ord(nxt[1][0]) in cs:
                raise Undecided("regex decomposition may be ambiguous (literal starts with a group character)")
            continue
        if nxt is not None:
            raise Undecided("two adjacent variable-length regex parts")
        tail = rest
        notin = z3.Or(z3.Length(tail) == 0, z3.Not(z3.InRe(z3.SubString(tail, 0, 1), R.union([R.lit_re(chr(c)) for c in sorted(cs)]))))
        I.path.fact(notin, "regex: greedy repetition takes every matching character")
    mo = MatchObj(s, groups)
    mo.end_idx = norm_int(z3.Length(s.term) - z3.Length(rest))
    return mo


def pattern_attr(I, pat, name):
    if name in ("search", "match", "fullmatch"):
        return MF("re." + name, lambda I_, a, k: re_exec(I, pat, a[0], name))
    return NotImplemented


def match_attr(I, m, name):
    def group(I_, a, k):
        if not a:
            return m.whole
        idx = a[0]
        if isinstance(idx, str):
            idx = getattr(m, "names", {}).get(idx, idx)
        if idx == 0:
            return m.whole
        if idx not in m.groups:
            raise PyRaise(IndexError("no such group"), IndexError)
        return m.groups[idx]

    def groups(I_, a, k):
        return tuple(m.groups[i] for i in sorted(m.groups))
    if name == "end":
        def end(I_, a, k):
            if a and a[0] != 0:
                raise Undecided("match.end(group)")
            if not hasattr(m, "end_idx"):
                raise Undecided("match.end() of an unanchored match")
            return m.end_idx
        return MF("match.end", end)
    if name == "group":
        return MF("match.group", group)
    if name == "groups":
        return MF("match.groups", groups)
    return NotImplemented
