"""String/bytes methods on z3 strings, int() parsing, regex (DESIGN.md 2.6)."""
import z3
from .values import *  # noqa
from . import models as M


def MF(name, fn):
    from .interp import ModelFn
    return ModelFn(name, fn)


DIGITS = z3.Range("0", "9")


def is_digits(t):
    return z3.InRe(t, z3.Plus(DIGITS))


def int_of_str(I, s, base=10):
    """int(s) for a symbolic string: defined on plain ASCII digit strings with optional
    sign; other accepted spellings (whitespace, underscores, non-ASCII digits) make
    the result UNDECIDED unless excluded by the path condition."""
    if base != 10:
        raise Undecided("int(s, base)")
    t = s.term
    plain = is_digits(t)
    neg = z3.And(z3.PrefixOf(z3.StringVal("-"), t), is_digits(z3.SubString(t, 1, z3.Length(t) - 1)))
    if I.path.branch(plain):
        return norm_int(z3.StrToInt(t))
    if I.path.branch(neg):
        return norm_int(-z3.StrToInt(z3.SubString(t, 1, z3.Length(t) - 1)))
    # strings int() may still accept: +N, whitespace-padded, underscores, unicode digits
    lenient = z3.InRe(t, z3.Concat(z3.Star(WS), z3.Option(z3.Union(z3.Re("+"), z3.Re("-"))), z3.Plus(DIGITS),
                                  z3.Star(z3.Concat(z3.Option(z3.Re("_")), z3.Plus(DIGITS))), z3.Star(WS)))
    if s.is_bytes or I.cfg.get("ascii_only_strings"):
        if I.path.branch(lenient):
            raise Undecided("int() on a leniently accepted numeral (sign/whitespace/underscore)")
        raise PyRaise(ValueError("invalid literal for int()"), ValueError)
    raise Undecided("int() on a str that may contain non-ASCII digits or lenient spellings")


WS = z3.Union(z3.Re(" "), z3.Re("\t"), z3.Re("\n"), z3.Re("\r"), z3.Re("\x0b"), z3.Re("\x0c"))


def decode(I, s, enc="utf-8"):
    if isinstance(s, bytes):
        try:
            return s.decode(enc)
        except UnicodeDecodeError as e:
            raise PyRaise(e, UnicodeDecodeError)
    # ASCII-only bytes decode to the same characters
    ascii_only = z3.InRe(s.term, z3.Star(z3.Range("\x00", "\x7f")))
    if I.path.branch(ascii_only):
        return SStr(s.term, False)
    if enc in ("ascii", "us-ascii"):
        raise PyRaise(UnicodeDecodeError("ascii", b"", 0, 1, "ordinal not in range(128)"), UnicodeDecodeError)
    raise Undecided("decode of non-ASCII bytes")


def encode(I, s, enc="utf-8"):
    if isinstance(s, str):
        try:
            return s.encode(enc)
        except UnicodeEncodeError as e:
            raise PyRaise(e, UnicodeEncodeError)
    ascii_only = z3.InRe(s.term, z3.Star(z3.Range("\x00", "\x7f")))
    if I.path.branch(ascii_only):
        return SStr(s.term, True)
    if enc in ("ascii", "us-ascii"):
        raise PyRaise(UnicodeEncodeError("ascii", "", 0, 1, "ordinal not in range(128)"), UnicodeEncodeError)
    raise Undecided("encode of non-ASCII str")


def str_method(I, s, name):
    isb = s.is_bytes if isinstance(s, SStr) else isinstance(s, bytes)
    me = as_sstr(s)

    def conc(args):
        return isinstance(s, (bytes, str)) and all(I.is_plain(a) for a in args)

    def native(args, kwargs):
        try:
            return getattr(s, name)(*args, **kwargs)
        except Exception as e:
            raise PyRaise(e, type(e))

    def startswith(I_, a, k):
        if conc(a):
            return native(a, k)
        p = a[0]
        if isinstance(p, tuple):
            return norm_bool(z3.Or([z3.PrefixOf(as_sstr(x).term, me.term) for x in p]))
        return norm_bool(z3.PrefixOf(as_sstr(p).term, me.term))

    def endswith(I_, a, k):
        if conc(a):
            return native(a, k)
        p = a[0]
        if isinstance(p, tuple):
            return norm_bool(z3.Or([z3.SuffixOf(as_sstr(x).term, me.term) for x in p]))
        return norm_bool(z3.SuffixOf(as_sstr(p).term, me.term))

    def join(I_, a, k):
        items = I.iterate(a[0])
        if conc([items]):
            return native([items], k)
        if any(isinstance(x, Opaque) for x in items):
            return Opaque("join")
        parts = []
        for i, x in enumerate(items):
            if i:
                parts.append(s)
            parts.append(x)
        if not parts:
            return b"" if isb else ""
        return M.str_concat(I, parts, isb)

    def find(I_, a, k):
        if conc(a):
            return native(a, k)
        start = to_z3_int(a[1]) if len(a) > 1 else z3.IntVal(0)
        if len(a) > 2:
            raise Undecided("find with end")
        return norm_int(z3.IndexOf(me.term, as_sstr(a[0]).term, start))

    def index(I_, a, k):
        if conc(a):
            return native(a, k)
        r = find(I_, a, k)
        if I.path.branch(to_z3_int(r) < 0):
            raise PyRaise(ValueError("substring not found"), ValueError)
        return r

    def enc(I_, a, k):
        if conc(a):
            return native(a, k)
        return encode(I, s, a[0] if a else k.get("encoding", "utf-8"))

    def dec(I_, a, k):
        if conc(a):
            return native(a, k)
        return decode(I, s, a[0] if a else k.get("encoding", "utf-8"))

    def split(I_, a, k):
        if conc(a):
            return native(a, k)
        if len(a) == 2 and isinstance(a[1], int) and a[1] == 1 and isinstance(a[0], (bytes, str)):
            sep = as_sstr(a[0]).term
            i = z3.IndexOf(me.term, sep, 0)
            if I.path.branch(i < 0):
                return [s]
            return [SStr(z3.SubString(me.term, 0, i), isb),
                    SStr(z3.SubString(me.term, i + z3.Length(sep), z3.Length(me.term) - i - z3.Length(sep)), isb)]
        raise Undecided("split on symbolic string")

    def strip_like(I_, a, k):
        """strip/lstrip/rstrip (default whitespace set): result r is a substring of s; r == s iff the
        stripped end(s) of s carry no ASCII whitespace, otherwise r is strictly shorter."""
        if conc(a):
            return native(a, k)
        if a:
            raise Undecided("strip with explicit character set on symbolic string")
        t = me.term
        r = z3.String(fresh_name("stripped"))
        n = z3.Length(t)
        ws_first = z3.And(n > 0, z3.InRe(z3.SubString(t, 0, 1), WS))
        ws_last = z3.And(n > 0, z3.InRe(z3.SubString(t, n - 1, 1), WS))
        dirty = {"strip": z3.Or(ws_first, ws_last), "lstrip": ws_first, "rstrip": ws_last}[name]
        I.path.fact(z3.And(z3.Contains(t, r), z3.If(dirty, z3.Length(r) < n, r == t)), "str.%s model" % name)
        return SStr(r, isb)

    def fmt(I_, a, k):
        if conc(a) and all(I.is_plain(x) for x in k.values()):
            return native(a, k)
        return Opaque("str.format()")   # message text: never branched on

    def generic(I_, a, k):
        if conc(a):
            return native(a, k)
        raise Undecided("str.%s on symbolic string" % name)

    def upper(I_, a, k):
        if conc(a):
            return native(a, k)
        raise Undecided("upper on symbolic string")
    t = {"format": fmt, "strip": strip_like, "lstrip": strip_like, "rstrip": strip_like, "startswith": startswith, "endswith": endswith, "join": join, "find": find, "index": index,
         "encode": enc, "decode": dec, "split": split}
    return MF("str." + name, t.get(name, generic))


def register(t):
    pass
