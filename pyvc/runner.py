"""Runs the contracts of one property: explore -> discharge -> cross-check -> replay -> evidence."""
import importlib
import json
import os
import random
import sys
import time
import traceback
import z3

from .values import *  # noqa
from . import harness as H
from . import solve

VERIF = H.VERIF


def load_known_findings():
    p = os.path.join(VERIF, "known_findings.jsonl")
    out = []
    if os.path.exists(p):
        for line in open(p):
            line = line.strip()
            if line:
                out.append(json.loads(line))
    return out


def load_baseline(prop):
    p = os.path.join(VERIF, "contracts", "baseline", prop + ".json")
    if os.path.exists(p):
        return set(json.load(open(p))["discharged"])
    return None


class Report(object):
    def __init__(self, prop, tier, seed):
        self.prop, self.tier, self.seed = prop, tier, seed
        self.functions = []
        self.obligations = 0
        self.discharged = 0
        self.bounded_obligations = 0
        self.by_solver = {}
        self.solver_time = 0.0
        self.paths = 0
        self.sym_paths = 0
        self.violations = []      # dicts
        self.known = []
        self.undecided = []
        self.assumptions = set()
        self.samples = []
        self.cross_checked = 0
        self.discharged_names = set()
        self.bounds = []
        self.notes = []
        self.canaries = []
        self.max_ob_time = 0.0


def fmt_goal(ob, limit=600):
    s = "hyps=%d goal=%s" % (len(ob.hyps), z3.simplify(ob.goal).sexpr().replace("\n", " "))
    return s[:limit]


def run_spec(spec, rep, timeout_s, baseline, findings):
    t0 = time.time()
    fn_entry = {"function": "%s:%s" % (spec.file, spec.qualname), "contract": spec.name, "level": spec.level,
                "source_sha256_16": None, "paths": 0, "obligations": 0, "discharged": 0}
    try:
        fn_entry["source_sha256_16"] = spec.source_hash()
    except Exception as e:
        rep.undecided.append({"spec": spec.name, "why": "cannot locate function: %r" % (e,)})
        rep.functions.append(fn_entry)
        return
    if spec.bound:
        rep.bounds.append("%s: %s" % (spec.name, spec.bound))
    work = []
    meta = []
    total_normal = 0
    for ci, case in enumerate(spec.cases()):
        try:
            results = H.explore(spec, case)
        except Exception:
            rep.undecided.append({"spec": spec.name, "case": H.jsonable(case), "why": "engine crash: " + traceback.format_exc()[-1500:]})
            continue
        normal = 0
        for pi, r in enumerate(results):
            rep.paths += 1
            fn_entry["paths"] += 1
            if r.sym_branches:
                rep.sym_paths += 1
            if r.undecided:
                rep.undecided.append({"spec": spec.name, "case": H.jsonable(case), "why": r.undecided})
                continue
            if r.dropped:
                continue
            if r.outcome is not None and r.outcome.kind == "return":
                normal += 1
            for lbl, _ in r.assumed:
                rep.assumptions.add(lbl.split(":")[0] + ":" + lbl.split(":", 1)[1] if lbl.startswith(("requires", "loop")) else lbl)
            for n in r.notes:
                if n.startswith("assumed"):
                    rep.assumptions.add(n)
            for ob in r.obligations:
                work.append((ob, r.inputs, spec.timeout_s or timeout_s))
                meta.append((spec, case, ci, pi, ob, r))
        total_normal += normal
    if total_normal == 0 and not getattr(spec, "no_normal_path_ok", False) and not rep.undecided and not hasattr(spec, "_shard"):
        rep.undecided.append({"spec": spec.name, "why": "vacuity guard: no path of any case returns normally under requires"})
    if not work and not rep.undecided:
        rep.undecided.append({"spec": spec.name, "why": "vacuity guard: zero obligations generated"})
    if any(u.get("spec") == spec.name for u in rep.undecided):
        # the engine cannot decide this (changed) code: fall back to a bounded run-time check of the contract on the
        # real function (labelled as such); a failing input is a replayed violation
        for case in spec.cases():
            found = random_refute(spec, case, rep.seed, 3000)
            if found is not None:
                inputs, failed, out = found
                full = "%s:%s" % (spec.name, failed[0])
                v = {"property": rep.prop, "contract": spec.name, "function": "%s:%s" % (spec.file, spec.qualname), "obligation": full,
                     "inputs": H.jsonable(inputs), "native_outcome": repr(out)[:500], "native_failed_clauses": failed, "status": "runtime",
                     "found_by": "bounded run-time contract check (3000 random inputs) after the engine was undecided on this code",
                     "confirmed_on_real_code": True}
                if not any(finding_matches(f, rep.prop, spec, full, failed, inputs) for f in findings):
                    rep.violations.append(v)
                break
    res = H.discharge_all(work)
    for (i, status, solver, tsec, model_vals, detail) in res:
        spec_, case, ci, pi, ob, r = meta[i]
        rep.obligations += 1
        fn_entry["obligations"] += 1
        if spec.level == "B":
            rep.bounded_obligations += 1
        rep.solver_time += tsec
        rep.max_ob_time = max(rep.max_ob_time, tsec)
        full = "%s:%s" % (spec.name, ob.name)
        if status == "unsat":
            rep.discharged += 1
            fn_entry["discharged"] += 1
            rep.by_solver[solver] = rep.by_solver.get(solver, 0) + 1
            rep.discharged_names.add(full)
            if len(rep.samples) < 6 and solver != "trivial" and not any(s["obligation"] == full for s in rep.samples):
                rep.samples.append({"obligation": full, "case": H.jsonable(case), "path": pi, "solver": solver,
                                    "time_s": round(tsec, 4), "vc": fmt_goal(ob)})
            continue
        handle_failure(spec, case, ob, r, status, solver, model_vals, detail, full, rep, baseline, findings)
    fn_entry["wall_s"] = round(time.time() - t0, 2)
    rep.functions.append(fn_entry)


def finding_matches(f, prop, spec, full, failed_clauses, inputs):
    if f.get("property") != prop or f.get("status") != "known":
        return False
    key = f.get("key", {})
    if key.get("contract") and key["contract"] != spec.name:
        return False
    # a known finding is identified by the very obligation that fails (not by whatever else the native replay of the
    # counterexample happens to violate as well): a different violation of the same property is still reported
    if key.get("obligation") and key["obligation"] != full.split(":", 1)[1]:
        return False
    if key.get("obligation_re"):
        import re
        if not re.fullmatch(key["obligation_re"], full.split(":", 1)[1]):
            return False
    pred = key.get("input_class")
    if pred:
        try:
            if not eval(pred, {"__builtins__": {"len": len, "min": min, "max": max, "abs": abs, "any": any, "all": all,
                                                "isinstance": isinstance, "bytes": bytes, "str": str, "int": int}},
                        dict(inputs or {})):
                return False
        except Exception:
            return False
    return True


def handle_failure(spec, case, ob, r, status, solver, model_vals, detail, full, rep, baseline, findings):
    replay = {"property": rep.prop, "contract": spec.name, "function": "%s:%s" % (spec.file, spec.qualname),
              "obligation": full, "case": H.jsonable(case), "solver": solver, "status": status,
              "solver_output": detail, "vc": fmt_goal(ob, 4000), "source_line": ob.where}
    confirmed = False
    inputs = None
    failed_clauses = []
    if status == "sat" and model_vals is not None:
        inputs = dict(case)
        inputs.update(model_vals)
        replay["inputs"] = H.jsonable(inputs)
        try:
            ok, failed_clauses, out = H.native_check(spec, inputs)
            replay["native_outcome"] = repr(out)[:500]
            replay["native_failed_clauses"] = failed_clauses
            confirmed = (ok is False)
        except NotImplementedError:
            replay["native_outcome"] = "no native harness for this contract"
        except Exception:
            replay["native_outcome"] = "native replay crashed: " + traceback.format_exc()[-800:]
    if status in ("unknown", "error"):
        # try the random native refuter before giving a verdict
        found = random_refute(spec, case, rep.seed, 400)
        if found is not None:
            inputs, failed_clauses, out = found
            replay["inputs"] = H.jsonable(inputs)
            replay["native_outcome"] = repr(out)[:500]
            replay["native_failed_clauses"] = failed_clauses
            replay["found_by"] = "random native contract check after solver %s" % status
            confirmed = True
        elif baseline is not None and full in baseline:
            pass  # an obligation discharged on the pinned tree now fails: violation without input
        else:
            rep.undecided.append({"spec": spec.name, "obligation": full, "why": "solver %s: %s" % (status, detail[:300])})
            return
    matched = False
    for f in findings:
        if finding_matches(f, rep.prop, spec, full, failed_clauses, inputs):
            if not any(k["id"] == f["id"] for k in rep.known):
                rep.known.append(f)
            matched = True
    if matched:
        rep.obligations -= 1
        if spec.level == "B":
            rep.bounded_obligations -= 1
        return
    replay["confirmed_on_real_code"] = confirmed
    rep.violations.append(replay)


def random_inputs(spec, case, rng):
    a = dict(case)
    for k, kind in spec.inputs().items():
        if k not in a:
            a[k] = kind.random(rng)
    return a


def random_refute(spec, case, seed, n):
    rng = random.Random(seed * 7919 + 13)
    try:
        for _ in range(n):
            a = random_inputs(spec, case, rng)
            if not H.requires_holds(spec, a):
                continue
            ok, failed, out = H.native_check(spec, a)
            if ok is False:
                return a, failed, out
    except NotImplementedError:
        return None
    except Exception:
        return None
    return None


def cross_check(spec, rep, n):
    """differential test of the symbolic executor (concrete mode) against CPython on the
    real function, plus native run-time evaluation of the contract (DESIGN 2.9)."""
    rng = random.Random(rep.seed * 1000003 + hash(spec.name) % 1000)
    done = 0
    tries = 0
    for case in spec.cases():
        per = max(1, n // max(1, len(spec.cases())))
        k = 0
        while k < per and tries < 20 * n:
            tries += 1
            a = random_inputs(spec, case, rng)
            try:
                if not H.requires_holds(spec, a):
                    continue
            except Exception:
                continue
            k += 1
            try:
                out_n = spec.native(a)
            except NotImplementedError:
                return done
            r = H.run_path(spec, case, [], concrete=a)
            if r.undecided:
                rep.undecided.append({"spec": spec.name, "why": "cross-check: engine undecided on concrete input %r: %s" % (H.jsonable(a), r.undecided)})
                return done
            out_s = r.outcome
            agree = compare_outcomes(spec, out_n, out_s)
            if not agree:
                rep.undecided.append({"spec": spec.name, "why": "ENGINE MISMATCH vs CPython on %r: native %r, engine %r" % (H.jsonable(a), out_n, out_s)})
                return done
            ok, failed, _ = H.native_check(spec, a)
            if ok is False:
                full = "%s:%s" % (spec.name, failed[0])
                replay = {"property": rep.prop, "contract": spec.name, "function": "%s:%s" % (spec.file, spec.qualname),
                          "obligation": full, "inputs": H.jsonable(a), "native_outcome": repr(out_n)[:500],
                          "native_failed_clauses": failed, "found_by": "native run-time contract check (cross-check)",
                          "confirmed_on_real_code": True, "status": "runtime"}
                known = False
                for f in load_known_findings():
                    if finding_matches(f, rep.prop, spec, full, failed, a):
                        if not any(kk["id"] == f["id"] for kk in rep.known):
                            rep.known.append(f)
                        known = True
                if not known and not any(v["obligation"] == full for v in rep.violations):
                    rep.violations.append(replay)
            done += 1
    return done


def compare_outcomes(spec, n, s):
    if n.kind != s.kind:
        return False
    if n.kind == "raise":
        return n.exc_cls is s.exc_cls or (isinstance(n.exc_cls, type) and isinstance(s.exc_cls, type) and n.exc_cls.__name__ == s.exc_cls.__name__)
    cmp = getattr(spec, "same_result", None)
    if cmp is not None:
        return cmp(n, s)
    return plain_equal(n.value, s.value) and plain_equal(n.post, s.post)


def plain_equal(a, b):
    a, b = plainify(a), plainify(b)
    return a == b


def plainify(v):
    if isinstance(v, SBytes):
        n = concrete_int(v.length)
        if n is None:
            return v
        return bytes(z3.simplify(v.at(i)).as_long() for i in range(n))
    if isinstance(v, SStr):
        s = z3.simplify(v.term)
        if z3.is_string_value(s):
            t = H.decode_z3_string(s.as_string())
            return bytes(ord(c) for c in t) if v.is_bytes else t
        return v
    if isinstance(v, z3.ExprRef):
        s = z3.simplify(v)
        if z3.is_int_value(s):
            return s.as_long()
        if z3.is_true(s):
            return True
        if z3.is_false(s):
            return False
        return v
    if isinstance(v, (list, tuple)):
        return type(v)(plainify(x) for x in v)
    if isinstance(v, dict):
        return {k: plainify(x) for k, x in v.items()}
    return v


def run_canary(spec, rep, timeout_s):
    """A deliberately wrong postcondition must be refuted (engine not vacuous/unsound-towards-true)."""
    canary = getattr(spec, "canary", None)
    if canary is None:
        return
    orig = spec.ensures
    try:
        spec.ensures = lambda I, a, out: (canary(I, a, out) if out.kind == "return" else [])
        refuted = False
        for case in ([spec.canary_case] if getattr(spec, "canary_case", None) else spec.cases()[-1:]):
            results = H.explore(spec, case)
            work = [(ob, r.inputs, -5) for r in results if not r.undecided and not r.dropped for ob in r.obligations
                    if ob.kind == "ensures"]
            for (i, status, solver, tsec, mv, detail) in H.discharge_all(work):
                if status != "unsat":      # sat, or not provable within 5 s: the wrong postcondition is NOT accepted
                    refuted = True
        rep.canaries.append({"contract": spec.name, "refuted": refuted})
        if not refuted:
            rep.undecided.append({"spec": spec.name, "why": "CANARY NOT REFUTED: a deliberately wrong postcondition was accepted; engine or contract is vacuous"})
    finally:
        spec.ensures = orig


def run_lemma(lem, rep, timeout_s, baseline):
    work = []
    names = []
    for ob in lem.obligations():
        nm, hyps, goal = ob[0], ob[1], ob[2]
        syms = ob[3] if len(ob) > 3 else {}
        work.append((H.Obligation_(nm, hyps, goal), syms, timeout_s))
        names.append(nm)
    fn_entry = {"function": "lemma over contracts", "contract": lem.name, "level": lem.level, "obligations": 0, "discharged": 0}
    for (i, status, solver, tsec, mv, detail) in H.discharge_all(work):
        rep.obligations += 1
        fn_entry["obligations"] += 1
        rep.solver_time += tsec
        rep.max_ob_time = max(rep.max_ob_time, tsec)
        full = "%s:%s" % (lem.name, names[i])
        if status == "unsat":
            rep.discharged += 1
            fn_entry["discharged"] += 1
            rep.by_solver[solver] = rep.by_solver.get(solver, 0) + 1
            rep.discharged_names.add(full)
            if len(rep.samples) < 8 and solver != "trivial" and not any(s["obligation"].startswith(lem.name) for s in rep.samples):
                rep.samples.append({"obligation": full, "solver": solver, "time_s": round(tsec, 4), "vc": fmt_goal(work[i][0])})
        elif status == "sat":
            v = {"property": rep.prop, "contract": lem.name, "obligation": full, "status": "sat",
                 "solver": solver, "solver_output": detail, "vc": fmt_goal(work[i][0], 4000),
                 "confirmed_on_real_code": False}
            if mv is not None:
                v["inputs"] = H.jsonable(mv)
                try:
                    v["confirmed_on_real_code"], v["native_outcome"] = lem.native_refute(names[i], mv)
                except Exception:
                    v["native_outcome"] = "native replay crashed: " + traceback.format_exc()[-600:]
            known = False
            for f in load_known_findings():
                if f.get("property") == rep.prop and f.get("status") == "known" and f.get("key", {}).get("contract") == lem.name \
                        and f.get("key", {}).get("obligation") == names[i] and lem.finding_matches(f, mv):
                    if not any(k["id"] == f["id"] for k in rep.known):
                        rep.known.append(f)
                    known = True
            if known:
                rep.obligations -= 1        # a recorded genuine defect: reported as KNOWN-FINDING, not counted as an obligation
                fn_entry["obligations"] -= 1
                fn_entry["known_finding_obligations"] = fn_entry.get("known_finding_obligations", 0) + 1
            else:
                rep.violations.append(v)
        else:
            if baseline is not None and full in baseline:
                rep.violations.append({"property": rep.prop, "contract": lem.name, "obligation": full, "status": status,
                                       "solver": solver, "solver_output": detail, "vc": fmt_goal(work[i][0], 4000),
                                       "confirmed_on_real_code": False})
            else:
                rep.undecided.append({"spec": lem.name, "obligation": full, "why": "solver %s %s" % (status, detail[:200])})
    rep.functions.append(fn_entry)


_ITEMS = None


def _run_item(i):
    items, prop, tier, seed, timeout_s, baseline, findings = _ITEMS
    it = items[i]
    rep = Report(prop, tier, seed)
    try:
        if isinstance(it, H.Lemma):
            run_lemma(it, rep, timeout_s, baseline)
        else:
            run_spec(it, rep, timeout_s, baseline, findings)
            if getattr(it, "_shard", 0) == 0:
                run_canary(it, rep, timeout_s)
            n = it.cross_check if tier == "quick" else it.cross_check * 5
            if n and getattr(it, "_shard", 0) == 0:
                rep.cross_checked += cross_check(it, rep, n)
    except Exception:
        rep.undecided.append({"spec": it.name, "why": "checker crash: " + traceback.format_exc()[-2000:]})
    return rep


def merge_report(rep, p):
    rep.functions += p.functions
    for k in ("obligations", "discharged", "bounded_obligations", "solver_time", "paths", "sym_paths", "cross_checked"):
        setattr(rep, k, getattr(rep, k) + getattr(p, k))
    for k, v in p.by_solver.items():
        rep.by_solver[k] = rep.by_solver.get(k, 0) + v
    rep.violations += p.violations
    for f in p.known:
        if not any(k["id"] == f["id"] for k in rep.known):
            rep.known.append(f)
    rep.undecided += p.undecided
    rep.assumptions |= p.assumptions
    rep.samples += p.samples[:2]
    rep.discharged_names |= p.discharged_names
    rep.bounds += p.bounds
    rep.canaries += p.canaries
    rep.max_ob_time = max(rep.max_ob_time, p.max_ob_time)


def main(argv=None):
    import argparse
    ap = argparse.ArgumentParser()
    ap.add_argument("prop")
    ap.add_argument("--tier", default=os.environ.get("VERIF_TIER", "quick"))
    ap.add_argument("--replay")
    ap.add_argument("--record-baseline", action="store_true")
    ap.add_argument("--only")
    ap.add_argument("-v", action="store_true")
    args = ap.parse_args(argv)
    seed = int(os.environ.get("VERIF_SEED", "0") or 0)
    t0 = time.time()
    sys.path.insert(0, H.SRC)
    sys.path.insert(0, os.path.join(VERIF, "shims"))
    sys.path.insert(0, VERIF)
    mod = importlib.import_module("contracts.%s" % args.prop)
    if args.replay:
        return do_replay(mod, args.replay)
    tier = args.tier if args.tier in ("quick", "thorough") else "quick"
    rep = Report(args.prop, tier, seed)
    timeout_s = 20 if tier == "quick" else 90
    baseline = load_baseline(args.prop)
    findings = load_known_findings()
    items = mod.contracts(tier)
    if args.only:
        items = [x for x in items if x.name == args.only]
    expanded = []
    for it in items:
        expanded.extend(it.shards(16) if isinstance(it, H.Spec) else [it])
    items = expanded
    global _ITEMS
    _ITEMS = (items, args.prop, tier, seed, timeout_s, baseline, findings)
    jobs = int(os.environ.get("VERIF_JOBS", "0")) or min(16, os.cpu_count() or 4)
    limit = int(os.environ.get("VERIF_SPEC_LIMIT_S", "0")) or (300 if tier == "quick" else 1800)
    import multiprocessing
    os.environ["VERIF_JOBS_INNER"] = "1"
    ctx = multiprocessing.get_context("fork")
    pool = ctx.Pool(max(1, min(jobs, len(items))))
    asyncs = [pool.apply_async(_run_item, (i,)) for i in range(len(items))]
    parts = []
    deadline = time.time() + limit + 30 * len(items) / max(1, jobs)
    for i, ar in enumerate(asyncs):
        try:
            parts.append(ar.get(timeout=max(1.0, deadline - time.time())))
        except multiprocessing.TimeoutError:
            p = Report(args.prop, tier, seed)
            p.undecided.append({"spec": items[i].name, "why": "wall-clock limit of %d s exceeded (solver did not honour its timeout)" % limit})
            parts.append(p)
    pool.terminate()
    pool.join()
    for part in parts:
        merge_report(rep, part)
    extra = getattr(mod, "extra_checks", None)
    if extra:
        extra(rep, tier)
    return finish(mod, rep, args, t0)


def do_replay(mod, path):
    rp = json.load(open(path))
    spec = [s for s in mod.contracts("quick") if s.name == rp["contract"]]
    if not spec or "inputs" not in rp:
        print("replay file carries no concrete input (obligation %s): %s" % (rp.get("obligation"), rp.get("solver_output", "")[:300]))
        return 1
    a = H.unjson(rp["inputs"])
    ok, failed, out = H.native_check(spec[0], a)
    print("native outcome:", out)
    print("contract clauses failed:", failed)
    return 1 if ok is False else 0


def finish(mod, rep, args, t0):
    evdir = os.environ.get("VERIF_EVIDENCE_DIR") or os.path.join(VERIF, "evidence")
    os.makedirs(evdir, exist_ok=True)
    os.makedirs(os.path.join(VERIF, "replays"), exist_ok=True)
    wall = time.time() - t0
    level = getattr(mod, "LEVEL", "proof")
    proved_unbounded = rep.discharged - min(rep.bounded_obligations, rep.discharged)
    cov = {
        "obligations": rep.obligations,
        "discharged": rep.discharged,
        "obligations_bounded_level_B": rep.bounded_obligations,
        "obligations_proved_unbounded": proved_unbounded if not rep.violations else None,
        "checker_cmd": "./check %s --tier %s" % (rep.prop, rep.tier),
        "trusted_base": sorted(set(getattr(mod, "TRUSTED", [])) | {"pyvc symbolic executor (cross-checked against CPython on %d random inputs this run)" % rep.cross_checked, "z3 5.1 / cvc5 1.0.3 / z3 4.8.12", "CPython 3.12 semantics as encoded (DESIGN 2.3)"}),
        "functions_under_contract": rep.functions,
        "discharged_by_backend": rep.by_solver,
        "solver_time_s": round(rep.solver_time, 2),
        "slowest_obligation_s": round(rep.max_ob_time, 2),
        "paths_explored": rep.paths,
        "evaluations": rep.paths + rep.cross_checked,
        "distinct_nontrivial": rep.sym_paths,
        "rule": "evaluations = symbolic paths explored + native cross-check runs; distinct_nontrivial = symbolic paths with >=1 symbolic branch (each has a distinct path condition)",
        "samples": rep.samples or [{"note": "no non-trivial obligation sampled"}],
        "cross_check_native_runs": rep.cross_checked,
        "canaries": rep.canaries,
        "extraction_drops": "decorators, annotations, docstrings, effect-free logging/status calls (DESIGN 2.1)",
        "explanation": getattr(mod, "EXPLANATION", "") + ((" Bounds: " + "; ".join(rep.bounds)) if rep.bounds else ""),
        "undecided": rep.undecided[:20],
        "known_findings_seen": [f["id"] for f in rep.known],
        "not_decided": getattr(mod, "NOT_DECIDED", ""),
    }
    ev = {"property_id": rep.prop, "tier": rep.tier, "seed": rep.seed, "level": level, "coverage": cov,
          "assumptions": sorted(rep.assumptions | set(getattr(mod, "ASSUMPTIONS", []))),
          "wall_s": round(wall, 2), "violations": len(rep.violations)}
    with open(os.path.join(evdir, rep.prop + ".json"), "w") as f:
        json.dump(ev, f, indent=1, default=repr)
    if args.record_baseline and not rep.violations and not rep.undecided:
        os.makedirs(os.path.join(VERIF, "contracts", "baseline"), exist_ok=True)
        with open(os.path.join(VERIF, "contracts", "baseline", rep.prop + ".json"), "w") as f:
            json.dump({"discharged": sorted(rep.discharged_names)}, f, indent=0)
    for f in rep.known:
        print("KNOWN-FINDING: property=%s %s" % (rep.prop, f.get("what", f.get("id"))))
    code = 0
    if rep.violations:
        seen = set()
        for i, v in enumerate(rep.violations):
            if v["obligation"] in seen:
                continue
            seen.add(v["obligation"])
            rp = os.path.join("replays", "%s-%s-%d.json" % (rep.prop, "".join(c if c.isalnum() else "_" for c in v["obligation"])[:80], i))
            with open(os.path.join(VERIF, rp), "w") as f:
                json.dump(v, f, indent=1, default=repr)
            tail = "" if v.get("confirmed_on_real_code") else " no-failing-input-found"
            print("VIOLATION property=%s replay=%s obligation=%s%s" % (rep.prop, rp, v["obligation"], tail))
        code = 1
    if rep.undecided:
        for u in rep.undecided[:10]:
            print("UNDECIDED property=%s %s" % (rep.prop, json.dumps(u, default=repr)[:600]))
        code = code or 2
    print("%s: %d/%d obligations discharged (%d level-B), %d paths, %d cross-check runs, %.1fs, exit %d" % (
        rep.prop, rep.discharged, rep.obligations, rep.bounded_obligations, rep.paths, rep.cross_checked, wall, code))
    return code


if __name__ == "__main__":
    sys.exit(main())
