"""Contract API, path explorer, discharge pool, replay, evidence (DESIGN.md 2.4, 2.8-2.11)."""
import hashlib
import json
import multiprocessing
import os
import random
import sys
import time
import traceback
import z3

from .values import *  # noqa
from . import values as V
from .interp import Interp, Path, Closure, BoundMethod, find_def, source_of, parse_file, LoopInv, ModelFn
from . import solve

REPO = os.environ.get("VERIF_REPO", "/repo")
SRC = os.path.join(REPO, "src")
VERIF = os.path.dirname(os.path.dirname(os.path.abspath(__file__)))


# ------------------------------------------------------------------ input kinds

class Kind(object):
    def sym(self, name):
        raise NotImplementedError

    def constraint(self, v):
        return True

    def from_model(self, model, v):
        raise NotImplementedError

    def random(self, rng):
        raise NotImplementedError

    def small(self, v, scale):
        return True


def mval(model, t):
    return model.eval(t, model_completion=True)


class IntK(Kind):
    def __init__(self, lo=None, hi=None, rnd=None):
        self.lo, self.hi, self.rnd = lo, hi, rnd

    def sym(self, name):
        return z3.Int(name)

    def constraint(self, v):
        cs = []
        if self.lo is not None:
            cs.append(v >= self.lo)
        if self.hi is not None:
            cs.append(v <= self.hi)
        return z3.And(cs) if cs else True

    def from_model(self, model, v):
        return mval(model, v).as_long()

    def small(self, v, scale):
        return z3.And(v <= 50 * scale, v >= -50 * scale)

    def random(self, rng):
        if self.rnd:
            return self.rnd(rng)
        lo = self.lo if self.lo is not None else -50
        hi = self.hi if self.hi is not None else lo + 200
        pick = rng.random()
        if pick < 0.5:
            return rng.randint(lo, min(hi, lo + 40))
        return rng.randint(lo, hi)


class BoolK(Kind):
    def sym(self, name):
        return z3.Bool(name)

    def from_model(self, model, v):
        return z3.is_true(mval(model, v))

    def random(self, rng):
        return rng.random() < 0.5


class ConstK(Kind):
    def __init__(self, value):
        self.value = value

    def sym(self, name):
        return self.value

    def from_model(self, model, v):
        return self.value

    def random(self, rng):
        return self.value


class ChoiceK(Kind):
    """one of a finite list of concrete python values: explored by case split."""

    def __init__(self, values):
        self.values = list(values)

    def random(self, rng):
        return rng.choice(self.values)


class BytesArrK(Kind):
    """array-bytes of symbolic length (file I/O / struct)."""

    def __init__(self, minlen=0, maxlen=None, rndmax=40, fixed=None):
        self.minlen, self.maxlen, self.rndmax, self.fixed = minlen, maxlen, rndmax, fixed

    def sym(self, name):
        if self.fixed is not None:
            return SBytes(z3.Array(name, IntS, IntS), self.fixed)
        return SBytes(z3.Array(name, IntS, IntS), z3.Int(name + "_len"))

    def constraint(self, v):
        cs = []
        if self.fixed is None:
            cs.append(v.length >= self.minlen)
            if self.maxlen is not None:
                cs.append(v.length <= self.maxlen)
        j = z3.Int("bq!" + str(v.arr))
        cs.append(z3.ForAll([j], z3.And(z3.Select(v.arr, j) >= 0, z3.Select(v.arr, j) < 256)))
        return z3.And(cs)

    def small(self, v, scale):
        return to_z3_int(v.length) <= 8 * scale

    def from_model(self, model, v):
        n = mval(model, to_z3_int(v.length)).as_long()
        if n > 4096:
            raise ValueError("model bytes too long: %d" % n)
        return bytes(mval(model, z3.Select(v.arr, i)).as_long() % 256 for i in range(n))

    def random(self, rng):
        n = self.fixed if self.fixed is not None else rng.randint(self.minlen, min(self.rndmax, self.maxlen or self.rndmax))
        # boundary-biased bytes (0x00 / 0xff are over-represented)
        return bytes(rng.choice((0, 255, rng.randrange(256), rng.randrange(256))) for _ in range(n))


class StrK(Kind):
    def __init__(self, is_bytes=True, alphabet=None, rndmax=12, maxlen=None):
        self.is_bytes, self.alphabet, self.rndmax, self.maxlen = is_bytes, alphabet, rndmax, maxlen

    def sym(self, name):
        return SStr(z3.String(name), self.is_bytes)

    def constraint(self, v):
        cs = []
        if self.is_bytes:
            cs.append(z3.InRe(v.term, z3.Star(z3.Range(chr(0), chr(255)))))
        if self.maxlen is not None:
            cs.append(z3.Length(v.term) <= self.maxlen)
        return z3.And(cs) if cs else True

    def from_model(self, model, v):
        s = mval(model, v.term).as_string()
        s = decode_z3_string(s)
        return bytes(ord(c) for c in s) if self.is_bytes else s

    def random(self, rng):
        n = rng.randint(0, self.rndmax)
        alpha = self.alphabet or ([chr(i) for i in range(256)] if self.is_bytes else [chr(i) for i in range(32, 127)])
        s = "".join(rng.choice(alpha) for _ in range(n))
        return bytes(ord(c) for c in s) if self.is_bytes else s


class BlobK(StrK):
    """a byte string used only as an opaque payload: its length is a separate integer symbol and no alphabet constraint
    is given to the solver (so path feasibility never needs the string theory)"""

    def sym(self, name):
        return SStr(z3.String(name), True, z3.Int(name + "_len"))

    def constraint(self, v):
        return v.known_len >= 0

    def from_model(self, model, v):
        n = mval(model, v.known_len).as_long()
        return bytes((i * 37 + 1) % 256 for i in range(min(n, 4096)))


def decode_z3_string(s):
    import re
    return re.sub(r"\\u\{([0-9a-fA-F]+)\}", lambda m: chr(int(m.group(1), 16)), s)


class Outcome(object):
    def __init__(self, kind, value=None, exc=None, exc_cls=None):
        self.kind = kind          # 'return' | 'raise'
        self.value = value
        self.exc = exc
        self.exc_cls = exc_cls
        self.post = {}

    def __repr__(self):
        if self.kind == "return":
            return "return %r" % (self.value,)
        return "raise %s" % getattr(self.exc_cls, "__name__", self.exc_cls)


# ------------------------------------------------------------------ specs

class Spec(object):
    """Contract on one real function.  Subclasses give: file, qualname, inputs(),
    requires(), ensures(); optionally run(), native(), config(), raises."""
    file = None          # path relative to /repo/src
    qualname = None
    level = "P"          # 'P' unbounded proof, 'B' bounded (shape bound stated in `bound`)
    bound = None
    raises = ()          # exception classes that are documented outcomes (handled in ensures)
    cls = None           # real class for `self`
    timeout_s = None
    max_paths = 4000
    cross_check = 200    # number of random native/concrete cross-check inputs (0 = none)

    @property
    def name(self):
        return type(self).__name__

    def path(self):
        return os.path.join(SRC, self.file)

    def inputs(self):
        return {}

    def cases(self):
        """finite case split over concrete parameters: list of dicts merged into inputs."""
        if getattr(self, "_cases", None) is not None:
            return self._cases
        return self.all_cases()

    def all_cases(self):
        return [{}]

    def shards(self, n):
        import copy
        cs = self.cases()
        if len(cs) < 2 * n:
            return [self]
        out = []
        for i in range(n):
            sub = cs[i::n]
            if sub:
                c = copy.copy(self)
                c._cases = sub
                c._shard = i
                out.append(c)
        return out

    def requires(self, I, a):
        return True

    def config(self):
        return {}

    def target(self, I):
        node = find_def(self.path(), self.qualname)
        mod = self.module()
        return Closure(node, None, mod.__dict__, self.qualname, self.path())

    def module(self):
        import importlib
        modname = self.file[:-3].replace("/", ".")
        if modname.endswith(".__init__"):
            modname = modname[:-9]
        return importlib.import_module(modname)

    def args(self, I, a):
        """positional args for the target from the input dict (default: in inputs() order)."""
        return [a[k] for k in self.inputs().keys()]

    def run(self, I, a):
        return I.call_value(self.target(I), self.args(I, a), {})

    def ensures(self, I, a, out):
        return []

    def native(self, a):
        raise NotImplementedError

    def source_hash(self):
        node = find_def(self.path(), self.qualname.split(".<locals>.")[0] if False else self.qualname)
        seg = source_of(self.path(), node)
        return hashlib.sha256(seg.encode()).hexdigest()[:16]


class Lemma(object):
    """An obligation over contracts (no code): hyps/goal built directly."""
    level = "P"

    @property
    def name(self):
        return type(self).__name__

    def obligations(self):
        """-> list of (name, hyps(list), goal[, {input name: (Kind, symbol)}])"""
        return []

    def native_refute(self, obligation, model_values):
        """replay a counter-model on the real code -> (confirmed: bool, description)"""
        return False, "no native replay for this lemma"

    def finding_matches(self, finding, model_values):
        pred = finding.get("key", {}).get("input_class")
        if not pred:
            return True
        try:
            return bool(eval(pred, {"__builtins__": {"len": len, "bytes": bytes, "str": str, "int": int, "any": any, "all": all}}, dict(model_values or {})))
        except Exception:
            return False


# ------------------------------------------------------------------ exploring one spec

class PathResult(object):
    def __init__(self):
        self.obligations = []
        self.undecided = None
        self.outcome = None
        self.assumed = []
        self.notes = []
        self.sym_branches = 0
        self.decisions = None
        self.dropped = False


def make_inputs(spec, case):
    kinds = dict(spec.inputs())
    a, syms = {}, {}
    for k, kind in kinds.items():
        if k in case:
            a[k] = case[k]
        elif isinstance(kind, ChoiceK):
            raise RuntimeError("ChoiceK %s must be bound by cases()" % k)
        else:
            a[k] = kind.sym(k)
            syms[k] = (kind, a[k])
    return a, syms


def run_path(spec, case, decisions, concrete=None):
    reset_names()
    path = Path(decisions)
    cfg = spec.config()
    if concrete is not None:
        # cross-check mode: the real bodies are executed (no invariant cuts, no callee contracts)
        cfg = dict(cfg)
        cfg.pop("loop_invs", None)
        cfg["overrides"] = cfg.get("concrete_overrides", {})
    I = Interp(path, cfg)
    I.spec = spec
    res = PathResult()
    res.decisions = list(decisions)
    if concrete is None:
        a, syms = make_inputs(spec, case)
        for k, (kind, v) in syms.items():
            c = kind.constraint(v)
            if c is not True:
                path.assume(c, "input-kind:" + k)
    else:
        a, syms = dict(concrete), {}
    try:
        req = spec.requires(I, a)
        if req is not True and req is not None:
            path.assume(req, "requires:" + spec.name)
        try:
            val = spec.run(I, a)
            out = val if isinstance(val, Outcome) else Outcome("return", val)
        except PyRaise as pr:
            out = Outcome("raise", exc=pr.exc, exc_cls=pr.cls)
            out.post = getattr(I, "post_on_raise", lambda: {})() if hasattr(I, "post_on_raise") else {}
        res.outcome = out
        out.interp = I
        if out.kind == "raise" and not (isinstance(out.exc_cls, type) and issubclass(out.exc_cls, tuple(spec.raises) or ())):
            ln = out.exc.fields.get("lineno") if isinstance(out.exc, SObj) else None
            path.check(False, "no-unexpected-exception:%s" % getattr(out.exc_cls, "__name__", out.exc_cls),
                       kind="exception", where=ln)
        else:
            for nm, goal in spec.ensures(I, a, out) or []:
                path.check(goal if not isinstance(goal, bool) else z3.BoolVal(goal), nm)
    except PathEnd:
        res.dropped = True
    except Undecided as u:
        res.undecided = str(u)
    try:
        hyp_fn = getattr(spec, "hypotheses", None)
    except Exception:
        hyp_fn = None
    if hyp_fn is not None:
        # hypotheses used only when discharging (kept out of the path solver); they may be instantiated per obligation
        for ob in path.obligations:
            try:
                extra = hyp_fn(I, a, ob)
            except Exception:
                extra = None
            if extra:
                ob.hyps = list(ob.hyps) + list(extra)
        path.assumed.append(("hypothesis:" + spec.name, None))
    res.obligations = path.obligations
    res.assumed = path.assumed
    res.notes = path.notes
    res.sym_branches = path.sym_branches
    res.pending = path.pending
    res.inputs = syms
    res.trace = path.trace
    return res


def explore(spec, case):
    stack = [[]]
    results = []
    while stack:
        dec = stack.pop()
        r = run_path(spec, case, dec)
        results.append(r)
        stack.extend(r.pending)
        if len(results) > spec.max_paths:
            r.undecided = "more than %d paths" % spec.max_paths
            break
    return results


# ------------------------------------------------------------------ discharge pool (fork; obligations live in parent memory)

_WORK = []


def _discharge_one(i):
    ob, syms, timeout = _WORK[i]
    try:
        canary = timeout < 0
        r = solve.discharge(ob.hyps, ob.goal, abs(timeout), use_external=not canary)
        model_vals = None
        if canary:
            return (i, r.status, r.solver, r.time_s, None, r.detail)
        if r.status == "sat" and r.model is not None and syms:
            # look for a small counter-model first (replayable sizes)
            for scale in (1, 8, 64):
                extra = [kind.small(v, scale) for k, (kind, v) in syms.items()]
                extra = [e for e in extra if e is not True]
                s2 = solve.negation_query(list(ob.hyps) + extra, ob.goal)
                s2.set("timeout", 15000)
                if s2.check() == z3.sat:
                    r.model = s2.model()
                    break
        if r.status == "sat" and r.model is not None:
            model_vals = {}
            for k, (kind, v) in syms.items():
                try:
                    model_vals[k] = kind.from_model(r.model, v)
                except Exception as e:
                    model_vals = None
                    r.detail += " model-extraction-failed: %r" % (e,)
                    break
        return (i, r.status, r.solver, r.time_s, model_vals, r.detail)
    except Exception as e:
        return (i, "error", "-", 0.0, None, traceback.format_exc())


def discharge_all(work, jobs=None):
    global _WORK
    _WORK = work
    if not work:
        return []
    jobs = jobs or int(os.environ.get("VERIF_JOBS_INNER", "0")) or int(os.environ.get("VERIF_JOBS", "0")) or min(16, os.cpu_count() or 4)
    if multiprocessing.current_process().daemon:
        jobs = 1
    if jobs == 1 or len(work) == 1:
        return [_discharge_one(i) for i in range(len(work))]
    ctx = multiprocessing.get_context("fork")
    with ctx.Pool(min(jobs, len(work))) as pool:
        return pool.map(_discharge_one, range(len(work)), chunksize=1)


# ------------------------------------------------------------------ ground evaluation of contract clauses (native replay)

def ground_true(f):
    if isinstance(f, bool):
        return f
    s = z3.simplify(f)
    if z3.is_true(s):
        return True
    if z3.is_false(s):
        return False
    sol = z3.Solver()
    sol.set("timeout", 5000)
    sol.add(z3.Not(f))
    r = sol.check()
    if r == z3.unsat:
        return True
    if r == z3.sat:
        return False
    return None


def native_check(spec, a):
    """run the real code natively on concrete inputs; evaluate ensures on the result.
    -> (ok: bool|None, failed clause names, outcome)"""
    out = spec.native(a)
    if out.kind == "raise" and not (isinstance(out.exc_cls, type) and issubclass(out.exc_cls, tuple(spec.raises) or ())):
        return False, ["no-unexpected-exception:%s" % getattr(out.exc_cls, "__name__", out.exc_cls)], out
    failed = []
    undec = False
    for nm, goal in spec.ensures(None, a, out) or []:
        g = ground_true(goal)
        if g is False:
            failed.append(nm)
        elif g is None:
            undec = True
    if failed:
        return False, failed, out
    return (None if undec else True), [], out


def requires_holds(spec, a):
    r = spec.requires(None, a)
    kinds = spec.inputs()
    return ground_true(r) is not False


def jsonable(v):
    if isinstance(v, bytes):
        return {"bytes_hex": v.hex()}
    if isinstance(v, (list, tuple)):
        return [jsonable(x) for x in v]
    if isinstance(v, dict):
        return {str(k): jsonable(x) for k, x in v.items()}
    if isinstance(v, (int, str, bool, float)) or v is None:
        return v
    return repr(v)


def unjson(v):
    if isinstance(v, dict) and set(v) == {"bytes_hex"}:
        return bytes.fromhex(v["bytes_hex"])
    if isinstance(v, list):
        return [unjson(x) for x in v]
    if isinstance(v, dict):
        return {k: unjson(x) for k, x in v.items()}
    return v


from .interp import Obligation as Obligation_  # noqa: E402
