"""Trusted models of tahoe-lafs helpers and crypto (DESIGN.md 2.6)."""
import z3
from .values import *  # noqa
from . import models as M


def m_timing_safe_compare(I, a, k):
    # timing_safe_compare(a, b) <=> a == b  (it is H(n+a) == H(n+b)): callee contract, discharged on the real body by
    # contracts/tsc.TimingSafeCompare under SHA-256 collision resistance
    I.path.notes.append("callee contract: timing_safe_compare(a,b) <=> a == b (discharged by TimingSafeCompare under SHA-256 collision resistance)")
    return M.values_equal(I, a[0], a[1])


def m_noop(I, a, k):
    return None


_HASHFN = {}


def hash_fn(name):
    if name not in _HASHFN:
        _HASHFN[name] = z3.Function("H_" + name, z3.StringSort(), z3.StringSort())
    return _HASHFN[name]


class HashObj(object):
    """hashlib object: the digest is an uninterpreted function of the concatenated input."""

    def __init__(self, name, size, buf):
        self.name, self.size, self.buf = name, size, buf


def mk_hash(name, size):
    def m(I, a, k):
        buf = as_sstr(a[0]).term if a else z3.StringVal("")
        if a and isinstance(a[0], SBytes):
            raise Undecided("hash of array-bytes")
        if name == "blake2b" and "digest_size" in k:
            return HashObj("blake2b_%d" % k["digest_size"], k["digest_size"], buf)
        if k and name != "blake2b":
            raise Undecided("hash constructor keywords")
        return HashObj(name, size, buf)
    return m


def hash_attr(I, h, name):
    from .interp import ModelFn

    def update(I_, a, k):
        d = a[0]
        if isinstance(d, Opaque) or isinstance(d, SBytes):
            raise Undecided("hash update with %r" % (d,))
        h.buf = z3.Concat(h.buf, as_sstr(d).term)

    def digest(I_, a, k):
        cb = z3.simplify(h.buf)
        if z3.is_string_value(cb):
            # concrete input: the real digest
            import hashlib
            from .harness import decode_z3_string
            data = bytes(ord(c) for c in decode_z3_string(cb.as_string()))
            if h.name.startswith("blake2b_"):
                return hashlib.blake2b(data, digest_size=h.size).digest()
            return hashlib.new(h.name, data).digest()
        out = z3.simplify(hash_fn(h.name)(h.buf))
        I.path.fact(z3.Length(out) == h.size, "hash:%s output is %d bytes (uninterpreted function of its input)" % (h.name, h.size))
        return SStr(out, True, h.size)

    def copy(I_, a, k):
        return HashObj(h.name, h.size, h.buf)
    t = {"update": update, "digest": digest, "copy": copy}
    if name in t:
        return ModelFn("hash." + name, t[name])
    if name == "digest_size":
        return h.size
    return NotImplemented


def canon_arr(b):
    """array that depends only on the CONTENT of the bytes value (cells beyond the length are zero), so that equal byte
    strings give identical arguments to uninterpreted functions"""
    n = concrete_int(b.length)
    if n is not None and n <= 128:
        arr = z3.K(IntS, z3.IntVal(0))
        for i in range(n):
            arr = z3.Store(arr, i, b.at(i))
        return arr
    j = z3.Int(fresh_name("c"))
    return z3.Lambda([j], z3.If(z3.And(j >= 0, j < to_z3_int(b.length)), b.at(j), z3.IntVal(0)))


class DStub(object):
    """model of a twisted Deferred: records its state and the callbacks chained on it (never runs them itself)."""

    def __init__(self, state="pending", value=None):
        self.state = state          # 'pending' | 'succeeded' | 'failed'
        self.value = value
        self.callbacks = []         # list of (kind, fn, args, kwargs)


def dstub_attr(I, d, name):
    from .interp import ModelFn

    def mk(kind):
        def f(I_, a, k):
            d.callbacks.append((kind, a[0], tuple(a[1:]), dict(k)))
            return d
        return f
    if name in ("addCallback", "addErrback", "addBoth"):
        return ModelFn("Deferred." + name, mk(name))
    if name == "addCallbacks":
        def f2(I_, a, k):
            d.callbacks.append(("addCallbacks", a[0], (a[1] if len(a) > 1 else None,), dict(k)))
            return d
        return ModelFn("Deferred.addCallbacks", f2)
    return NotImplemented


def register(t):
    try:
        from twisted.internet import defer
        t[defer.succeed] = lambda I, a, k: DStub("succeeded", a[0] if a else None)
        t[defer.fail] = lambda I, a, k: DStub("failed", a[0] if a else None)
    except Exception:
        pass
    try:
        import eliot
        t[eliot.start_action] = lambda I, a, k: Opaque("eliot-action")
        t[eliot.start_task] = lambda I, a, k: Opaque("eliot-task")
    except Exception:
        pass
    try:
        import attr

        def assoc(I, a, k):
            inst = a[0]
            if not isinstance(inst, SObj):
                raise Undecided("attr.assoc on %r" % (inst,))
            new = SObj(inst.cls, dict(inst.fields))
            names = {f.name for f in attr.fields(inst.cls)}
            for kk, v in k.items():
                if kk not in names:
                    raise PyRaise(TypeError("no attribute " + kk), TypeError)
                new.fields[kk] = v
            return new
        t[attr.assoc] = assoc

        def evolve(I, a, k):
            inst = a[0]
            new = SObj(inst.cls, dict(inst.fields))
            for f in attr.fields(inst.cls):
                init_name = f.name.lstrip("_")
                if init_name in k:
                    new.fields[f.name] = k[init_name]
            return new
        t[attr.evolve] = evolve
    except Exception:
        pass
    try:
        import nacl.hash
        BL = z3.Function("blake2b_32", ByteArr, ByteArr)

        def blake2b(I, a, k):
            d = a[0]
            if isinstance(d, (bytes, bytearray)):
                return nacl.hash.blake2b(bytes(d), **{kk: v for kk, v in k.items()})
            b = as_sbytes(d)
            n = k.get("digest_size", 32)
            return SBytes(BL(canon_arr(b)), n)
        t[nacl.hash.blake2b] = blake2b
    except Exception:
        pass
    import hashlib
    t[hashlib.sha256] = mk_hash("sha256", 32)
    t[hashlib.sha1] = mk_hash("sha1", 20)
    t[hashlib.blake2b] = mk_hash("blake2b", 64)
    try:
        from allmydata.util import hashutil, log
        t[hashutil.timing_safe_compare] = m_timing_safe_compare
        t[log.msg] = m_noop
        t[log.err] = m_noop
    except Exception:
        pass


def class_model(I, cls, args, kwargs):
    try:
        import zfec
        if cls in (zfec.Encoder, zfec.Decoder):
            # zfec is external C code: assumed MDS codec (DESIGN 2.6); the object is an opaque handle
            return SObj(cls, {"k": args[0] if args else None, "m": args[1] if len(args) > 1 else None})
    except ImportError:
        pass
    return NotImplemented
