"""Trusted models of tahoe-lafs helpers and crypto (DESIGN.md 2.6)."""
import z3
from .values import *  # noqa
from . import models as M


def m_timing_safe_compare(I, a, k):
    # timing_safe_compare(a, b) <=> a == b  (it is H(n+a) == H(n+b); assumed)
    I.path.notes.append("assumed: timing_safe_compare(a,b) <=> a == b")
    return M.values_equal(I, a[0], a[1])


def m_noop(I, a, k):
    return None


def register(t):
    try:
        from allmydata.util import hashutil, log
        t[hashutil.timing_safe_compare] = m_timing_safe_compare
        t[log.msg] = m_noop
        t[log.err] = m_noop
    except Exception:
        pass


def class_model(I, cls, args, kwargs):
    try:
        import zfec
        if cls in (zfec.Encoder, zfec.Decoder):
            # zfec is external C code: assumed MDS codec (DESIGN 2.6); the object is an opaque handle
            return SObj(cls, {"k": args[0] if args else None, "m": args[1] if len(args) > 1 else None})
    except ImportError:
        pass
    return NotImplemented
