"""Builtins, containers, struct, files: models (DESIGN.md 2.6).  Part A: containers and builtins."""
import ast
import builtins
import struct as _struct
import os as _os
import time as _time
import types
import z3

from .values import *  # noqa
from . import values as V
from . import models as M


# ------------------------------------------------------------------ keys of dicts/sets
# dict/set keys are kept concrete where possible.  A symbolic key is compared
# with each existing key by path splitting (so container shape stays concrete).

def key_equal(I, a, b):
    r = M.values_equal(I, a, b)
    if isinstance(r, Opaque):
        raise Undecided("container key comparison on opaque value")
    if isinstance(r, bool):
        return r
    return I.path.branch(r)


def is_concrete_key(k):
    if k is None or isinstance(k, (int, str, bytes, bool, float)):
        return True
    if isinstance(k, tuple):
        return all(is_concrete_key(x) for x in k)
    if isinstance(k, (type, types.FunctionType)):
        return True
    import enum
    if isinstance(k, enum.Enum):
        return True
    return False


class SymKey(object):
    """wrapper making a symbolic value usable as a python dict key (identity hash)."""
    __slots__ = ("v",)

    def __init__(self, v):
        self.v = v

    def __repr__(self):
        return "SymKey(%r)" % (self.v,)


def unwrap_key(k):
    return k.v if isinstance(k, SymKey) else k


def find_key(I, d, k):
    """return the existing key of d equal to k, or a sentinel."""
    if is_concrete_key(k) and all(not isinstance(x, SymKey) for x in d):
        return k if k in d else _MISSING
    for ek in list(d):
        if key_equal(I, unwrap_key(ek), unwrap_key(k)):
            return ek
    return _MISSING


_MISSING = object()


def dict_get(I, d, k):
    ek = find_key(I, d, k)
    if ek is _MISSING:
        raise PyRaise(SObj(KeyError, {"args": (k,)}))
    return d[ek]


def dict_set(I, d, k, v):
    ek = find_key(I, d, k)
    if ek is _MISSING:
        ek = k if is_concrete_key(k) else SymKey(k)
    d[ek] = v


def dict_del(I, d, k):
    ek = find_key(I, d, k)
    if ek is _MISSING:
        raise PyRaise(SObj(KeyError, {"args": (k,)}))
    del d[ek]


def contains(I, container, item):
    if isinstance(container, Opaque) or isinstance(item, Opaque):
        return Opaque("in")
    if M.dictobj(container) is not None and I.class_attr(container.cls, "__contains__") is dict.__contains__:
        container = M.dictobj(container)
    if isinstance(container, (dict, set, frozenset)):
        if isinstance(container, dict):
            return find_key(I, container, item) is not _MISSING
        for x in container:
            if key_equal(I, unwrap_key(x), item):
                return True
        return False
    if isinstance(container, (list, tuple)):
        rs = []
        for x in container:
            r = M.values_equal(I, x, item)
            if r is True:
                return True
            if isinstance(r, Opaque):
                return r
            if r is not False:
                rs.append(r)
        if not rs:
            return False
        return norm_bool(z3.Or(rs))
    if isinstance(container, range):
        if isinstance(item, int):
            return item in container
        if container.step == 1:
            return norm_bool(z3.And(to_z3_int(item) >= container.start, to_z3_int(item) < container.stop))
    if M.is_strlike(container) and M.is_strlike(item):
        if isinstance(container, (bytes, str)) and isinstance(item, (bytes, str)):
            return item in container
        return norm_bool(z3.Contains(as_sstr(container).term, as_sstr(item).term))
    if isinstance(container, (bytes, SStr)) and is_intlike(item):
        c = as_sstr(container)
        return norm_bool(z3.Contains(c.term, z3.StrFromCode(to_z3_int(item))))
    if isinstance(container, SObj):
        f = I.class_attr(container.cls, "__contains__")
        if f is not None:
            return I.call_value(I.bind(f, container), [item], {})
    raise Undecided("'in' on %r" % (container,))


def make_set(I, items):
    s = set()
    for x in items:
        set_add(I, s, x)
    return s


def set_add(I, s, x):
    for e in s:
        if key_equal(I, unwrap_key(e), x):
            return
    s.add(x if is_concrete_key(x) else SymKey(x))


def set_binop(I, name, a, b):
    if all(is_concrete_key(x) for x in a) and all(is_concrete_key(x) for x in b):
        import operator
        return {"BitOr": operator.or_, "BitAnd": operator.and_, "Sub": operator.sub, "BitXor": operator.xor}[name](a, b)
    if name == "BitOr":
        r = set(a)
        for x in b:
            set_add(I, r, unwrap_key(x))
        return r
    if name == "BitAnd":
        return set(x for x in a if contains(I, b, unwrap_key(x)))
    if name == "Sub":
        return set(x for x in a if not contains(I, b, unwrap_key(x)))
    raise Undecided("set op")


def container_eq(I, a, b):
    if isinstance(a, dict):
        if len(a) != len(b):
            return False
        rs = []
        for k, v in a.items():
            ek = find_key(I, b, unwrap_key(k))
            if ek is _MISSING:
                return False
            rs.append(M.values_equal(I, v, b[ek]))
        if any(r is False for r in rs):
            return False
        rs = [to_z3_bool(r) for r in rs if r is not True]
        return norm_bool(z3.And(rs)) if rs else True
    a, b = list(a), list(b)
    if len(a) != len(b):
        # symbolic keys could coincide; shape is kept duplicate-free by set_add
        return False
    return all(contains(I, b, unwrap_key(x)) for x in a)


def _orderable(x):
    from .models_tahoe import DStub
    return not isinstance(x, DStub) and not (isinstance(x, SObj) and I_class_attr_lt(x) is None)


def I_class_attr_lt(x):
    try:
        return getattr(x.cls, "__lt__", None) if getattr(x.cls, "__lt__", None) is not object.__lt__ else None
    except Exception:       # noqa
        return None


def lex_compare(I, name, a, b):
    """lexicographic comparison of two sequences, element by element from the left as Python does it: elements after the
    first differing position are never compared, and a pair that cannot be ordered raises TypeError when it is reached"""
    def lt(x, y):
        return M.compare(I, ast.Lt(), x, y)
    n = min(len(a), len(b))
    # result = OR_i (prefix equal and a[i] < b[i]) or (all equal and len cmp)
    strict = name in ("Lt", "Gt")
    if name in ("Gt", "GtE"):
        a, b = b, a
    terms = []
    prefix = []
    for i in range(n):
        e = M.values_equal(I, a[i], b[i])
        if e is True:
            continue
        if not (_orderable(a[i]) and _orderable(b[i])):
            # reached only if everything before is equal
            reach = z3.And([to_z3_bool(p) for p in prefix]) if prefix else z3.BoolVal(True)
            if I.path.branch(reach):
                raise PyRaise(TypeError("'<' not supported between instances of %r and %r" % (type(a[i]).__name__, type(b[i]).__name__)), TypeError)
            return norm_bool(z3.Or(terms)) if terms else False
        l = lt(a[i], b[i])
        terms.append(z3.And([to_z3_bool(p) for p in prefix] + [to_z3_bool(l)]))
        if e is False:
            return norm_bool(z3.Or(terms))
        prefix.append(e)
    tail = (len(a) < len(b)) if strict else (len(a) <= len(b))
    terms.append(z3.And([to_z3_bool(p) for p in prefix] + [z3.BoolVal(tail)]))
    return norm_bool(z3.Or(terms))


def sym_index_list(I, obj, idx):
    n = len(obj)
    zi = to_z3_int(idx)
    if I.path.branch(z3.Or(zi >= n, zi < -n)):
        raise PyRaise(IndexError("index out of range"), IndexError)
    # split on the index value to keep element kinds exact
    for i in range(n):
        if I.path.branch(z3.Or(zi == i, zi == i - n)):
            return obj[i]
    raise PathEnd()


def sym_store_list(I, obj, idx, val):
    n = len(obj)
    zi = to_z3_int(idx)
    if I.path.branch(z3.Or(zi >= n, zi < -n)):
        raise PyRaise(IndexError("index out of range"), IndexError)
    for i in range(n):
        if I.path.branch(z3.Or(zi == i, zi == i - n)):
            obj[i] = val
            return
    raise PathEnd()


def sym_slice_list(I, obj, sl):
    n = len(obj)
    lo, hi = M.slice_bounds(I, sl, n)
    for i in range(n + 1):
        if I.path.branch(to_z3_int(lo) == i):
            for j in range(i, n + 1):
                if I.path.branch(to_z3_int(hi) == j):
                    return obj[i:j]
    raise PathEnd()


def subscript_model(I, obj, idx):
    from . import models_ext2 as X
    if isinstance(obj, X.StatResult):
        return obj.getitem(idx)
    return NotImplemented


def store_subscript_model(I, obj, idx, val):
    return NotImplemented


def len_model(I, v):
    return NotImplemented


def iterate(I, v, lazy):
    if isinstance(v, GeneratorObj):
        return v.run_all(I)
    if isinstance(v, SObj):
        f = I.class_attr(v.cls, "__iter__")
        if f is not None:
            return iterate_value(I, I.call_value(I.bind(f, v), [], {}))
    return NotImplemented


def iterate_value(I, v):
    return I.iterate(v)


# ------------------------------------------------------------------ SObj operators

def obj_eq(I, a, b):
    return obj_compare(I, "Eq", a, b)


_CMP_DUNDER = {"Eq": "__eq__", "NotEq": "__ne__", "Lt": "__lt__", "LtE": "__le__", "Gt": "__gt__", "GtE": "__ge__"}
_CMP_REFLECT = {"Eq": "__eq__", "NotEq": "__ne__", "Lt": "__gt__", "LtE": "__ge__", "Gt": "__lt__", "GtE": "__le__"}


def obj_compare(I, name, a, b):
    """python rich comparison protocol on SObj (subset: no subclass priority)."""
    NI = NotImplemented
    for (x, y, table) in ((a, b, _CMP_DUNDER), (b, a, _CMP_REFLECT)):
        if isinstance(x, SObj):
            f = I.class_attr(x.cls, table[name])
            if f is not None and f is not getattr(object, table[name], None):
                if isinstance(f, types.FunctionType) or isinstance(f, (I.__class__,)):
                    r = I.call_value(I.bind(f, x), [y], {})
                    if r is not NI:
                        return r
                else:
                    raise Undecided("comparison via non-python %s" % table[name])
            elif name == "NotEq":
                # default __ne__ inverts __eq__
                fe = I.class_attr(x.cls, "__eq__")
                if fe is not None and fe is not object.__eq__:
                    r = I.call_value(I.bind(fe, x), [y], {})
                    if r is not NI:
                        return (not r) if isinstance(r, bool) else norm_bool(z3.Not(to_z3_bool(I.as_cond(r))))
    if name == "Eq":
        return a is b
    if name == "NotEq":
        return a is not b
    raise PyRaise(TypeError("unorderable"), TypeError)


_BIN_DUNDER = {"Add": "add", "Sub": "sub", "Mult": "mul", "BitAnd": "and", "BitOr": "or", "Mod": "mod",
               "FloorDiv": "floordiv", "BitXor": "xor"}


def obj_binop(I, name, a, b, inplace):
    d = _BIN_DUNDER.get(name)
    if d is None:
        raise Undecided("operator %s on objects" % name)
    if isinstance(a, SObj):
        for meth in (["__i%s__" % d] if inplace else []) + ["__%s__" % d]:
            f = I.class_attr(a.cls, meth)
            if f is not None:
                r = I.call_value(I.bind(f, a), [b], {})
                if r is not NotImplemented:
                    return r
    if isinstance(b, SObj):
        f = I.class_attr(b.cls, "__r%s__" % d)
        if f is not None:
            r = I.call_value(I.bind(f, b), [a], {})
            if r is not NotImplemented:
                return r
    if name == "Mod" and M.is_strlike(a):
        return str_format(I, a, b)
    raise PyRaise(TypeError("unsupported operand"), TypeError)


# ------------------------------------------------------------------ generators / yield

class GeneratorObj(object):
    def __init__(self, clo, env):
        self.clo = clo
        self.env = env

    def run_all(self, I):
        """materialise: run the body, collecting yielded values (generators
        consumed by a for loop; DESIGN 2.2)."""
        out = []
        saved = getattr(I, "_yield_sink", None)
        I._yield_sink = out
        try:
            try:
                I.exec_block(self.clo.node.body, self.env, self.clo.globs, self.clo)
            except Exception as e:
                from .interp import ReturnSig
                if not isinstance(e, ReturnSig):
                    raise
        finally:
            I._yield_sink = saved
        return out


def make_generator(I, clo, env):
    h = I.cfg.get("generator_mode", {}).get(clo.qualname.split(".")[-1])
    if h is not None:
        return h(I, clo, env)
    return GeneratorObj(clo, env)


def on_yield(I, n, env, globs):
    sink = getattr(I, "_yield_sink", None)
    val = I.eval(n.value, env, globs) if getattr(n, "value", None) is not None else None
    if sink is not None:
        sink.append(val)
        return None
    h = I.cfg.get("on_yield")
    if h is not None:
        return h(I, val, n, env)
    raise Undecided("yield outside a materialised generator")


def make_super(I, n, env):
    from .interp import SuperObj
    globs = None
    e = env
    clo = None
    while e is not None and clo is None:
        clo = getattr(e, "_closure", None)
        e = e.parent
    if len(n.args) == 2:
        cls = I.eval(n.args[0], env, clo.globs if clo else {})
        obj = I.eval(n.args[1], env, clo.globs if clo else {})
        if isinstance(obj, SObj) and isinstance(cls, type):
            return SuperObj(cls, obj)
    raise Undecided("super() without explicit (class, instance) arguments")


# ------------------------------------------------------------------ strings: format / to_str

def int_to_sstr(v, is_bytes):
    z = z3.simplify(to_z3_int(v))
    if z3.is_app(z) and z.decl().kind() == z3.Z3_OP_SEQ_LENGTH:
        return SStr(z3.IntToStr(z), is_bytes)
    t = z3.If(z >= 0, z3.IntToStr(z), z3.Concat(z3.StringVal("-"), z3.IntToStr(-z)))
    return SStr(z3.simplify(t), is_bytes)


def to_str(I, v, conv="s"):
    if isinstance(v, str):
        return v if conv == "s" else repr(v)
    if isinstance(v, bool):
        return str(v)
    if isinstance(v, int):
        return str(v)
    if is_sym_int(v):
        return int_to_sstr(v, False)
    if isinstance(v, SStr) and not v.is_bytes and conv == "s":
        return v
    if v is None:
        return "None"
    if isinstance(v, (bytes, float)) :
        return str(v) if conv == "s" else repr(v)
    return Opaque("str()")


def _rope_nonneg(I, a):
    from . import models_str as S
    return S.rope_nonneg(I, a)


def str_format(I, fmt, args):
    """%-formatting with a concrete format."""
    if isinstance(fmt, SStr):
        raise Undecided("symbolic format string")
    isb = isinstance(fmt, bytes)
    if not isinstance(args, tuple):
        args = (args,)
    if isinstance(args, tuple) and all(I.is_plain(a) for a in args):
        try:
            return fmt % args
        except Exception as e:
            raise PyRaise(e, type(e))
    if any(isinstance(a, dict) for a in args):
        return Opaque("format")
    import re
    f = fmt.decode("latin-1") if isb else fmt
    parts = []
    pos = 0
    ai = 0
    for m in re.finditer(r"%(\(\w+\))?([#0\- +]*)(\d+)?(?:\.(\d+))?([diouxXeEfFgGcrsab%])", f):
        lit = f[pos:m.start()]
        if lit:
            parts.append(lit.encode("latin-1") if isb else lit)
        pos = m.end()
        conv = m.group(5)
        if conv == "%":
            parts.append(b"%" if isb else "%")
            continue
        if m.group(1) or m.group(2) or m.group(3) or m.group(4):
            return Opaque("format(flags)")
        if ai >= len(args):
            raise PyRaise(TypeError("not enough arguments for format string"), TypeError)
        a = args[ai]
        ai += 1
        if isinstance(a, Opaque) or isinstance(a, (SObj, list, dict, set)) or (isinstance(a, tuple)):
            return Opaque("format")
        if conv in "di":
            if not is_intlike(a):
                if isinstance(a, (SStr, SBytes, str, bytes)) or a is None:
                    raise PyRaise(TypeError("%d format: a number is required"), TypeError)
                return Opaque("format")
            if is_sym_int(a) and (a.get_id() in I.ghost.get("nonneg", ()) or (I.cfg.get("rope") and _rope_nonneg(I, a))):
                parts.append(SStr(z3.IntToStr(a), isb))
            else:
                parts.append(int_to_sstr(a, isb) if not isinstance(a, int) else (str(int(a)).encode() if isb else str(int(a))))
        elif conv == "s":
            if isb:
                if isinstance(a, bytes) or (isinstance(a, SStr) and a.is_bytes):
                    parts.append(a)
                elif isinstance(a, SBytes):
                    return Opaque("format")
                else:
                    raise PyRaise(TypeError("%b requires bytes"), TypeError)
            else:
                s = to_str(I, a, "s")
                if isinstance(s, Opaque):
                    return s
                parts.append(s)
        else:
            return Opaque("format(%s)" % conv)
    tail = f[pos:]
    if tail:
        parts.append(tail.encode("latin-1") if isb else tail)
    if ai != len(args):
        raise PyRaise(TypeError("not all arguments converted during string formatting"), TypeError)
    if not parts:
        return b"" if isb else ""
    return M.str_concat(I, parts, isb)


def pow2(I, b):
    raise Undecided("2**symbolic")


from .models_ext2 import *  # noqa  (struct, files, builtins table)
