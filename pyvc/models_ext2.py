"""Part B of the models: struct, files, builtins table, methods of builtin types."""
import builtins
import re as _re
import struct as _struct
import os as _os
import time as _time
import types
import z3

from .values import *  # noqa
from . import models as M

# ------------------------------------------------------------------ struct (uninterpreted big-endian codec)

_dec = {}
_enc = {}


def dec_fn(w):
    if w not in _dec:
        _dec[w] = z3.Function("be_dec%d" % w, *([IntS] * w + [IntS]))
        _enc[w] = [z3.Function("be_enc%d_%d" % (w, i), IntS, IntS) for i in range(w)]
    return _dec[w]


def be_sum(cells):
    w = len(cells)
    return z3.Sum([c * (256 ** (w - 1 - i)) for i, c in enumerate(cells)])


def enc_fns(w):
    dec_fn(w)
    return _enc[w]


_FMT_W = {"B": 1, "H": 2, "L": 4, "I": 4, "Q": 8}


def parse_fmt(fmt):
    if isinstance(fmt, bytes):
        fmt = fmt.decode()
    if not fmt or fmt[0] not in "><!":
        raise Undecided("struct format without explicit big-endian marker: %r" % fmt)
    if fmt[0] == "<":
        raise Undecided("little-endian struct format")
    fields = []
    for m in _re.finditer(r"(\d*)([a-zA-Z])", fmt[1:]):
        cnt, c = m.group(1), m.group(2)
        if c == "s":
            fields.append(("s", int(cnt or "1")))
        elif c in _FMT_W:
            for _ in range(int(cnt or "1")):
                fields.append(("i", _FMT_W[c]))
        else:
            raise Undecided("struct code %r" % c)
    return fields


def struct_pack(I, args, kwargs):
    fmt = args[0]
    vals = list(args[1:])
    if all(I.is_plain(v) for v in vals):
        try:
            return _struct.pack(fmt, *vals)
        except _struct.error as e:
            raise PyRaise(e, _struct.error)
    fields = parse_fmt(fmt)
    if len(fields) != len(vals):
        raise PyRaise(_struct.error("pack expected %d items" % len(fields)), _struct.error)
    out = None
    for (kind, w), v in zip(fields, vals):
        if kind == "s":
            if not M.is_byteslike(v) or isinstance(v, SStr):
                raise Undecided("struct 's' field with non array-bytes %r" % (v,))
            b = as_sbytes(v)
            # python pads/truncates to w; we require exact length (else undecided) unless provable
            if concrete_int(b.length) != w:
                if I.path.branch(to_z3_int(b.length) != w):
                    raise Undecided("struct 's' field of wrong length (pad/truncate not modelled)")
                b = SBytes(b.arr, w, b.off)
            piece = b
        else:
            if not is_intlike(v):
                raise PyRaise(_struct.error("required argument is not an integer"), _struct.error)
            z = to_z3_int(v)
            if I.path.branch(z3.Or(z < 0, z >= 2 ** (8 * w))):
                raise PyRaise(_struct.error("argument out of range"), _struct.error)
            cells = [z3.Int(fresh_name("pk%d_%d" % (w, i))) for i in range(w)]
            for i, c in enumerate(cells):
                I.path.fact(z3.And(c >= 0, c < 256, c == enc_fns(w)[i](z)), "struct:big-endian codec instance")
            I.path.fact(dec_fn(w)(*cells) == z, "struct:big-endian codec instance")
            if w <= 4:
                I.path.fact(z == be_sum(cells), "struct:big-endian value of a <=4-byte field (linear)")
            arr = z3.K(IntS, z3.IntVal(0))
            for i, c in enumerate(cells):
                arr = z3.Store(arr, i, c)
            piece = SBytes(arr, w)
        out = piece if out is None else sb_concat(out, piece)
    return out if out is not None else b""


def struct_unpack(I, args, kwargs):
    fmt, data = args[0], args[1]
    if isinstance(data, (bytes, bytearray)):
        try:
            return _struct.unpack(fmt, data)
        except _struct.error as e:
            raise PyRaise(e, _struct.error)
    if isinstance(data, SStr):
        raise Undecided("struct.unpack of string-bytes")
    if isinstance(data, Opaque):
        raise Undecided("struct.unpack of opaque data")
    fields = parse_fmt(fmt)
    total = sum(w for _, w in fields)
    b = as_sbytes(data)
    if concrete_int(b.length) != total:
        if I.path.branch(to_z3_int(b.length) != total):
            raise PyRaise(_struct.error("unpack requires a buffer of %d bytes" % total), _struct.error)
    out = []
    off = 0
    for kind, w in fields:
        if kind == "s":
            out.append(sb_slice(b, off, off + w))
        else:
            cells = [z3.simplify(b.at(off + i)) for i in range(w)]
            if all(z3.is_int_value(c) for c in cells):
                out.append(int.from_bytes(bytes(c.as_long() for c in cells), "big"))
                off += w
                continue
            val = dec_fn(w)(*cells)
            for i, c in enumerate(cells):
                I.path.fact(z3.And(c >= 0, c < 256), "bytes are in 0..255")
                I.path.fact(enc_fns(w)[i](val) == c, "struct:big-endian codec instance")
            I.path.fact(z3.And(val >= 0, val < 2 ** (8 * w)), "struct:big-endian codec instance")
            if w <= 4:
                I.path.fact(val == be_sum(cells), "struct:big-endian value of a <=4-byte field (linear)")
            out.append(val)
        off += w
    return tuple(out)


def struct_calcsize(I, args, kwargs):
    return _struct.calcsize(args[0])


# ------------------------------------------------------------------ files

class FileState(object):
    def __init__(self, content, length, exists=True):
        self.content = content      # z3 Array Int->Int
        self.length = length        # int / z3 Int
        self.exists = exists        # python bool (concrete per path)
        self.ops = []               # log of mutating calls (crash points)

    def snapshot(self):
        return FileState(self.content, self.length, self.exists)


class PathTok(object):
    """symbolic filesystem path with concrete identity."""

    def __init__(self, name):
        self.name = name

    def __repr__(self):
        return "<Path %s>" % self.name


class FileObj(object):
    def __init__(self, key, mode):
        self.key = key
        self.mode = mode
        self.pos = 0
        self.closed = False

    def __repr__(self):
        return "<File %s pos=%s>" % (self.key, self.pos)


def is_file(v):
    return isinstance(v, FileObj)


def path_key(p):
    if isinstance(p, PathTok):
        return p.name
    if isinstance(p, str):
        return p
    if isinstance(p, Opaque):
        return p.name
    raise Undecided("file path %r" % (p,))


def disk_get(I, key, create=False):
    st = I.disk.get(key)
    if st is None:
        if key in I.cfg.get("unknown_files_exist", ()):
            st = FileState(z3.Array(fresh_name("file_" + key), IntS, IntS), z3.Int(fresh_name("flen_" + key)))
            I.path.fact(st.length >= 0, "file length >= 0")
        else:
            st = FileState(z3.K(IntS, z3.IntVal(0)), 0, exists=False)
        I.disk[key] = st
    return st


def crash_point(I, what, key):
    h = I.cfg.get("on_file_op")
    if h is not None:
        h(I, what, key)


def m_open(I, args, kwargs):
    path = args[0]
    mode = args[1] if len(args) > 1 else kwargs.get("mode", "r")
    key = path_key(path)
    st = disk_get(I, key)
    if "b" not in mode:
        raise Undecided("text-mode file")
    if mode in ("rb", "rb+", "r+b"):
        if not st.exists:
            raise PyRaise(SObj(FileNotFoundError, {"args": (key,)}))
    elif mode in ("wb", "wb+", "w+b"):
        st.exists = True
        st.content = z3.K(IntS, z3.IntVal(0))
        st.length = 0
        crash_point(I, "open-truncate", key)
    elif mode in ("ab",):
        if not st.exists:
            st.exists = True
            st.content = z3.K(IntS, z3.IntVal(0))
            st.length = 0
        f = FileObj(key, mode)
        f.pos = st.length           # O_APPEND: every write goes to the current end (see write())
        return f
    else:
        raise Undecided("file mode %r" % mode)
    return FileObj(key, mode)


def file_method(I, f, name):
    def need_open():
        if f.closed:
            raise PyRaise(ValueError("I/O operation on closed file"), ValueError)

    def seek(I_, args, kwargs):
        need_open()
        whence = args[1] if len(args) > 1 else 0
        if whence == 0:
            f.pos = args[0]
        elif whence == 2:
            f.pos = norm_int(to_z3_int(disk_get(I, f.key).length) + to_z3_int(args[0]))
        elif whence == 1:
            f.pos = norm_int(to_z3_int(f.pos) + to_z3_int(args[0]))
        else:
            raise Undecided("seek whence")
        if isinstance(f.pos, int):
            if f.pos < 0:
                raise PyRaise(OSError("negative seek"), OSError)
        elif I.path.branch(to_z3_int(f.pos) < 0):
            raise PyRaise(OSError("negative seek"), OSError)
        return f.pos

    def tell(I_, args, kwargs):
        need_open()
        return f.pos

    def read(I_, args, kwargs):
        need_open()
        st = disk_get(I, f.key)
        pos, ln = to_z3_int(f.pos), to_z3_int(st.length)
        avail = z3.If(ln - pos > 0, ln - pos, z3.IntVal(0))
        if args and args[0] is not None and not (isinstance(args[0], int) and args[0] < 0):
            want = to_z3_int(args[0])
            n = z3.If(want < 0, avail, z3.If(want < avail, want, avail))
        else:
            n = avail
        n = norm_int(n)
        data = SBytes(st.content, n, f.pos)
        f.pos = norm_int(pos + to_z3_int(n))
        cn = concrete_int(n)
        if cn == 0:
            return b""
        return data

    def write(I_, args, kwargs):
        need_open()
        if f.mode == "rb":
            raise PyRaise(OSError("not writable"), OSError)
        data = args[0]
        if isinstance(data, Opaque):
            raise Undecided("write of opaque data")
        if isinstance(data, SStr):
            raise Undecided("write of string-bytes to a file")
        b = as_sbytes(data)
        st = disk_get(I, f.key)
        if f.mode == "ab":
            f.pos = st.length
        pos, ln, dl = to_z3_int(f.pos), to_z3_int(st.length), to_z3_int(b.length)
        if concrete_int(dl) == 0:
            return 0
        j = z3.Int(fresh_name("w"))
        # POSIX: a gap between the old end and pos reads as zeros
        newc = z3.Lambda([j], z3.If(z3.And(j >= pos, j < pos + dl), b.at(j - pos),
                                   z3.If(z3.And(j >= ln, j < pos), z3.IntVal(0), z3.Select(st.content, j))))
        # writing zero bytes changes nothing (no extension)
        st.content = z3.If(dl > 0, newc, st.content) if concrete_int(dl) is None else newc
        newlen = z3.If(pos + dl > ln, pos + dl, ln)
        st.length = norm_int(z3.If(dl > 0, newlen, ln) if concrete_int(dl) is None else newlen)
        f.pos = norm_int(pos + dl)
        I.ghost["last_write_at"] = pos
        crash_point(I, "write", f.key)
        return b.length

    def truncate(I_, args, kwargs):
        need_open()
        st = disk_get(I, f.key)
        size = args[0] if args else f.pos
        zs, ln = to_z3_int(size), to_z3_int(st.length)
        j = z3.Int(fresh_name("t"))
        st.content = z3.Lambda([j], z3.If(z3.And(j < zs, j < ln), z3.Select(st.content, j), z3.IntVal(0)))
        st.length = norm_int(zs)
        crash_point(I, "truncate", f.key)
        return size

    def flush(I_, args, kwargs):
        return None

    def close(I_, args, kwargs):
        f.closed = True
        return None

    table = {"seek": seek, "tell": tell, "read": read, "write": write, "truncate": truncate, "flush": flush,
             "close": close}
    if name == "closed":
        return f.closed
    if name in table:
        return ModelFn_("file." + name, table[name])
    return NotImplemented


def ModelFn_(name, fn):
    from .interp import ModelFn
    return ModelFn(name, fn)


def m_exists(I, args, kwargs):
    key = path_key(args[0])
    h = I.cfg.get("isdir")
    if h is not None and key not in I.disk and h(I, key):
        return True
    if any(st.exists and k.startswith(key + "/") for k, st in I.disk.items()):
        return True          # a directory with entries
    return disk_get(I, key).exists


def m_rm_dir(I, args, kwargs):
    """fileutil.rm_dir: recursive removal (trusted model)"""
    key = path_key(args[0])
    h = I.cfg.get("rm_dir")
    if h is not None:
        return h(I, key)
    for k, st in I.disk.items():
        if k.startswith(key + "/"):
            st.exists = False
    I.ghost.setdefault("rm_dir", []).append(key)
    crash_point(I, "rm_dir", key)
    return None


def m_getsize(I, args, kwargs):
    st = disk_get(I, path_key(args[0]))
    if not st.exists:
        raise PyRaise(SObj(FileNotFoundError, {"args": ()}))
    return st.length


def m_unlink(I, args, kwargs):
    key = path_key(args[0])
    st = disk_get(I, key)
    if not st.exists:
        raise PyRaise(SObj(FileNotFoundError, {"args": ()}))
    st.exists = False
    crash_point(I, "unlink", key)
    return None


def m_stat(I, args, kwargs):
    st = disk_get(I, path_key(args[0]))
    if not st.exists:
        raise PyRaise(SObj(FileNotFoundError, {"args": ()}))
    return StatResult(st.length)


class StatResult(object):
    def __init__(self, size):
        self.st_size = size

    def getitem(self, idx):
        import stat as _stat
        if idx == _stat.ST_SIZE:
            return self.st_size
        raise Undecided("os.stat field %r" % (idx,))


def _pname(p):
    if isinstance(p, PathTok):
        return p.name
    if isinstance(p, str):
        return p
    if isinstance(p, bytes):
        return p.decode("latin-1")
    if isinstance(p, SStr):
        return "<%s>" % z3.simplify(p.term).sexpr()
    if isinstance(p, Opaque):
        return "<%s>" % p.name
    raise Undecided("path component %r" % (p,))


def m_path_join(I, args, kwargs):
    if all(isinstance(a, str) for a in args):
        return _os.path.join(*args)
    return PathTok("/".join(_pname(a) for a in args))


def m_path_dirname(I, args, kwargs):
    if isinstance(args[0], str):
        return _os.path.dirname(args[0])
    n = _pname(args[0])
    return PathTok(n.rsplit("/", 1)[0] if "/" in n else "")


def m_path_split(I, args, kwargs):
    if isinstance(args[0], str):
        return _os.path.split(args[0])
    n = _pname(args[0])
    if "/" in n:
        a, b = n.rsplit("/", 1)
        return (PathTok(a), b)
    return (PathTok(""), n)


def m_path_basename(I, args, kwargs):
    return m_path_split(I, args, kwargs)[1]


def m_listdir(I, args, kwargs):
    """directory listing: names of existing modelled files directly under the directory, plus whatever the
    contract declares through cfg['listdir'](I, key)."""
    key = path_key(args[0])
    h = I.cfg.get("listdir")
    if h is not None:
        return h(I, key)
    names = sorted(k[len(key) + 1:] for k, st in I.disk.items() if st.exists and k.startswith(key + "/") and "/" not in k[len(key) + 1:])
    return names


def m_rmdir(I, args, kwargs):
    h = I.cfg.get("rmdir")
    if h is not None:
        return h(I, path_key(args[0]))
    key = path_key(args[0])
    if any(st.exists and k.startswith(key + "/") for k, st in I.disk.items()):
        raise PyRaise(SObj(OSError, {"args": ("directory not empty",)}))
    I.ghost.setdefault("rmdir", []).append(key)
    return None


def m_isdir(I, args, kwargs):
    h = I.cfg.get("isdir")
    if h is not None:
        return h(I, path_key(args[0]))
    key = path_key(args[0])
    return any(st.exists and k.startswith(key + "/") for k, st in I.disk.items())


def m_make_dirs(I, args, kwargs):
    I.ghost.setdefault("make_dirs", []).append(path_key(args[0]))
    return None


def m_rename(I, args, kwargs):
    src, dst = path_key(args[0]), path_key(args[1])
    st = disk_get(I, src)
    if not st.exists:
        raise PyRaise(SObj(FileNotFoundError, {"args": (src,)}))
    I.disk[dst] = FileState(st.content, st.length, True)
    st.exists = False
    crash_point(I, "rename", dst)
    return None


def ctx_enter(I, cm):
    if isinstance(cm, FileObj):
        return cm
    if isinstance(cm, Opaque):
        return Opaque(cm.name + ".__enter__()")
    if isinstance(cm, SObj):
        f = I.class_attr(cm.cls, "__enter__")
        if f is not None:
            return I.call_value(I.bind(f, cm), [], {})
    raise Undecided("context manager %r" % (cm,))


def ctx_exit(I, cm, exc):
    if isinstance(cm, FileObj):
        cm.closed = True
        return
    if isinstance(cm, Opaque):
        return
    if isinstance(cm, SObj):
        f = I.class_attr(cm.cls, "__exit__")
        if f is not None:
            I.call_value(I.bind(f, cm), [None, None, None], {})
            return
    raise Undecided("context manager exit")


# ------------------------------------------------------------------ attribute models (methods of builtin types)

def attr_model(I, obj, name):
    if isinstance(obj, FileObj):
        return file_method(I, obj, name)
    if isinstance(obj, StatResult):
        return getattr(obj, name)
    from . import models_str as S
    if isinstance(obj, _re.Pattern):
        r = S.pattern_attr(I, obj, name)
        if r is not NotImplemented:
            return r
    if isinstance(obj, S.MatchObj):
        return S.match_attr(I, obj, name)
    from . import models_tahoe as T
    if isinstance(obj, T.HashObj):
        return T.hash_attr(I, obj, name)
    if isinstance(obj, T.DStub):
        return T.dstub_attr(I, obj, name)
    if isinstance(obj, (SStr, bytes, str)) and name == "__hash__":
        return ModelFn_("str.__hash__", lambda I_, a, k: hash_of(I, obj))
    if isinstance(obj, (SStr,)) or (isinstance(obj, (bytes, str)) and name in _STR_METHODS):
        return str_method(I, obj, name)
    if isinstance(obj, SBytes):
        return sbytes_method(I, obj, name)
    if isinstance(obj, list):
        return list_method(I, obj, name)
    if isinstance(obj, dict):
        return dict_method(I, obj, name)
    if isinstance(obj, set):
        return set_method(I, obj, name)
    return NotImplemented


def setattr_model(I, obj, name, val):
    return NotImplemented


def sbytes_method(I, b, name):
    """methods of array-bytes: index(one byte[, start])"""
    def index(I_, a, k):
        sub = a[0]
        if not (isinstance(sub, bytes) and len(sub) == 1):
            raise Undecided("bytes.index of a symbolic or multi-byte needle")
        ch = sub[0]
        start = to_z3_int(a[1]) if len(a) > 1 else z3.IntVal(0)
        n = to_z3_int(b.length)
        if len(a) > 2:
            raise Undecided("bytes.index with end")
        if I.path.branch(z3.Or(start < 0, start > n)):
            raise Undecided("bytes.index with a start outside 0..len")
        j = z3.Int(fresh_name("ix"))
        if I.path.choose(2) == 1:
            I.path.assume(z3.ForAll([j], z3.Implies(z3.And(j >= start, j < n), b.at(j) != ch)))
            raise PyRaise(ValueError("subsection not found"), ValueError)
        c = z3.Int(fresh_name("idx"))
        I.path.assume(z3.And(c >= start, c < n, b.at(c) == ch))
        I.path.assume(z3.ForAll([j], z3.Implies(z3.And(j >= start, j < c), b.at(j) != ch)))
        I.ghost.setdefault("sb_index", []).append(c)
        return c
    if name == "index":
        return ModelFn_("bytes.index", index)
    return NotImplemented


_LENIENT = (9, 10, 11, 12, 13, 32, 43, 95)     # ASCII whitespace, '+', '_': spellings int() also accepts


def int_of_sbytes(I, b):
    """int(<array-bytes>) for numerals of at most 3 bytes: digits, or '-' digits.  A byte that is whitespace, '+'
    or '_' makes the result UNDECIDED unless the path condition excludes it."""
    w = None
    for k in range(0, 4):
        if I.path.branch(to_z3_int(b.length) == k):
            w = k
            break
    if w is None:
        raise Undecided("int() of array-bytes longer than 3")
    cs = [b.at(i) for i in range(w)]

    def dig(c):
        return z3.And(c >= 48, c <= 57)

    def val(ds):
        return z3.Sum([(c - 48) * 10 ** (len(ds) - 1 - i) for i, c in enumerate(ds)]) if ds else z3.IntVal(0)
    if w >= 1 and I.path.branch(z3.And([dig(c) for c in cs])):
        r = norm_int(val(cs))
        I.ghost.setdefault("sb_int", []).append(r)
        return r
    if w >= 2 and I.path.branch(z3.And([cs[0] == 45] + [dig(c) for c in cs[1:]])):
        r = norm_int(-val(cs[1:]))
        I.ghost.setdefault("sb_int", []).append(r)
        return r
    if w >= 1 and I.path.branch(z3.Or([c == x for c in cs for x in _LENIENT])):
        raise Undecided("int() on a numeral that may use whitespace, '+' or '_'")
    raise PyRaise(ValueError("invalid literal for int()"), ValueError)


_STR_METHODS = {"startswith", "endswith", "join", "split", "strip", "rstrip", "lstrip", "index", "find",
                "encode", "decode", "upper", "lower", "replace", "isdigit", "format", "rfind", "count"}


def str_method(I, s, name):
    from . import models_str
    return models_str.str_method(I, s, name)


def list_method(I, lst, name):
    def append(I_, a, k):
        lst.append(a[0])

    def extend(I_, a, k):
        lst.extend(I.iterate(a[0]))

    def pop(I_, a, k):
        if not lst:
            raise PyRaise(IndexError("pop from empty list"), IndexError)
        if a and not isinstance(a[0], int):
            raise Undecided("list.pop(symbolic)")
        return lst.pop(*a)

    def insert(I_, a, k):
        if not isinstance(a[0], int):
            raise Undecided("list.insert(symbolic)")
        lst.insert(a[0], a[1])

    def remove(I_, a, k):
        from . import models_ext as E
        for i, x in enumerate(lst):
            if E.key_equal(I, x, a[0]):
                del lst[i]
                return
        raise PyRaise(ValueError("list.remove(x): x not in list"), ValueError)

    def index(I_, a, k):
        from . import models_ext as E
        for i, x in enumerate(lst):
            if E.key_equal(I, x, a[0]):
                return i
        raise PyRaise(ValueError("not in list"), ValueError)

    def sort(I_, a, k):
        lst[:] = m_sorted(I, [lst], k)

    def reverse(I_, a, k):
        lst.reverse()

    def copy(I_, a, k):
        return list(lst)

    def count(I_, a, k):
        from . import models_ext as E
        return sum(1 for x in lst if E.key_equal(I, x, a[0]))

    def clear(I_, a, k):
        del lst[:]
    t = locals()
    if name in ("append", "extend", "pop", "insert", "remove", "index", "sort", "reverse", "copy", "count", "clear"):
        return ModelFn_("list." + name, t[name])
    return NotImplemented


class DictKeys(list):
    """dict.keys() view: iterates like a list, compares like a set"""


def dict_method(I, d, name):
    from . import models_ext as E

    def get(I_, a, k):
        ek = E.find_key(I, d, a[0])
        if ek is E._MISSING:
            return a[1] if len(a) > 1 else k.get("default")
        return d[ek]

    def setdefault(I_, a, k):
        ek = E.find_key(I, d, a[0])
        if ek is E._MISSING:
            E.dict_set(I, d, a[0], a[1] if len(a) > 1 else None)
            return a[1] if len(a) > 1 else None
        return d[ek]

    def pop(I_, a, k):
        ek = E.find_key(I, d, a[0])
        if ek is E._MISSING:
            if len(a) > 1:
                return a[1]
            raise PyRaise(SObj(KeyError, {"args": (a[0],)}))
        return d.pop(ek)

    def items(I_, a, k):
        return [(E.unwrap_key(kk), v) for kk, v in d.items()]

    def keys(I_, a, k):
        return DictKeys(E.unwrap_key(kk) for kk in d.keys())

    def values(I_, a, k):
        return list(d.values())

    def copy(I_, a, k):
        return dict(d)

    def update(I_, a, k):
        if a:
            src = a[0]
            if isinstance(src, dict):
                for kk, v in src.items():
                    E.dict_set(I, d, E.unwrap_key(kk), v)
            else:
                for kk, v in I.iterate(src):
                    E.dict_set(I, d, kk, v)
        for kk, v in k.items():
            d[kk] = v

    def clear(I_, a, k):
        d.clear()
    t = locals()
    if name in ("get", "setdefault", "pop", "items", "keys", "values", "copy", "update", "clear"):
        return ModelFn_("dict." + name, t[name])
    return NotImplemented


def set_method(I, s, name):
    from . import models_ext as E

    def add(I_, a, k):
        E.set_add(I, s, a[0])

    def discard(I_, a, k):
        for e in list(s):
            if E.key_equal(I, E.unwrap_key(e), a[0]):
                s.discard(e)
                return

    def remove(I_, a, k):
        for e in list(s):
            if E.key_equal(I, E.unwrap_key(e), a[0]):
                s.discard(e)
                return
        raise PyRaise(SObj(KeyError, {"args": (a[0],)}))

    def update(I_, a, k):
        for x in I.iterate(a[0]):
            E.set_add(I, s, x)

    def copy(I_, a, k):
        return set(s)

    def pop(I_, a, k):
        if not s:
            raise PyRaise(SObj(KeyError, {"args": ()}))
        # arbitrary element: every choice is explored
        items = sorted(s, key=repr)
        i = I.path.choose(len(items))
        s.discard(items[i])
        return E.unwrap_key(items[i])

    def union(I_, a, k):
        r = set(s)
        for o in a:
            for x in I.iterate(o):
                E.set_add(I, r, x)
        return r

    def difference(I_, a, k):
        return E.set_binop(I, "Sub", s, set(I.iterate(a[0])))

    def intersection(I_, a, k):
        return E.set_binop(I, "BitAnd", s, set(I.iterate(a[0])))

    def issubset(I_, a, k):
        return all(E.contains(I, a[0], E.unwrap_key(x)) for x in s)
    t = locals()
    if name in ("add", "discard", "remove", "update", "copy", "pop", "union", "difference", "intersection", "issubset"):
        return ModelFn_("set." + name, t[name])
    return NotImplemented


# ------------------------------------------------------------------ builtins

def m_len(I, a, k):
    return M.len_of(I, a[0])


def _minmax(I, a, k, is_min):
    items = list(a)
    if len(items) == 1:
        items = I.iterate(items[0])
        if not items:
            if "default" in k:
                return k["default"]
            raise PyRaise(ValueError("min()/max() arg is an empty sequence"), ValueError)
    if "key" in k and k["key"] is not None:
        raise Undecided("min/max with key")
    if all(isinstance(x, (int, float)) and not isinstance(x, bool) for x in items):
        return min(items) if is_min else max(items)
    if any(isinstance(x, Opaque) for x in items):
        return Opaque("minmax")
    if not all(is_intlike(x) for x in items):
        # tuples etc: fold with comparisons (path split)
        best = items[0]
        import ast as _ast
        for x in items[1:]:
            c = M.compare(I, _ast.Lt() if is_min else _ast.Gt(), x, best)
            if I.truthy(c):
                best = x
        return best
    best = to_z3_int(items[0])
    for x in items[1:]:
        zx = to_z3_int(x)
        best = z3.If(zx < best, zx, best) if is_min else z3.If(zx > best, zx, best)
    return norm_int(best)


def m_min(I, a, k):
    return _minmax(I, a, k, True)


def m_max(I, a, k):
    return _minmax(I, a, k, False)


def m_abs(I, a, k):
    v = a[0]
    if isinstance(v, (int, float)):
        return abs(v)
    z = to_z3_int(v)
    return norm_int(z3.If(z < 0, -z, z))


def m_int(I, a, k):
    if not a:
        return 0
    v = a[0]
    if isinstance(v, Opaque):
        return Opaque("int()")
    if is_intlike(v):
        return v if not is_bool(v) else (int(v) if isinstance(v, bool) else to_z3_int(v))
    if isinstance(v, float):
        return int(v)
    if isinstance(v, (str, bytes)):
        try:
            return int(v, *a[1:])
        except ValueError as e:
            raise PyRaise(e, ValueError)
    if isinstance(v, SStr):
        from . import models_str
        return models_str.int_of_str(I, v, *a[1:])
    if isinstance(v, SBytes) and len(a) == 1:
        return int_of_sbytes(I, v)
    raise Undecided("int(%r)" % (v,))


def m_bool(I, a, k):
    if not a:
        return False
    v = a[0]
    if isinstance(v, bool) or is_sym_bool(v):
        return v
    if is_sym_int(v):
        return norm_bool(v != 0)
    if isinstance(v, Opaque):
        return Opaque("bool()")
    return I.truthy(v)


def m_str(I, a, k):
    if not a:
        return ""
    if len(a) > 1 or k:
        v = a[0]
        if isinstance(v, bytes):
            return str(v, *a[1:], **k)
        if isinstance(v, SStr) and v.is_bytes:
            from . import models_str
            return models_str.decode(I, v, a[1] if len(a) > 1 else k.get("encoding", "utf-8"))
        raise Undecided("str(x, encoding)")
    return M.to_str(I, a[0], "s")


def m_bytes(I, a, k):
    if not a:
        return b""
    v = a[0]
    if isinstance(v, (bytes, SBytes)) or (isinstance(v, SStr) and v.is_bytes):
        return v
    if isinstance(v, int) and not isinstance(v, bool):
        return bytes(v)
    if is_sym_int(v):
        return SBytes(z3.K(IntS, z3.IntVal(0)), norm_int(z3.If(v > 0, v, z3.IntVal(0))))
    if isinstance(v, (list, tuple)) and all(isinstance(x, int) for x in v):
        return bytes(v)
    if isinstance(v, (list, tuple)):
        arr = z3.K(IntS, z3.IntVal(0))
        for i, x in enumerate(v):
            arr = z3.Store(arr, i, to_z3_int(x))
        return SBytes(arr, len(v))
    if isinstance(v, str):
        return bytes(v, *a[1:], **k)
    raise Undecided("bytes(%r)" % (v,))


def real_class_of(v):
    if isinstance(v, SObj):
        return v.cls
    if isinstance(v, bool) or is_sym_bool(v):
        return bool
    if isinstance(v, int) or is_sym_int(v):
        return int
    if isinstance(v, SStr):
        return bytes if v.is_bytes else str
    if isinstance(v, (SBytes, SHash)):
        return bytes
    if isinstance(v, FileObj):
        import io
        return io.BufferedRandom
    if isinstance(v, Opaque):
        raise Undecided("type of opaque value %s" % v.name)
    from .interp import Closure, BoundMethod
    if isinstance(v, Closure):
        return types.FunctionType
    if isinstance(v, BoundMethod):
        return types.MethodType
    if isinstance(v, SList):
        return list
    return type(v)


def m_isinstance(I, a, k):
    v, t = a
    if isinstance(v, Opaque):
        return Opaque("isinstance")
    cls = real_class_of(v)
    if isinstance(t, tuple):
        return any(isinstance(x, type) and issubclass(cls, x) for x in t)
    if not isinstance(t, type):
        # zope interfaces etc.
        prov = getattr(t, "implementedBy", None)
        raise Undecided("isinstance against non-class %r" % (t,))
    return issubclass(cls, t)


def m_type(I, a, k):
    if len(a) == 1:
        return real_class_of(a[0])
    raise Undecided("type(name, bases, dict)")


def m_range(I, a, k):
    if all(isinstance(x, int) for x in a):
        return range(*a)
    return SymRange(*a)


class SymRange(object):
    def __init__(self, *a):
        if len(a) == 1:
            self.start, self.stop, self.step = 0, a[0], 1
        elif len(a) == 2:
            self.start, self.stop, self.step = a[0], a[1], 1
        else:
            self.start, self.stop, self.step = a
        if self.step != 1:
            raise Undecided("symbolic range with step")


def m_sum(I, a, k):
    items = I.iterate(a[0])
    acc = a[1] if len(a) > 1 else 0
    import ast as _ast
    for x in items:
        acc = M.binop(I, _ast.Add(), acc, x)
    return acc


def m_sorted(I, a, k):
    items = list(I.iterate(a[0]))
    keyf = k.get("key")
    rev = k.get("reverse", False)
    keys = [I.call_value(keyf, [x], {}) for x in items] if keyf is not None else list(items)
    if all(I.is_plain(x) for x in keys):
        order = sorted(range(len(items)), key=lambda i: keys[i], reverse=bool(rev))
        return [items[i] for i in order]
    # insertion sort by path splitting (stable)
    import ast as _ast
    out = []
    for x, kx in zip(items, keys):
        pos = len(out)
        for i, (y, ky) in enumerate(out):
            c = M.compare(I, _ast.Lt() if not rev else _ast.Gt(), kx, ky)
            if I.truthy(c):
                pos = i
                break
        out.insert(pos, (x, kx))
    return [x for x, _ in out]


def m_enumerate(I, a, k):
    start = a[1] if len(a) > 1 else k.get("start", 0)
    return [(start + i, x) for i, x in enumerate(I.iterate(a[0]))]


def m_zip(I, a, k):
    return list(zip(*[I.iterate(x) for x in a]))


def m_reversed(I, a, k):
    return list(reversed(I.iterate(a[0])))


def m_list(I, a, k):
    return list(I.iterate(a[0])) if a else []


def m_tuple(I, a, k):
    return tuple(I.iterate(a[0])) if a else ()


def m_dict(I, a, k):
    from . import models_ext as E
    d = {}
    if a:
        src = a[0]
        if isinstance(src, dict):
            d.update(src)
        else:
            for kk, v in I.iterate(src):
                E.dict_set(I, d, kk, v)
    d.update(k)
    return d


def m_dict_init(I, a, k):
    """dict.__init__(self, ...) on an instance of a dict subclass"""
    obj = a[0]
    if isinstance(obj, SObj):
        obj.fields["__dictdata__"] = m_dict(I, a[1:], k)
        return None
    raise Undecided("dict.__init__ on %r" % (obj,))


def m_dict_setitem(I, a, k):
    from . import models_ext as E
    obj = a[0]
    if isinstance(obj, SObj):
        E.dict_set(I, obj.fields.setdefault("__dictdata__", {}), a[1], a[2])
        return None
    raise Undecided("dict.__setitem__ on %r" % (obj,))


def m_dict_delitem(I, a, k):
    obj = a[0]
    if isinstance(obj, SObj):
        M.del_subscript(I, obj.fields.setdefault("__dictdata__", {}), a[1])
        return None
    raise Undecided("dict.__delitem__ on %r" % (obj,))


def m_set(I, a, k):
    from . import models_ext as E
    return E.make_set(I, I.iterate(a[0])) if a else set()


def m_frozenset(I, a, k):
    s = m_set(I, a, k)
    return frozenset(s)


def m_any(I, a, k):
    for x in I.iterate(a[0]):
        if I.truthy(x):
            return True
    return False


def m_all(I, a, k):
    for x in I.iterate(a[0]):
        if not I.truthy(x):
            return False
    return True


_HS = z3.Function("py_hash_str", z3.StringSort(), IntS)
_HT = {}


def hash_of(I, v):
    """python hash() as a z3 Int: uninterpreted on strings / tuples (equal values => equal hashes by congruence)."""
    if isinstance(v, SObj):
        f = I.class_attr(v.cls, "__hash__")
        if isinstance(f, types.FunctionType):
            return to_z3_int(I.call_value(I.bind(f, v), [], {}))
        return z3.Int("id_hash!" + v.name)
    if isinstance(v, (SStr, bytes, str)):
        return _HS(as_sstr(v).term)
    if is_intlike(v):
        return to_z3_int(v)
    if isinstance(v, type):
        return z3.Int("class_hash!" + v.__module__ + "." + v.__qualname__)
    if v is None:
        return z3.Int("none_hash")
    if isinstance(v, tuple):
        n = len(v)
        if n not in _HT:
            _HT[n] = z3.Function("py_hash_tuple%d" % n, *([IntS] * (n + 1)))
        return _HT[n](*[hash_of(I, x) for x in v])
    raise Undecided("hash of %r" % (v,))


def m_hash(I, a, k):
    return hash_of(I, a[0])


def m_getattr(I, a, k):
    obj, name = a[0], a[1]
    if not isinstance(name, str):
        raise Undecided("getattr with symbolic name")
    if len(a) > 2:
        try:
            v = I.get_attr(obj, name)
        except PyRaise as pr:
            if pr.cls is AttributeError:
                return a[2]
            raise
        if isinstance(v, Opaque) and isinstance(obj, SObj) and name not in obj.fields:
            return a[2] if name not in I.cfg.get("opaque_fields", ()) else v
        return v
    return I.get_attr(obj, name)


def m_hasattr(I, a, k):
    obj, name = a
    if isinstance(obj, SObj):
        return name in obj.fields or I.class_attr(obj.cls, name) is not None
    if isinstance(obj, Opaque):
        return Opaque("hasattr")
    return hasattr(obj, name)


def m_setattr(I, a, k):
    I.set_attr(a[0], a[1], a[2])


def m_noop(I, a, k):
    return None


def m_precondition(I, a, k):
    v = a[0] if a else k.get("precondition")
    if isinstance(v, Opaque):
        I.path.notes.append("precondition on opaque value skipped")
        return None
    if not I.truthy(v):
        raise PyRaise(SObj(AssertionError, {"args": ("precondition",) + tuple(a[1:])}))
    return None


def m_time(I, a, k):
    clk = I.ghost.setdefault("clock", [])
    script = I.cfg.get("clock_values")
    if script is not None:
        if len(clk) >= len(script):
            raise Undecided("more clock reads than the contract scripted")
        t = script[len(clk)]
        clk.append(t)
        return t
    t = z3.Int(fresh_name("now"))
    if clk:
        I.path.fact(t >= clk[-1], "clock is monotone")
    clk.append(t)
    return t


def m_repr(I, a, k):
    if I.is_plain(a[0]):
        return repr(a[0])
    return Opaque("repr()")


def m_id(I, a, k):
    return Opaque("id()")


def m_iter(I, a, k):
    return I.iterate(a[0])


def m_callable(I, a, k):
    from .interp import Closure, BoundMethod, ModelFn
    v = a[0]
    if isinstance(v, (Closure, BoundMethod, ModelFn)):
        return True
    if isinstance(v, SObj):
        return I.class_attr(v.cls, "__call__") is not None
    if isinstance(v, Opaque):
        return Opaque("callable")
    return callable(v)


def m_print(I, a, k):
    return None


def m_heappush(I, a, k):
    """heapq.heappush: the list is kept SORTED (a sorted list is a heap; programs observing only heap[0], len, heappop and
    heappush cannot tell the difference in the multiset or in the minimum)"""
    import ast as _ast
    lst, item = a[0], a[1]
    if not isinstance(lst, list):
        raise Undecided("heappush on %r" % (lst,))
    pos = len(lst)
    for i, x in enumerate(lst):
        c = M.compare(I, _ast.Lt(), item, x)
        if I.truthy(c):
            pos = i
            break
    lst.insert(pos, item)
    return None


def m_heappop(I, a, k):
    lst = a[0]
    if not isinstance(lst, list):
        raise Undecided("heappop on %r" % (lst,))
    if not lst:
        raise PyRaise(IndexError("index out of range"), IndexError)
    return lst.pop(0)


def m_divmod(I, a, k):
    return (M.py_floordiv(I, a[0], a[1]), M.py_mod(I, a[0], a[1]))


import heapq as _heapq_mod


def build_table():
    t = {
        builtins.len: m_len, builtins.min: m_min, builtins.max: m_max, builtins.abs: m_abs,
        builtins.int: m_int, builtins.bool: m_bool, builtins.str: m_str, builtins.bytes: m_bytes,
        builtins.isinstance: m_isinstance, builtins.type: m_type, builtins.range: m_range,
        builtins.sum: m_sum, builtins.sorted: m_sorted, builtins.enumerate: m_enumerate, builtins.zip: m_zip,
        _heapq_mod.heappush: m_heappush, _heapq_mod.heappop: m_heappop,
        builtins.reversed: m_reversed, builtins.list: m_list, builtins.tuple: m_tuple, builtins.dict: m_dict, dict.__init__: m_dict_init, dict.__setitem__: m_dict_setitem, dict.__delitem__: m_dict_delitem,
        builtins.set: m_set, builtins.frozenset: m_frozenset, builtins.any: m_any, builtins.all: m_all,
        builtins.hash: m_hash, builtins.getattr: m_getattr, builtins.hasattr: m_hasattr,
        builtins.setattr: m_setattr, builtins.open: m_open, builtins.repr: m_repr, builtins.id: m_id,
        builtins.iter: m_iter, builtins.callable: m_callable, builtins.print: m_print, builtins.divmod: m_divmod,
        _struct.pack: struct_pack, _struct.unpack: struct_unpack, _struct.calcsize: struct_calcsize,
        _os.path.exists: m_exists, _os.path.getsize: m_getsize, _os.unlink: m_unlink, _os.remove: m_unlink,
        _os.stat: m_stat, _time.time: m_time,
        _os.path.join: m_path_join, _os.path.dirname: m_path_dirname, _os.path.split: m_path_split,
        _os.path.basename: m_path_basename, _os.path.isdir: m_isdir, _os.listdir: m_listdir, _os.rmdir: m_rmdir, _os.rename: m_rename,
    }
    def exc_init(I, a, k):
        if isinstance(a[0], SObj):
            a[0].fields["args"] = tuple(a[1:])
        return None
    for e in (BaseException, Exception, ValueError, KeyError, IndexError, AssertionError, TypeError, OSError):
        t[e.__init__] = exc_init
    try:
        from allmydata.util import fileutil
        t[fileutil.make_dirs] = m_make_dirs
        t[fileutil.rename] = m_rename
        t[fileutil.rm_dir] = m_rm_dir
    except Exception:
        pass
    try:
        from allmydata.util import assertutil
        t[assertutil.precondition] = m_precondition
        t[assertutil._assert] = m_precondition
        t[assertutil.postcondition] = m_precondition
    except Exception:
        pass
    from . import models_str
    models_str.register(t)
    from . import models_tahoe
    models_tahoe.register(t)
    return t


def class_model(I, cls, args, kwargs):
    from . import models_tahoe
    return models_tahoe.class_model(I, cls, args, kwargs)


def attrs_init(I, cls, obj, args, kwargs):
    import attr
    flds = [a for a in attr.fields(cls) if a.init]
    vals = {}
    args = list(args)
    for i, a in enumerate(flds):
        nm = a.name.lstrip("_")
        if i < len(args):
            v = args[i]
        elif nm in kwargs:
            v = kwargs[nm]
        elif a.default is not attr.NOTHING:
            d = a.default
            if isinstance(d, attr.Factory):
                if d.takes_self:
                    raise Undecided("attrs factory takes_self")
                v = I.call_value(d.factory, [], {})
            else:
                v = d
        else:
            raise PyRaise(TypeError("missing attrs argument " + nm), TypeError)
        if a.converter is not None:
            v = I.call_value(a.converter, [v], {})
        vals[a.name] = v
    obj.fields.update(vals)
    for a in flds:
        if a.validator is not None:
            I.path.notes.append("attrs validator on %s.%s not executed" % (cls.__name__, a.name))
    post = I.class_attr(cls, "__attrs_post_init__")
    if post is not None:
        I.call_value(I.bind(post, obj), [], {})
    return obj


def inv_for(I, st, env, globs, clo, spec, it):
    """invariant-cut for-loop over a symbolic range or symbolic list."""
    if isinstance(it, SymRange) or isinstance(it, range):
        start, stop = it.start, it.stop
        elem = lambda i: i
    elif isinstance(it, SList):
        start, stop = 0, it.length
        elem = it.elem
    elif isinstance(it, (list, tuple)) and spec is not None:
        raise Undecided("invariant on a concrete-shape for loop")
    else:
        raise Undecided("invariant for-loop over %r" % (it,))
    idx_name = "__i%d" % st.lineno
    env.set(idx_name, start)

    def guard():
        return M.compare(I, __import__("ast").Lt(), env.lookup(idx_name), stop)

    def pre_body():
        I.assign(st.target, elem(env.lookup(idx_name)), env, globs)
    spec2 = spec
    if spec.havoc is None:
        names = sorted(I.assigned_names(st.body + st.orelse) | {idx_name} |
                       {n.id for n in __import__("ast").walk(st.target) if isinstance(n, __import__("ast").Name)})
        from .interp import LoopInv
        spec2 = LoopInv(spec.inv, names, spec.havoc_extra, spec.fresh, spec.header)
    st._idx_name = idx_name
    return I.run_inv_loop(st, env, globs, clo, spec2, guard, pre_body)


def loop_step(I, st, env):
    nm = getattr(st, "_idx_name", None)
    if nm is not None:
        env.set(nm, norm_int(to_z3_int(env.lookup(nm)) + 1))
