"""Operators, builtins and trusted models of externals (DESIGN.md 2.6).

Part 1: operators on the value model.  Further parts (struct, files, builtins)
are in models_ext.py and registered through build_table().
"""
import ast
import z3

from .values import *  # noqa
from . import values as V


# ------------------------------------------------------------------ python int semantics

def py_floordiv(I, a, b):
    bc = concrete_int(b)
    if bc is None:
        if I.path.branch(to_z3_int(b) == 0):
            raise PyRaise(ZeroDivisionError("division by zero"), ZeroDivisionError)
    elif bc == 0:
        raise PyRaise(ZeroDivisionError("division by zero"), ZeroDivisionError)
    if isinstance(a, int) and isinstance(b, int):
        return a // b
    za, zb = to_z3_int(a), to_z3_int(b)
    if bc is not None and bc > 0:
        return norm_int(za / zb)
    if bc is not None and bc < 0:
        return norm_int((-za) / (-zb))
    # z3 div is Euclidean: for b>0 equals floor; for b<0 floor(a/b) = (-a) div (-b)
    return norm_int(z3.If(zb > 0, za / zb, (-za) / (-zb)))


def py_mod(I, a, b):
    bc = concrete_int(b)
    if bc is None:
        if I.path.branch(to_z3_int(b) == 0):
            raise PyRaise(ZeroDivisionError("modulo by zero"), ZeroDivisionError)
    elif bc == 0:
        raise PyRaise(ZeroDivisionError("modulo by zero"), ZeroDivisionError)
    if isinstance(a, int) and isinstance(b, int):
        return a % b
    za, zb = to_z3_int(a), to_z3_int(b)
    if bc is not None and bc > 0:
        return norm_int(za % zb)
    if bc is not None and bc < 0:
        return norm_int(-((-za) % (-zb)))
    return norm_int(z3.If(zb > 0, za % zb, -((-za) % (-zb))))


def is_strlike(v):
    return isinstance(v, (SStr, str, bytes))


def is_byteslike(v):
    return isinstance(v, (SBytes, bytes, bytearray)) or (isinstance(v, SStr) and v.is_bytes)


def sstr_len(v):
    if getattr(v, "known_len", None) is not None:
        return v.known_len
    return norm_int(z3.Length(v.term))


def len_of(I, v):
    if isinstance(v, (bytes, str, list, tuple, dict, set, frozenset, range, bytearray)):
        return len(v)
    if isinstance(v, SStr):
        if I is not None and I.cfg.get("rope") and v.known_len is None:
            from . import models_str as S
            rp = S.rope_of(I, v)
            if rp is not None:
                return S.rope_len(I, rp)
        return sstr_len(v)
    if isinstance(v, SHash):
        return v.nbytes
    if isinstance(v, SBytes):
        return v.length
    if isinstance(v, SList):
        return v.length
    if listobj(v) is not None:
        return len(listobj(v))
    if dictobj(v) is not None:
        return len(dictobj(v))
    if isinstance(v, SObj):
        f = I.class_attr(v.cls, "__len__")
        if f is not None:
            return I.call_value(I.bind(f, v), [], {})
    if isinstance(v, Opaque):
        return Opaque("len(%s)" % v.name)
    r = ext().len_model(I, v)
    if r is not NotImplemented:
        return r
    raise Undecided("len of %r" % (v,))


def ext():
    from . import models_ext
    return models_ext


# ------------------------------------------------------------------ binop

def binop(I, op, a, b, inplace=False):
    if isinstance(a, Opaque) or isinstance(b, Opaque):
        return Opaque("binop")
    name = type(op).__name__
    # SObj operator overloading
    if isinstance(a, SObj) or isinstance(b, SObj):
        return ext().obj_binop(I, name, a, b, inplace)
    if is_intlike(a) and is_intlike(b):
        conc = isinstance(a, (int, bool)) and isinstance(b, (int, bool))
        if name == "Add":
            return a + b if conc else norm_int(to_z3_int(a) + to_z3_int(b))
        if name == "Sub":
            return a - b if conc else norm_int(to_z3_int(a) - to_z3_int(b))
        if name == "Mult":
            return a * b if conc else norm_int(to_z3_int(a) * to_z3_int(b))
        if name == "FloorDiv":
            return py_floordiv(I, a, b)
        if name == "Mod":
            return py_mod(I, a, b)
        if name == "Pow":
            if conc:
                return a ** b
            bc = concrete_int(b)
            if bc is not None and 0 <= bc <= 8:
                r = z3.IntVal(1)
                for _ in range(bc):
                    r = r * to_z3_int(a)
                return norm_int(r)
            ac = concrete_int(a)
            if ac == 2:
                return ext().pow2(I, b)
            raise Undecided("symbolic power")
        if conc:
            import operator
            f = {"BitAnd": operator.and_, "BitOr": operator.or_, "BitXor": operator.xor,
                 "LShift": operator.lshift, "RShift": operator.rshift, "Div": operator.truediv}.get(name)
            if f:
                return f(a, b)
        if name in ("BitAnd", "BitOr") and is_bool(a) and is_bool(b):
            f = z3.And if name == "BitAnd" else z3.Or
            return norm_bool(f(to_z3_bool(a), to_z3_bool(b)))
        if name == "Div":
            raise Undecided("true division on symbolic ints (floats are not modelled)")
        raise Undecided("int op %s on symbolic" % name)
    if isinstance(a, float) or isinstance(b, float):
        if isinstance(a, (int, float)) and isinstance(b, (int, float)):
            import operator
            return {"Add": operator.add, "Sub": operator.sub, "Mult": operator.mul, "Div": operator.truediv,
                    "FloorDiv": operator.floordiv, "Mod": operator.mod, "Pow": operator.pow}[name](a, b)
        return Opaque("float")        # floats are not modelled: the result may be stored or logged, never branched on
    # sequences
    if name == "Add":
        if isinstance(a, (list, tuple)) and isinstance(b, (list, tuple)) and type(a) == type(b):
            return a + b
        if isinstance(a, list) and isinstance(b, list):
            return a + b
        if isinstance(a, (bytes, str)) and type(a) == type(b):
            return a + b
        if isinstance(a, SBytes) or isinstance(b, SBytes):
            if is_byteslike(a) and is_byteslike(b) and not isinstance(a, SStr) and not isinstance(b, SStr):
                return sb_concat(as_sbytes(a), as_sbytes(b))
        if is_strlike(a) and is_strlike(b):
            return str_concat(I, [a, b], None)
    if name == "Mult":
        if isinstance(b, (bytes, str, list, tuple)) and is_intlike(a):
            a, b = b, a
        if isinstance(a, (bytes, str, list, tuple)) and isinstance(b, int):
            return a * b
        if isinstance(a, bytes) and is_sym_int(b) and len(a) == 1:
            n = z3.If(b > 0, b, z3.IntVal(0))
            return SBytes(z3.K(IntS, z3.IntVal(a[0])), norm_int(n))
    if name == "Mod" and is_strlike(a):
        return ext().str_format(I, a, b)
    if name in ("BitOr", "BitAnd", "Sub", "BitXor") and isinstance(a, (set, frozenset)) and isinstance(b, (set, frozenset)):
        return ext().set_binop(I, name, a, b)
    if name == "BitOr" and isinstance(a, dict) and isinstance(b, dict):
        d = dict(a)
        d.update(b)
        return d
    raise Undecided("binop %s on %r, %r" % (name, type(a).__name__, type(b).__name__))


def str_concat(I, parts, is_bytes):
    if all(isinstance(p, str) for p in parts):
        return "".join(parts)
    if all(isinstance(p, bytes) for p in parts):
        return b"".join(parts)
    ss = [as_sstr(p) for p in parts]
    isb = ss[0].is_bytes
    for s in ss:
        if s.is_bytes != isb:
            raise PyRaise(TypeError("can't concat str to bytes"), TypeError)
    t = ss[0].term if len(ss) == 1 else z3.Concat(*[s.term for s in ss])
    kl = None
    lens = [(len(p) if isinstance(p, (bytes, str)) else p.known_len) for p in parts]
    if all(x is not None for x in lens) and any(not isinstance(p, (bytes, str)) for p in parts):
        kl = norm_int(z3.Sum([to_z3_int(x) for x in lens]))
    return SStr(t, isb, kl)


def to_str(I, v, conv="s"):
    return ext().to_str(I, v, conv)


# ------------------------------------------------------------------ compare

def kind_of(v):
    if v is None:
        return "none"
    if is_bool(v):
        return "int"
    if is_int(v):
        return "int"
    if isinstance(v, float):
        return "float"
    if isinstance(v, (SStr,)):
        return "bytes" if v.is_bytes else "str"
    if isinstance(v, (bytes, bytearray, SBytes, SHash)):
        return "bytes"
    if isinstance(v, str):
        return "str"
    if isinstance(v, tuple):
        return "tuple"
    if type(v).__name__ == "DictKeys":
        return "set"
    if isinstance(v, list):
        return "list"
    if isinstance(v, dict):
        return "dict"
    if isinstance(v, (set, frozenset)):
        return "set"
    if isinstance(v, SObj):
        return "obj"
    if isinstance(v, Opaque):
        return "opaque"
    return "real"


def struct_eq(I, a, b):
    """decide string equality structurally when one side is a concrete string and the other is built from atoms"""
    if I is None or not I.cfg.get("atoms"):
        return None
    from . import models_str as S
    for x, y in ((a, b), (b, a)):
        if isinstance(y, (str, bytes)) and isinstance(x, SStr):
            sp = S.struct_parts(I, x.term)
            if sp is None:
                return None
            yv = y.decode("latin-1") if isinstance(y, bytes) else y
            if S.struct_min_len(I, sp) > len(yv):
                return False
            # a character of y outside every part's alphabet decides inequality
            lits = "".join(v for k, v in sp if k == "lit")
            alpha = set(lits)
            for k, v in sp:
                if k == "atom":
                    alpha |= set(S.atom_alpha(I, v)[0])
            if any(c not in alpha for c in yv):
                return False
            if any(c not in yv for c in lits):
                return False
    return None


def values_equal(I, a, b):
    """python == as z3 Bool / python bool (no branching)."""
    ka, kb = kind_of(a), kind_of(b)
    if ka == "opaque" or kb == "opaque":
        if a is b:
            return True
        return Opaque("eq")
    if ka == "obj" or kb == "obj":
        return ext().obj_eq(I, a, b)
    if ka != kb:
        if {ka, kb} == {"int", "float"}:
            if isinstance(a, (int, float)) and isinstance(b, (int, float)):
                return a == b
            raise Undecided("int/float comparison")
        if {ka, kb} == {"tuple", "list"}:
            return False
        return False
    if ka == "none":
        return True
    if ka == "int":
        if isinstance(a, (int, bool)) and isinstance(b, (int, bool)):
            return a == b
        return norm_bool(to_z3_int(a) == to_z3_int(b))
    if ka in ("bytes", "str"):
        if isinstance(a, SHash) or isinstance(b, SHash):
            if isinstance(a, SHash) and isinstance(b, SHash):
                return norm_bool(a.term == b.term)
            raise Undecided("comparison of an abstract digest with a byte string")
        if isinstance(a, (bytes, str, bytearray)) and isinstance(b, (bytes, str, bytearray)):
            return a == b
        if isinstance(a, SBytes) or isinstance(b, SBytes):
            if isinstance(a, SStr) or isinstance(b, SStr):
                raise Undecided("comparison between string-bytes and array-bytes")
            return norm_bool(sb_eq(as_sbytes(a), as_sbytes(b)))
        r = struct_eq(I, a, b)
        if r is not None:
            return r
        return norm_bool(as_sstr(a).term == as_sstr(b).term)
    if ka in ("tuple", "list"):
        if len(a) != len(b):
            return False
        rs = [values_equal(I, x, y) for x, y in zip(a, b)]
        if any(isinstance(r, Opaque) for r in rs):
            return Opaque("eq")
        if any(r is False for r in rs):
            return False
        rs = [to_z3_bool(r) for r in rs if r is not True]
        if not rs:
            return True
        return norm_bool(z3.And(rs))
    if ka in ("dict", "set"):
        return ext().container_eq(I, a, b)
    try:
        return a == b
    except Exception:
        raise Undecided("== on %r, %r" % (a, b))


def compare(I, op, a, b):
    name = type(op).__name__
    if name in ("Is", "IsNot"):
        if a is None or b is None or isinstance(a, (bool, type)) or isinstance(b, (bool, type)):
            if isinstance(a, Opaque) or isinstance(b, Opaque):
                return Opaque("is")
            if (is_sym_bool(a) and isinstance(b, bool)) or (is_sym_bool(b) and isinstance(a, bool)):
                s, c = (a, b) if is_sym_bool(a) else (b, a)
                r = s if c else norm_bool(z3.Not(s))
                return r if name == "Is" else norm_bool(z3.Not(to_z3_bool(r)))
            r = a is b
            return r if name == "Is" else not r
        if isinstance(a, (SObj, list, dict, set)) or isinstance(b, (SObj, list, dict, set)):
            r = a is b
            return r if name == "Is" else not r
        if isinstance(a, Opaque) or isinstance(b, Opaque):
            return Opaque("is")
        raise Undecided("identity comparison of %r, %r" % (a, b))
    if name in ("Eq", "NotEq"):
        if isinstance(a, SObj) or isinstance(b, SObj):
            r = ext().obj_compare(I, name, a, b)
            return r
        r = values_equal(I, a, b)
        if name == "Eq" or isinstance(r, Opaque):
            return r
        return (not r) if isinstance(r, bool) else norm_bool(z3.Not(r))
    if name in ("In", "NotIn"):
        r = ext().contains(I, b, a)
        if name == "In" or isinstance(r, Opaque):
            return r
        return (not r) if isinstance(r, bool) else norm_bool(z3.Not(r))
    if isinstance(a, Opaque) or isinstance(b, Opaque):
        return Opaque("cmp")
    if is_intlike(a) and is_intlike(b):
        if isinstance(a, (int, bool)) and isinstance(b, (int, bool)):
            import operator
            return {"Lt": operator.lt, "LtE": operator.le, "Gt": operator.gt, "GtE": operator.ge}[name](a, b)
        za, zb = to_z3_int(a), to_z3_int(b)
        return norm_bool({"Lt": za < zb, "LtE": za <= zb, "Gt": za > zb, "GtE": za >= zb}[name])
    if isinstance(a, (int, float)) and isinstance(b, (int, float)):
        import operator
        return {"Lt": operator.lt, "LtE": operator.le, "Gt": operator.gt, "GtE": operator.ge}[name](a, b)
    if isinstance(a, (tuple, list)) and isinstance(b, (tuple, list)):
        return ext().lex_compare(I, name, list(a), list(b))
    if isinstance(a, (bytes, str)) and type(a) == type(b):
        import operator
        return {"Lt": operator.lt, "LtE": operator.le, "Gt": operator.gt, "GtE": operator.ge}[name](a, b)
    if is_strlike(a) and is_strlike(b):
        sa, sb = as_sstr(a).term, as_sstr(b).term
        return norm_bool({"Lt": sa < sb, "LtE": sa <= sb, "Gt": sb < sa, "GtE": sb <= sa}[name])
    if isinstance(a, SObj) or isinstance(b, SObj):
        return ext().obj_compare(I, name, a, b)
    if isinstance(a, (set, frozenset)) and isinstance(b, (set, frozenset)):
        import operator
        return {"Lt": operator.lt, "LtE": operator.le, "Gt": operator.gt, "GtE": operator.ge}[name](a, b)
    raise Undecided("ordering comparison of %r, %r" % (a, b))


# ------------------------------------------------------------------ subscripts / slices

def lower_bound(t):
    """cheap syntactic lower bound of an integer term (None = unknown)"""
    if isinstance(t, int):
        return t
    if z3.is_int_value(t):
        return t.as_long()
    if z3.is_app(t):
        k = t.decl().kind()
        if k == z3.Z3_OP_SEQ_LENGTH:
            return 0
        if k == z3.Z3_OP_ADD:
            bs = [lower_bound(c) for c in t.children()]
            return None if any(b is None for b in bs) else sum(bs)
    return None


def clip_index(I, i, n, is_upper, default):
    """python slice bound clipping; i may be None/int/z3; n length (int/z3)."""
    if i is None:
        return default
    if isinstance(i, int) and i >= 0 and not isinstance(n, int):
        lb = lower_bound(z3.simplify(to_z3_int(n)))
        if lb is not None and lb >= i:
            return i
    if isinstance(i, int) and isinstance(n, int):
        if i < 0:
            i += n
            if i < 0:
                i = 0
        if i > n:
            i = n
        return i
    zi, zn = to_z3_int(i), to_z3_int(n)
    adj = z3.If(zi < 0, z3.If(zi + zn < 0, z3.IntVal(0), zi + zn), z3.If(zi > zn, zn, zi))
    return norm_int(adj)


def slice_bounds(I, sl, n):
    if sl.step is not None and sl.step != 1:
        raise Undecided("slice step")
    lo = clip_index(I, sl.start, n, False, 0)
    hi = clip_index(I, sl.stop, n, True, n)
    # hi < lo -> empty
    if isinstance(lo, int) and isinstance(hi, int):
        if hi < lo:
            hi = lo
        return lo, hi
    if isinstance(lo, int) and not isinstance(hi, int):
        lb = lower_bound(z3.simplify(to_z3_int(hi)))
        if lb is not None and lb >= lo:
            return lo, hi
    hi2 = norm_int(z3.If(to_z3_int(hi) < to_z3_int(lo), to_z3_int(lo), to_z3_int(hi)))
    return lo, hi2


def listobj(obj):
    """python list behind an SObj whose class subclasses list (fields['__list__'])"""
    if isinstance(obj, SObj) and isinstance(obj.cls, type) and issubclass(obj.cls, list):
        return obj.fields.setdefault("__list__", [])
    return None


def dictobj(obj):
    """python dict behind an SObj whose class subclasses dict (fields['__dict__'])"""
    if isinstance(obj, SObj) and isinstance(obj.cls, type) and issubclass(obj.cls, dict):
        return obj.fields.setdefault("__dictdata__", {})
    return None


def subscript(I, obj, idx):
    lo_ = listobj(obj)
    if lo_ is not None:
        return subscript(I, lo_, idx)
    do_ = dictobj(obj)
    if do_ is not None and I.class_attr(obj.cls, "__getitem__") is dict.__getitem__:
        return subscript(I, do_, idx)
    if isinstance(obj, Opaque):
        return Opaque(obj.name + "[]")
    if isinstance(idx, Opaque):
        raise Undecided("opaque index")
    if isinstance(obj, (list, tuple, bytes, str, range)):
        if isinstance(idx, slice):
            if all(x is None or isinstance(x, int) for x in (idx.start, idx.stop, idx.step)):
                return obj[idx]
            if isinstance(obj, (bytes, str)):
                return subscript(I, as_sstr(obj), idx)
            return ext().sym_slice_list(I, obj, idx)
        if isinstance(idx, (int, bool)):
            try:
                return obj[idx]
            except IndexError as e:
                raise PyRaise(e, IndexError)
        if is_sym_int(idx):
            return ext().sym_index_list(I, obj, idx)
        raise Undecided("index %r" % (idx,))
    if isinstance(obj, dict):
        return ext().dict_get(I, obj, idx)
    if isinstance(obj, SStr):
        n = len_of(I, obj)
        if I.cfg.get("rope"):
            from . import models_str as S
            rp = S.rope_of(I, obj)
            if rp is not None:
                if isinstance(idx, slice) and idx.step in (None, 1):
                    lo_, hi_ = (0 if idx.start is None else idx.start), (n if idx.stop is None else idx.stop)
                    if isinstance(lo_, int) and lo_ < 0:
                        lo_ = norm_int(to_z3_int(n) + lo_)
                    if isinstance(hi_, int) and hi_ < 0:
                        hi_ = norm_int(to_z3_int(n) + hi_)
                    r = S.rope_slice(I, rp, lo_, hi_)
                    if r is not None:
                        return S.plain_or_sstr(z3.simplify(S.parts_term(r)), obj.is_bytes)
                elif not isinstance(idx, slice):
                    loc = S.rope_locate(I, rp, idx)
                    if loc is not None and loc[0] < len(rp) and rp[loc[0]][0] == "lit":
                        c = rp[loc[0]][1][loc[1]]
                        return ord(c) if obj.is_bytes else c
        if isinstance(idx, slice):
            lo, hi = slice_bounds(I, idx, n)
            kl = (hi - lo) if isinstance(lo, int) and isinstance(hi, int) else None
            return SStr(z3.SubString(obj.term, to_z3_int(lo), norm_int(to_z3_int(hi) - to_z3_int(lo))), obj.is_bytes, kl)
        i = idx
        if I.path.branch(z3.Or(to_z3_int(i) >= to_z3_int(n), to_z3_int(i) < -to_z3_int(n))):
            raise PyRaise(IndexError("string index out of range"), IndexError)
        zi = z3.If(to_z3_int(i) < 0, to_z3_int(i) + to_z3_int(n), to_z3_int(i))
        ch = z3.SubString(obj.term, zi, 1)
        if obj.is_bytes:
            return norm_int(z3.StrToCode(ch))
        return SStr(ch, False)
    if isinstance(obj, SBytes):
        n = obj.length
        if isinstance(idx, slice):
            lo, hi = slice_bounds(I, idx, n)
            return sb_slice(obj, lo, hi)
        zi, zn = to_z3_int(idx), to_z3_int(n)
        if I.path.branch(z3.Or(zi >= zn, zi < -zn)):
            raise PyRaise(IndexError("index out of range"), IndexError)
        return norm_int(obj.at(z3.If(zi < 0, zi + zn, zi)))
    if isinstance(obj, SList):
        if isinstance(idx, slice):
            raise Undecided("slice of symbolic list")
        zi, zn = to_z3_int(idx), to_z3_int(obj.length)
        if I.path.branch(z3.Or(zi >= zn, zi < -zn)):
            raise PyRaise(IndexError("list index out of range"), IndexError)
        return obj.elem(norm_int(z3.If(zi < 0, zi + zn, zi)))
    if isinstance(obj, SObj):
        f = I.class_attr(obj.cls, "__getitem__")
        if f is not None:
            return I.call_value(I.bind(f, obj), [idx], {})
    r = ext().subscript_model(I, obj, idx)
    if r is not NotImplemented:
        return r
    raise Undecided("subscript of %r" % (obj,))


def store_subscript(I, obj, idx, val):
    lo_ = listobj(obj)
    if lo_ is not None:
        return store_subscript(I, lo_, idx, val)
    do_ = dictobj(obj)
    if do_ is not None and I.class_attr(obj.cls, "__setitem__") is dict.__setitem__:
        return store_subscript(I, do_, idx, val)
    if isinstance(obj, dict):
        return ext().dict_set(I, obj, idx, val)
    if isinstance(obj, list):
        if isinstance(idx, int):
            try:
                obj[idx] = val
            except IndexError as e:
                raise PyRaise(e, IndexError)
            return
        if isinstance(idx, slice) and all(x is None or isinstance(x, int) for x in (idx.start, idx.stop, idx.step)):
            obj[idx] = I.iterate(val)
            return
        if is_sym_int(idx):
            return ext().sym_store_list(I, obj, idx, val)
        if isinstance(idx, (tuple, str, bytes, float, type(None))):
            e = TypeError("list indices must be integers or slices, not %s" % type(idx).__name__)
            raise PyRaise(e, TypeError)
    if isinstance(obj, SObj):
        f = I.class_attr(obj.cls, "__setitem__")
        if f is not None:
            return I.call_value(I.bind(f, obj), [idx, val], {})
    r = ext().store_subscript_model(I, obj, idx, val)
    if r is not NotImplemented:
        return r
    raise Undecided("store subscript on %r" % (obj,))


def del_subscript(I, obj, idx):
    if dictobj(obj) is not None:
        return del_subscript(I, dictobj(obj), idx)
    if isinstance(obj, dict):
        return ext().dict_del(I, obj, idx)
    if isinstance(obj, list) and isinstance(idx, (int, slice)):
        del obj[idx]
        return
    raise Undecided("del subscript on %r" % (obj,))


# ------------------------------------------------------------------ delegations to models_ext

def build_table():
    return ext().build_table()


def attr_model(I, obj, name):
    return ext().attr_model(I, obj, name)


def setattr_model(I, obj, name, val):
    return ext().setattr_model(I, obj, name, val)


def class_model(I, cls, args, kwargs):
    return ext().class_model(I, cls, args, kwargs)


def attrs_init(I, cls, obj, args, kwargs):
    return ext().attrs_init(I, cls, obj, args, kwargs)


def is_file(v):
    return ext().is_file(v)


def ctx_enter(I, cm):
    return ext().ctx_enter(I, cm)


def ctx_exit(I, cm, exc):
    return ext().ctx_exit(I, cm, exc)


def make_generator(I, clo, env):
    return ext().make_generator(I, clo, env)


def on_yield(I, n, env, globs):
    return ext().on_yield(I, n, env, globs)


def make_set(I, items):
    return ext().make_set(I, items)


def make_super(I, n, env):
    return ext().make_super(I, n, env)


def iterate(I, v, lazy):
    return ext().iterate(I, v, lazy)


def live_passthrough_iter(I, v):
    """an object whose __iter__ is exactly `for x in self.<attr>: yield x` iterates that list lazily in CPython: return the
    list itself so that the consuming loop sees edits made to it meanwhile (generators are otherwise materialised eagerly)"""
    import ast as _ast
    f = I.class_attr(v.cls, "__iter__")
    node = getattr(f, "node", None)
    if node is None:
        try:
            import inspect
            import textwrap
            node = _ast.parse(textwrap.dedent(inspect.getsource(f))).body[0]
        except Exception:       # noqa
            return None
    body = [b for b in node.body if not (isinstance(b, _ast.Expr) and isinstance(getattr(b, "value", None), _ast.Constant))]
    if len(body) != 1 or not isinstance(body[0], _ast.For):
        return None
    loop = body[0]
    if not (isinstance(loop.iter, _ast.Attribute) and isinstance(loop.iter.value, _ast.Name) and loop.iter.value.id == "self" and isinstance(loop.target, _ast.Name)):
        return None
    if len(loop.body) != 1 or not isinstance(loop.body[0], _ast.Expr) or not isinstance(loop.body[0].value, _ast.Yield):
        return None
    y = loop.body[0].value.value
    if not (isinstance(y, _ast.Name) and y.id == loop.target.id) or loop.orelse:
        return None
    lst = v.fields.get(loop.iter.attr)
    return lst if isinstance(lst, list) else None


def inv_for(I, st, env, globs, clo, spec, it):
    return ext().inv_for(I, st, env, globs, clo, spec, it)


def loop_step(I, st, env):
    return ext().loop_step(I, st, env)
