"""pyvc symbolic executor: interprets the real function ASTs from /repo (DESIGN.md 2).

Path exploration is by re-execution with a decision log: `Path.branch(cond)`
returns a concrete bool; untaken feasible alternatives are queued by the
explorer.  All values are concrete Python values or the symbolic values of
values.py.
"""
import ast
import builtins
import inspect
import os
import sys
import types
import z3

from .values import *  # noqa
from . import values as V

# ------------------------------------------------------------------ source cache

_ast_cache = {}


def parse_file(path):
    path = os.path.realpath(path)
    if path not in _ast_cache:
        with open(path, "rb") as f:
            src = f.read().decode("utf-8")
        tree = ast.parse(src, filename=path)
        for node in ast.walk(tree):
            for ch in ast.iter_child_nodes(node):
                ch._parent = node
        _ast_cache[path] = (tree, src)
    return _ast_cache[path]


def find_def(path, qualname):
    """Locate a FunctionDef/ClassDef by dotted path; nested functions as
    Outer.method.<locals>.inner or Outer.method.inner."""
    tree, src = parse_file(path)
    parts = [p for p in qualname.split(".") if p != "<locals>"]
    node = tree
    for p in parts:
        found = None
        body = node.body
        # search nested statements too (defs inside if/try/with blocks)
        stack = list(body)
        while stack:
            st = stack.pop(0)
            if isinstance(st, (ast.FunctionDef, ast.AsyncFunctionDef, ast.ClassDef)):
                if st.name == p:
                    found = st
                    break
                continue
            for fld in ("body", "orelse", "finalbody", "handlers"):
                sub = getattr(st, fld, None)
                if isinstance(sub, list):
                    stack.extend(x for x in sub if isinstance(x, ast.AST))
        if found is None:
            raise KeyError("cannot find %s in %s" % (qualname, path))
        node = found
    return node


def source_of(path, node):
    tree, src = parse_file(path)
    return ast.get_source_segment(src, node)


def funcdef_for_real(fn):
    """AST FunctionDef of a real python function object, or None."""
    fn = inspect.unwrap(fn)
    code = getattr(fn, "__code__", None)
    if code is None:
        return None, None
    path = code.co_filename
    if not os.path.exists(path):
        return None, None
    tree, _ = parse_file(path)
    first = code.co_firstlineno
    for node in ast.walk(tree):
        if isinstance(node, (ast.FunctionDef, ast.AsyncFunctionDef, ast.Lambda)):
            lines = [getattr(node, "lineno", -1)] + [d.lineno for d in getattr(node, "decorator_list", [])]
            if first in lines and (isinstance(node, ast.Lambda) or node.name == code.co_name):
                return node, path
    return None, None


# ------------------------------------------------------------------ runtime objects


class Closure(object):
    def __init__(self, node, env, globs, qualname, path=None, cls=None):
        self.node = node          # FunctionDef or Lambda
        self.env = env            # enclosing Env (or None)
        self.globs = globs        # real module __dict__
        self.qualname = qualname
        self.path = path
        self.cls = cls            # defining class (for super())

    def __repr__(self):
        return "<Closure %s>" % self.qualname


class BoundMethod(object):
    def __init__(self, fn, self_obj):
        self.fn = fn
        self.self_obj = self_obj

    def __repr__(self):
        return "<Bound %r of %r>" % (self.fn, self.self_obj)


class SuperObj(object):
    """super(cls, obj): attribute lookup continues after `cls` in obj's MRO"""

    def __init__(self, cls, obj):
        self.cls = cls
        self.obj = obj


class ModelFn(object):
    """A trusted model: python callable (interp, args, kwargs) -> value."""

    def __init__(self, name, fn):
        self.name = name
        self.fn = fn

    def __repr__(self):
        return "<Model %s>" % self.name


class Env(object):
    def __init__(self, parent=None):
        self.vars = {}
        self.parent = parent
        self.globals_decl = set()
        self.nonlocal_decl = set()

    def lookup(self, name):
        e = self
        while e is not None:
            if name in e.vars:
                return e.vars[name]
            e = e.parent
        raise KeyError(name)

    def has(self, name):
        e = self
        while e is not None:
            if name in e.vars:
                return True
            e = e.parent
        return False

    def set(self, name, val):
        if name in self.nonlocal_decl:
            e = self.parent
            while e is not None:
                if name in e.vars:
                    e.vars[name] = val
                    return
                e = e.parent
        self.vars[name] = val


class ReturnSig(Exception):
    def __init__(self, value):
        self.value = value


class BreakSig(Exception):
    pass


class ContinueSig(Exception):
    pass


class Obligation(object):
    def __init__(self, name, hyps, goal, kind="ensures", where=None):
        self.name = name
        self.hyps = hyps
        self.goal = goal
        self.kind = kind
        self.where = where


class Path(object):
    """One execution path: decisions, path condition, obligations."""

    def __init__(self, decisions, feas_timeout_ms=2000):
        self.decisions = list(decisions)
        self.trace = []
        self.pending = []
        self.pc = []
        self.obligations = []
        self.assumed = []      # (label, formula) for the assumption scan
        self.notes = []
        self.solver = z3.Solver()
        self.solver.set("timeout", feas_timeout_ms)
        self.sym_branches = 0

    # -- assumptions
    def assume(self, f, label=None):
        f = norm_bool(f)
        if f is True:
            return
        if f is False:
            raise PathEnd()
        self.pc.append(f)
        self.solver.add(f)
        if label:
            self.assumed.append((label, f))

    def fact(self, f, label):
        """model fact (trusted)."""
        self.assume(f, label)

    def feasible(self, f):
        r = self.solver.check(f)
        return r != z3.unsat

    def check(self, goal, name, kind="ensures", where=None):
        goal = norm_bool(goal)
        if goal is True:
            self.obligations.append(Obligation(name, list(self.pc), z3.BoolVal(True), kind, where))
            return
        if goal is False:
            goal = z3.BoolVal(False)
        self.obligations.append(Obligation(name, list(self.pc), goal, kind, where))

    def _decide(self, n_alt, feas):
        """generic decision point: feas is a list of callables/None -> bool"""
        k = len(self.trace)
        if k < len(self.decisions):
            d = self.decisions[k]
            self.trace.append(d)
            return d
        ok = [i for i in range(n_alt) if feas[i]()]
        if not ok:
            raise PathEnd()
        d = ok[0]
        for alt in ok[1:]:
            self.pending.append(self.trace + [alt])
        self.trace.append(d)
        return d

    def branch(self, cond):
        cond = norm_bool(cond)
        if isinstance(cond, bool):
            return cond
        self.sym_branches += 1
        d = self._decide(2, [lambda: self.feasible(z3.Not(cond)), lambda: self.feasible(cond)])
        if d == 1:
            self.assume(cond)
            return True
        self.assume(z3.Not(cond))
        return False

    def choose(self, n):
        return self._decide(n, [lambda: True] * n)


class LoopInv(object):
    """Inductive invariant for a loop, keyed by (function qualname, ordinal).
    inv(interp, env) -> z3 Bool.  havoc: names to havoc (None = assigned names),
    havoc_extra(interp, env): callable to havoc heap state (files, fields)."""

    def __init__(self, inv, havoc=None, havoc_extra=None, fresh=None, header=None):
        self.inv = inv
        self.havoc = havoc
        self.havoc_extra = havoc_extra
        self.fresh = fresh or {}
        self.header = header


# ------------------------------------------------------------------ the interpreter

EFFECT_FREE_NAMES = {"log", "msg", "_log", "log_msg", "noisy"}


def _live(lst):
    """iterate a python list the way CPython does: by index, looking at the list as it is at each step"""
    i = 0
    while i < len(lst):
        yield lst[i]
        i += 1


class Interp(object):
    def __init__(self, path, config=None):
        self.path = path
        self.cfg = config or {}
        self.overrides = dict(self.cfg.get("overrides", {}))   # qualname or real obj id -> handler
        self.loop_invs = dict(self.cfg.get("loop_invs", {}))
        self.effect_free = set(self.cfg.get("effect_free", ())) | EFFECT_FREE_NAMES
        self.max_unroll = self.cfg.get("max_unroll", 64)
        self.call_depth = 0
        self.disk = {}
        self.ghost = {}
        self.call_log = []
        from . import models
        self.models = models
        self.model_table = models.build_table()
        self.inline_ok = self.cfg.get("inline_ok", None)
        self.loop_counter = {}

    # ---------------------------------------------------------- truthiness / bool
    def truthy(self, v):
        if isinstance(v, bool):
            return v
        if v is None:
            return False
        if is_sym_bool(v):
            return self.path.branch(v)
        if isinstance(v, int):
            return v != 0
        if is_sym_int(v):
            return self.path.branch(v != 0)
        if isinstance(v, (bytes, str, list, tuple, dict, set, frozenset)):
            return len(v) > 0
        if isinstance(v, SStr):
            if v.known_len is not None:
                return self.truthy(v.known_len)
            return self.path.branch(z3.Length(v.term) > 0)
        if isinstance(v, SHash):
            return v.nbytes > 0
        if isinstance(v, SBytes):
            return self.truthy(self.len_of(v) if not isinstance(v.length, int) else v.length)
        if isinstance(v, SList):
            return self.truthy(v.length)
        if isinstance(v, SObj) and self.models.listobj(v) is not None:
            return len(self.models.listobj(v)) > 0
        if isinstance(v, SObj) and self.models.dictobj(v) is not None:
            return len(self.models.dictobj(v)) > 0
        if isinstance(v, SObj):
            lenf = self.class_attr(v.cls, "__len__")
            if lenf is not None:
                return self.truthy(self.call_value(self.bind(lenf, v), [], {}))
            boolf = self.class_attr(v.cls, "__bool__")
            if boolf is not None:
                return self.truthy(self.call_value(self.bind(boolf, v), [], {}))
            return True
        if isinstance(v, (Closure, BoundMethod, ModelFn)):
            return True
        if isinstance(v, Opaque):
            raise Undecided("branch on opaque value %s" % v.name)
        return bool(v)

    def as_cond(self, v):
        """value -> z3 Bool / python bool without branching (for contracts)."""
        if isinstance(v, bool) or is_sym_bool(v):
            return v
        if is_intlike(v):
            return to_z3_int(v) != 0
        if v is None:
            return False
        raise Undecided("as_cond %r" % (v,))

    # ---------------------------------------------------------- names
    def lookup_name(self, name, env, globs):
        try:
            return env.lookup(name)
        except KeyError:
            pass
        if name in globs:
            return globs[name]
        if hasattr(builtins, name):
            return getattr(builtins, name)
        raise PyRaise(NameError(name), NameError)

    # ---------------------------------------------------------- class helpers
    def class_attr(self, cls, name):
        if not isinstance(cls, type):
            return None
        try:
            return inspect.getattr_static(cls, name)
        except AttributeError:
            return None

    def bind(self, raw, obj, cls=None):
        """bind a raw class attribute (function/staticmethod/...) to obj"""
        if isinstance(raw, staticmethod):
            return raw.__func__
        if isinstance(raw, classmethod):
            return BoundMethod(raw.__func__, cls if cls is not None else obj.cls)
        if isinstance(raw, (types.FunctionType, Closure, ModelFn)):
            return BoundMethod(raw, obj)
        if isinstance(raw, types.WrapperDescriptorType) and raw in (dict.__init__, dict.__setitem__, dict.__delitem__):
            return BoundMethod(raw, obj)
        return raw

    def get_attr(self, obj, name, where=None):
        if isinstance(obj, SuperObj):
            mro = obj.obj.cls.__mro__
            idx = mro.index(obj.cls)
            for k in mro[idx + 1:]:
                if name in k.__dict__:
                    raw = k.__dict__[name]
                    if type(raw).__name__ == "_ProxyDescriptor":
                        return self.get_attr(self.get_attr(obj.obj, raw.originalAttribute), raw.attributeName)
                    if isinstance(raw, property):
                        return self.call_value(BoundMethod(raw.fget, obj.obj), [], {})
                    return self.bind(raw, obj.obj)
            raise PyRaise(AttributeError(name), AttributeError)
        if isinstance(obj, SObj):
            if name == "__class__":
                return obj.cls
            raw = self.class_attr(obj.cls, name)
            if isinstance(raw, property):
                return self.call_value(BoundMethod(raw.fget, obj), [], {})
            if type(raw).__name__ == "_ProxyDescriptor" and name not in obj.fields:
                # twisted.python.components.proxyForInterface: forward to the wrapped object
                return self.get_attr(self.get_attr(obj, raw.originalAttribute), raw.attributeName)
            if name in obj.fields:
                return obj.fields[name]
            if raw is not None and not isinstance(raw, (types.FunctionType, staticmethod, classmethod, property)):
                # a method inherited from builtin dict / list: delegate to the underlying container
                under = self.models.dictobj(obj) if self.models.dictobj(obj) is not None else self.models.listobj(obj)
                if under is not None:
                    h = self.models.attr_model(self, under, name)
                    if h is not NotImplemented:
                        return h
            if raw is not None:
                return self.bind(raw, obj)
            key = ("getattr", getattr(obj.cls, "__name__", str(obj.cls)), name)
            if key in self.overrides:
                return self.overrides[key](self, obj)
            return Opaque("%s.%s" % (obj.name, name))
        if isinstance(obj, Opaque):
            return Opaque("%s.%s" % (obj.name, name))
        h = self.models.attr_model(self, obj, name)
        if h is not NotImplemented:
            return h
        if isinstance(obj, (SStr, SBytes, SList)) or is_intlike(obj):
            raise Undecided("attribute %s of symbolic %r" % (name, obj))
        # real python object (module, class, concrete value)
        try:
            val = getattr(obj, name)
        except AttributeError:
            raise PyRaise(AttributeError(name), AttributeError)
        return val

    def set_attr(self, obj, name, val):
        if isinstance(obj, SObj):
            obj.fields[name] = val
            return
        if isinstance(obj, Opaque):
            raise Undecided("store to attribute of opaque %s.%s" % (obj.name, name))
        h = self.models.setattr_model(self, obj, name, val)
        if h is NotImplemented:
            raise Undecided("store to attribute %s of %r" % (name, obj))

    # ---------------------------------------------------------- calls
    def qual_of(self, fn):
        if isinstance(fn, Closure):
            return fn.qualname
        if isinstance(fn, BoundMethod):
            return self.qual_of(fn.fn)
        q = getattr(fn, "__qualname__", None)
        m = getattr(fn, "__module__", None)
        if q is None:
            return repr(fn)
        return "%s.%s" % (m, q) if m else q

    def call_value(self, fn, args, kwargs, where=None):
        self.call_depth += 1
        if self.call_depth > 60:
            raise Undecided("call depth exceeded")
        try:
            return self._call_value(fn, args, kwargs, where)
        finally:
            self.call_depth -= 1

    def _call_value(self, fn, args, kwargs, where):
        if isinstance(fn, BoundMethod):
            qual = self.qual_of(fn.fn)
            short = qual.split(".")[-1]
            for key in (qual, ".".join(qual.split(".")[-2:])):
                if key in self.overrides:
                    return self.overrides[key](self, [fn.self_obj] + list(args), kwargs)
            return self._call_value(fn.fn, [fn.self_obj] + list(args), kwargs, where)
        if isinstance(fn, Closure):
            for key in (fn.qualname, ".".join(fn.qualname.split(".")[-2:])):
                if key in self.overrides:
                    return self.overrides[key](self, list(args), kwargs)
            return self.call_closure(fn, args, kwargs)
        if isinstance(fn, ModelFn):
            return fn.fn(self, list(args), kwargs)
        if isinstance(fn, Opaque):
            return self.opaque_call(fn, args, kwargs)
        if type(fn).__name__ == "_ProxiedClassMethod":
            original = self.get_attr(args[0], fn.originalAttribute)
            return self.call_value(self.get_attr(original, fn.methodName), list(args[1:]), kwargs)
        if type(fn).__name__ == "InterfaceClass" and len(args) >= 1 and isinstance(args[0], SObj):
            return args[0]      # zope adaptation IFoo(obj): modelled objects are assumed to provide the interface asked for
        if isinstance(fn, SuperObj):
            raise Undecided("call of super object")
        if isinstance(fn, SObj):
            callf = self.class_attr(fn.cls, "__call__")
            if callf is not None:
                return self.call_value(self.bind(callf, fn), args, kwargs)
            raise Undecided("call of non-callable object %r" % fn)
        # real python callable
        qual = self.qual_of(fn)
        for key in (qual, ".".join(qual.split(".")[-2:])):
            if key in self.overrides:
                if isinstance(fn, types.MethodType):      # bound (class)method of a real object: self/cls first
                    return self.overrides[key](self, [fn.__self__] + list(args), kwargs)
                return self.overrides[key](self, list(args), kwargs)
        try:
            h = self.model_table.get(fn)
        except TypeError:
            h = None
        if h is not None:
            return h(self, list(args), kwargs)
        if isinstance(fn, type):
            return self.instantiate(fn, args, kwargs)
        if getattr(fn, "__name__", None) == "providedBy" and hasattr(getattr(fn, "__self__", None), "implementedBy") \
                and len(args) == 1 and isinstance(args[0], SObj) and isinstance(args[0].cls, type):
            return bool(fn.__self__.implementedBy(args[0].cls))     # zope.interface on a modelled instance
        if getattr(fn, "__name__", None) == "providedBy" and hasattr(getattr(fn, "__self__", None), "implementedBy") \
                and len(args) == 1 and not isinstance(args[0], (SObj, SStr, SBytes, SHash, SList, Opaque, z3.ExprRef)):
            return bool(fn(args[0]))                                # zope.interface on a real python object
        if isinstance(fn, types.MethodType) and (type(fn.__self__).__module__ or "").split(".")[0] == "eliot":
            return Opaque("eliot")      # logging actions/contexts: no effect on program state
        if isinstance(fn, types.MethodType):
            # bound method of a real object: python-source methods are interpreted with the real object as self
            f0 = fn.__func__
            if isinstance(f0, types.FunctionType) and not (all(self.is_plain(a) for a in args) and self.is_plain(fn.__self__)):
                node, path = funcdef_for_real(f0)
                if node is not None and self.may_inline(f0, path):
                    clo = Closure(node, None, inspect.unwrap(f0).__globals__, self.qual_of(f0), path)
                    return self.call_closure(clo, [fn.__self__] + list(args), kwargs)
            return self.native_call(fn, args, kwargs)
        if isinstance(fn, types.FunctionType):
            node, path = funcdef_for_real(fn)
            if node is not None and self.may_inline(fn, path):
                clo = Closure(node, None, inspect.unwrap(fn).__globals__, self.qual_of(fn), path)
                return self.call_closure(clo, args, kwargs)
            if all(self.is_plain(a) for a in args) and all(self.is_plain(a) for a in kwargs.values()):
                return self.native_call(fn, args, kwargs)
            return self.opaque_call(Opaque(qual), args, kwargs)
        return self.native_call(fn, args, kwargs)

    def may_inline(self, fn, path):
        if self.inline_ok is not None:
            return self.inline_ok(fn, path)
        p = os.path.realpath(path)
        return "/allmydata/" in p or "/pyutil/" in p or "/verif/shims/" in p

    def is_plain(self, v):
        if v is None or isinstance(v, (int, float, str, bytes, bool, type(Ellipsis))):
            return True
        if isinstance(v, (tuple, list, frozenset, set)):
            return all(self.is_plain(x) for x in v)
        if isinstance(v, dict):
            return all(self.is_plain(k) and self.is_plain(x) for k, x in v.items())
        if isinstance(v, (types.ModuleType, type, types.FunctionType, types.BuiltinFunctionType)):
            return True
        return False

    def native_call(self, fn, args, kwargs):
        if all(self.is_plain(a) for a in args) and all(self.is_plain(a) for a in kwargs.values()):
            owner = getattr(fn, "__self__", None)
            if owner is None or self.is_plain(owner) or isinstance(owner, types.ModuleType):
                try:
                    return fn(*args, **kwargs)
                except Exception as e:  # a concrete python exception
                    raise PyRaise(e, type(e))
        raise Undecided("call of unmodelled %s with symbolic arguments" % self.qual_of(fn))

    def opaque_call(self, fn, args, kwargs):
        short = fn.name.split(".")[-1]
        mutable = [a for a in list(args) + list(kwargs.values())
                   if isinstance(a, (SObj, list, dict, set)) or self.models.is_file(a)]
        if mutable and short not in self.effect_free:
            raise Undecided("call of unmodelled %s may mutate %r" % (fn.name, mutable[:2]))
        self.path.notes.append("opaque-call " + fn.name)
        return Opaque(fn.name + "()")

    def instantiate(self, cls, args, kwargs):
        if issubclass(cls, BaseException):
            obj = SObj(cls, {"args": tuple(args)})
            init = self.class_attr(cls, "__init__")
            if isinstance(init, types.FunctionType) and self._has_source(init):
                self.call_value(BoundMethod(init, obj), args, kwargs)
            return obj
        h = self.models.class_model(self, cls, args, kwargs)
        if h is not NotImplemented:
            return h
        obj = SObj(cls)
        init = self.class_attr(cls, "__init__")
        if getattr(cls, "__attrs_attrs__", None) is not None and not self._has_source(init):
            return self.models.attrs_init(self, cls, obj, args, kwargs)
        if isinstance(init, types.FunctionType):
            self.call_value(BoundMethod(init, obj), args, kwargs)
        elif init is dict.__init__ and issubclass(cls, dict):
            if args:
                src = args[0]
                for k in (self.iterate(src) if not isinstance(src, dict) else src.keys()):
                    if isinstance(src, dict):
                        self.store_subscript(self.models.dictobj(obj), k, src[k])
                    else:
                        self.store_subscript(self.models.dictobj(obj), k[0], k[1])
            self.models.dictobj(obj)
        elif init is list.__init__ and issubclass(cls, list):
            self.models.listobj(obj).extend(self.iterate(args[0]) if args else [])
        elif init is not object.__init__ and init is not None:
            raise Undecided("constructor of %s" % cls.__name__)
        return obj

    def _has_source(self, fn):
        if not isinstance(fn, types.FunctionType):
            return False
        node, path = funcdef_for_real(fn)
        return node is not None

    def bind_args(self, node_args, args, kwargs, env, globs, defaults_env):
        a = node_args
        pos = list(a.posonlyargs) + list(a.args)
        names = [p.arg for p in pos]
        ndef = len(a.defaults)
        vals = {}
        args = list(args)
        if len(args) > len(pos) and a.vararg is None:
            raise PyRaise(TypeError("too many positional arguments"), TypeError)
        for i, p in enumerate(pos):
            if i < len(args):
                vals[p.arg] = args[i]
        if a.vararg is not None:
            vals[a.vararg.arg] = tuple(args[len(pos):])
        kw = dict(kwargs)
        for p in pos:
            if p.arg in kw:
                if p.arg in vals:
                    raise PyRaise(TypeError("multiple values for " + p.arg), TypeError)
                vals[p.arg] = kw.pop(p.arg)
        for i, p in enumerate(pos):
            if p.arg not in vals:
                di = i - (len(pos) - ndef)
                if di >= 0:
                    vals[p.arg] = self.eval(a.defaults[di], defaults_env, globs)
                else:
                    raise PyRaise(TypeError("missing argument " + p.arg), TypeError)
        for p, d in zip(a.kwonlyargs, a.kw_defaults):
            if p.arg in kw:
                vals[p.arg] = kw.pop(p.arg)
            elif d is not None:
                vals[p.arg] = self.eval(d, defaults_env, globs)
            else:
                raise PyRaise(TypeError("missing kw argument " + p.arg), TypeError)
        if a.kwarg is not None:
            vals[a.kwarg.arg] = kw
        elif kw:
            raise PyRaise(TypeError("unexpected keyword %s" % list(kw)), TypeError)
        return vals

    def call_closure(self, clo, args, kwargs):
        node = clo.node
        env = Env(clo.env)
        defaults_env = clo.env if clo.env is not None else Env()
        vals = self.bind_args(node.args, args, kwargs, env, clo.globs, defaults_env)
        env.vars.update(vals)
        env._closure = clo
        if isinstance(node, ast.Lambda):
            return self.eval(node.body, env, clo.globs)
        if self._is_generator(node):
            return self.models.make_generator(self, clo, env)
        try:
            self.exec_block(node.body, env, clo.globs, clo)
        except ReturnSig as r:
            return r.value
        return None

    def _is_generator(self, node):
        if not hasattr(node, "_is_gen"):
            isgen = False
            stack = list(node.body)
            while stack:
                n = stack.pop()
                if isinstance(n, (ast.Yield, ast.YieldFrom)):
                    isgen = True
                    break
                if isinstance(n, (ast.FunctionDef, ast.AsyncFunctionDef, ast.Lambda, ast.ClassDef)):
                    continue
                stack.extend(ast.iter_child_nodes(n))
            node._is_gen = isgen
        return node._is_gen

    # ---------------------------------------------------------- statements
    def exec_block(self, stmts, env, globs, clo):
        for st in stmts:
            self.exec_stmt(st, env, globs, clo)

    def exec_stmt(self, st, env, globs, clo):
        m = getattr(self, "st_" + type(st).__name__, None)
        if m is None:
            raise Undecided("statement %s at line %d" % (type(st).__name__, st.lineno))
        return m(st, env, globs, clo)

    def st_Expr(self, st, env, globs, clo):
        if isinstance(st.value, ast.Constant):
            return
        self.eval(st.value, env, globs)

    def st_Pass(self, st, env, globs, clo):
        pass

    def st_Global(self, st, env, globs, clo):
        raise Undecided("global statement")

    def st_Nonlocal(self, st, env, globs, clo):
        env.nonlocal_decl.update(st.names)

    def st_Import(self, st, env, globs, clo):
        for al in st.names:
            mod = __import__(al.name)
            if al.asname:
                for part in al.name.split(".")[1:]:
                    mod = getattr(mod, part)
                env.set(al.asname, mod)
            else:
                env.set(al.name.split(".")[0], mod)

    def st_ImportFrom(self, st, env, globs, clo):
        import importlib
        pkg = globs.get("__package__")
        mod = importlib.import_module("." * st.level + (st.module or ""), pkg) if st.level else importlib.import_module(st.module)
        for al in st.names:
            env.set(al.asname or al.name, getattr(mod, al.name))

    def st_Assign(self, st, env, globs, clo):
        val = self.eval(st.value, env, globs)
        for t in st.targets:
            self.assign(t, val, env, globs)

    def st_AnnAssign(self, st, env, globs, clo):
        if st.value is not None:
            self.assign(st.target, self.eval(st.value, env, globs), env, globs)

    def st_AugAssign(self, st, env, globs, clo):
        t = st.target
        if isinstance(t, ast.Name):
            cur = self.lookup_name(t.id, env, globs)
            env.set(t.id, self.binop(st.op, cur, self.eval(st.value, env, globs), inplace=True))
        elif isinstance(t, ast.Attribute):
            obj = self.eval(t.value, env, globs)
            cur = self.get_attr(obj, t.attr)
            self.set_attr(obj, t.attr, self.binop(st.op, cur, self.eval(st.value, env, globs), inplace=True))
        elif isinstance(t, ast.Subscript):
            obj = self.eval(t.value, env, globs)
            idx = self.eval_index(t.slice, env, globs)
            cur = self.subscript(obj, idx)
            self.store_subscript(obj, idx, self.binop(st.op, cur, self.eval(st.value, env, globs), inplace=True))
        else:
            raise Undecided("augassign target")

    def assign(self, t, val, env, globs):
        if isinstance(t, ast.Name):
            env.set(t.id, val)
        elif isinstance(t, (ast.Tuple, ast.List)):
            items = self.iterate(val)
            starred = [i for i, e in enumerate(t.elts) if isinstance(e, ast.Starred)]
            if starred:
                i = starred[0]
                after = len(t.elts) - i - 1
                if len(items) < len(t.elts) - 1:
                    raise PyRaise(ValueError("not enough values to unpack"), ValueError)
                for e, v in zip(t.elts[:i], items[:i]):
                    self.assign(e, v, env, globs)
                self.assign(t.elts[i].value, list(items[i:len(items) - after]), env, globs)
                for e, v in zip(t.elts[i + 1:], items[len(items) - after:]):
                    self.assign(e, v, env, globs)
                return
            if len(items) != len(t.elts):
                raise PyRaise(ValueError("unpack: expected %d values, got %d" % (len(t.elts), len(items))), ValueError)
            for e, v in zip(t.elts, items):
                self.assign(e, v, env, globs)
        elif isinstance(t, ast.Attribute):
            self.set_attr(self.eval(t.value, env, globs), t.attr, val)
        elif isinstance(t, ast.Subscript):
            obj = self.eval(t.value, env, globs)
            self.store_subscript(obj, self.eval_index(t.slice, env, globs), val)
        else:
            raise Undecided("assignment target %s" % type(t).__name__)

    def st_Delete(self, st, env, globs, clo):
        for t in st.targets:
            if isinstance(t, ast.Name):
                e = env
                while e is not None and t.id not in e.vars:
                    e = e.parent
                if e is not None:
                    del e.vars[t.id]
            elif isinstance(t, ast.Subscript):
                obj = self.eval(t.value, env, globs)
                idx = self.eval_index(t.slice, env, globs)
                self.del_subscript(obj, idx)
            elif isinstance(t, ast.Attribute):
                obj = self.eval(t.value, env, globs)
                if isinstance(obj, SObj):
                    obj.fields.pop(t.attr, None)
                else:
                    raise Undecided("del attribute")
            else:
                raise Undecided("del target")

    def st_Return(self, st, env, globs, clo):
        raise ReturnSig(self.eval(st.value, env, globs) if st.value is not None else None)

    def st_Break(self, st, env, globs, clo):
        raise BreakSig()

    def st_Continue(self, st, env, globs, clo):
        raise ContinueSig()

    def st_If(self, st, env, globs, clo):
        if self.truthy(self.eval(st.test, env, globs)):
            self.exec_block(st.body, env, globs, clo)
        else:
            self.exec_block(st.orelse, env, globs, clo)

    def st_Assert(self, st, env, globs, clo):
        v = self.eval(st.test, env, globs)
        if isinstance(v, Opaque):
            self.path.notes.append("assert on opaque value skipped at line %d" % st.lineno)
            return
        if not self.truthy(v):
            raise PyRaise(SObj(AssertionError, {"args": ("line %d" % st.lineno,), "lineno": st.lineno}))

    def st_Raise(self, st, env, globs, clo):
        if st.exc is None:
            cur = getattr(self, "_current_exc", None)
            if cur is None:
                raise Undecided("bare raise outside handler")
            raise cur
        exc = self.eval(st.exc, env, globs)
        if isinstance(exc, type) and issubclass(exc, BaseException):
            exc = SObj(exc, {"args": ()})
        if isinstance(exc, SObj):
            exc.fields.setdefault("lineno", st.lineno)
            raise PyRaise(exc)
        if isinstance(exc, BaseException):
            raise PyRaise(exc, type(exc))
        raise Undecided("raise of %r" % (exc,))

    def exc_matches(self, pr, typ):
        if isinstance(typ, tuple):
            return any(self.exc_matches(pr, t) for t in typ)
        if isinstance(typ, type):
            return isinstance(pr.cls, type) and issubclass(pr.cls, typ)
        raise Undecided("except clause type %r" % (typ,))

    def st_Try(self, st, env, globs, clo):
        def run_finally():
            if st.finalbody:
                self.exec_block(st.finalbody, env, globs, clo)
        try:
            try:
                self.exec_block(st.body, env, globs, clo)
            except PyRaise as pr:
                for h in st.handlers:
                    if h.type is None or self.exc_matches(pr, self.eval(h.type, env, globs)):
                        if h.name:
                            env.set(h.name, pr.exc)
                        saved = getattr(self, "_current_exc", None)
                        self._current_exc = pr
                        try:
                            self.exec_block(h.body, env, globs, clo)
                        finally:
                            self._current_exc = saved
                        break
                else:
                    raise
            else:
                self.exec_block(st.orelse, env, globs, clo)
        except (PyRaise, ReturnSig, BreakSig, ContinueSig):
            run_finally()
            raise
        run_finally()

    def st_With(self, st, env, globs, clo):
        mgrs = []
        for item in st.items:
            cm = self.eval(item.context_expr, env, globs)
            val = self.models.ctx_enter(self, cm)
            mgrs.append(cm)
            if item.optional_vars is not None:
                self.assign(item.optional_vars, val, env, globs)
        try:
            self.exec_block(st.body, env, globs, clo)
        except (PyRaise, ReturnSig, BreakSig, ContinueSig):
            for cm in reversed(mgrs):
                self.models.ctx_exit(self, cm, True)
            raise
        for cm in reversed(mgrs):
            self.models.ctx_exit(self, cm, False)

    def st_FunctionDef(self, st, env, globs, clo):
        q = (clo.qualname + ".<locals>." if clo else "") + st.name
        c = Closure(st, env, globs, q, clo.path if clo else None)
        # decorators: dropped (DESIGN 2.1) except those the model table knows
        env.set(st.name, c)

    st_AsyncFunctionDef = st_FunctionDef

    def st_ClassDef(self, st, env, globs, clo):
        raise Undecided("nested class definition")

    # loops ---------------------------------------------------------
    def loop_key(self, st, clo):
        fn = clo.node if clo else None
        if fn is None:
            return (None, 0)
        if not hasattr(fn, "_loops"):
            loops = [n for n in ast.walk(fn) if isinstance(n, (ast.While, ast.For))]
            loops.sort(key=lambda n: (n.lineno, n.col_offset))
            fn._loops = loops
        short = ".".join(p for p in clo.qualname.split(".") if p != "<locals>")
        return (short, fn._loops.index(st))

    def find_inv(self, st, clo):
        short, k = self.loop_key(st, clo)
        if short is None:
            return None
        for key in ((short, k), (".".join(short.split(".")[-2:]), k), (short.split(".")[-1], k)):
            if key in self.loop_invs:
                return self.loop_invs[key]
        return None

    def assigned_names(self, body):
        names = set()
        for n in body:
            for x in ast.walk(n):
                if isinstance(x, ast.Name) and isinstance(x.ctx, (ast.Store, ast.Del)):
                    names.add(x.id)
        return names

    def fresh_like(self, v, name):
        if isinstance(v, bool) or is_sym_bool(v):
            return z3.Bool(fresh_name(name))
        if isinstance(v, int) or is_sym_int(v):
            return z3.Int(fresh_name(name))
        if isinstance(v, SStr) or isinstance(v, (bytes, str)):
            isb = v.is_bytes if isinstance(v, SStr) else isinstance(v, bytes)
            return SStr(z3.String(fresh_name(name)), isb)
        if isinstance(v, SBytes):
            return SBytes(z3.Array(fresh_name(name), IntS, IntS), z3.Int(fresh_name(name + "_len")))
        if isinstance(v, tuple):
            return tuple(self.fresh_like(x, name) for x in v)
        if v is None or isinstance(v, Opaque):
            return Opaque(name)
        raise Undecided("cannot havoc %s = %r" % (name, v))

    def run_inv_loop(self, st, env, globs, clo, spec, guard_fn, pre_body_fn):
        """Invariant-cut loop.  guard_fn() -> value of the loop guard in the
        current state; pre_body_fn() binds the loop variable(s) for `for`."""
        where = "%s:loop@%d" % (clo.qualname, st.lineno)
        self.path.check(spec.inv(self, env), "inv-entry:" + where, kind="invariant")
        names = spec.havoc if spec.havoc is not None else sorted(self.assigned_names(st.body + st.orelse))
        for n in names:
            if env.has(n):
                fresh = spec.fresh.get(n)
                env.set(n, fresh(self) if fresh else self.fresh_like(env.lookup(n), n))
        if spec.havoc_extra:
            spec.havoc_extra(self, env)
        self.path.assume(spec.inv(self, env), "loop-invariant-hyp:" + where)
        alt = self.path.choose(2)
        g = guard_fn()
        if alt == 0:
            # arbitrary iteration
            if not self.truthy(g):
                raise PathEnd()
            pre_body_fn()
            try:
                self.exec_block(st.body, env, globs, clo)
            except ContinueSig:
                pass
            except BreakSig:
                return  # leaves the loop in the state at the break
            self.models.loop_step(self, st, env)
            self.path.check(spec.inv(self, env), "inv-preserved:" + where, kind="invariant")
            raise PathEnd()
        else:
            if self.truthy(g):
                raise PathEnd()
            self.exec_block(st.orelse, env, globs, clo)

    def st_While(self, st, env, globs, clo):
        spec = self.find_inv(st, clo)
        if spec is not None:
            return self.run_inv_loop(st, env, globs, clo, spec,
                                     lambda: self.eval(st.test, env, globs), lambda: None)
        n = 0
        while True:
            if not self.truthy(self.eval(st.test, env, globs)):
                self.exec_block(st.orelse, env, globs, clo)
                return
            n += 1
            if n > self.max_unroll:
                raise Undecided("while loop at line %d needs an invariant (unrolled %d times)" % (st.lineno, n))
            try:
                self.exec_block(st.body, env, globs, clo)
            except BreakSig:
                return
            except ContinueSig:
                continue

    def st_For(self, st, env, globs, clo):
        it = self.eval(st.iter, env, globs)
        spec = self.find_inv(st, clo)
        if spec is not None:
            return self.models.inv_for(self, st, env, globs, clo, spec, it)
        items = self.iterate(it, lazy=True)
        if isinstance(it, list):
            items = _live(it)          # CPython iterates a list by live index: a body that edits the list shifts what comes next
        n = 0
        for x in items:
            n += 1
            if n > max(self.max_unroll, 4096 if isinstance(it, (range, list, tuple, dict, bytes, str)) else 0):
                raise Undecided("for loop at line %d too long to unroll" % st.lineno)
            self.assign(st.target, x, env, globs)
            try:
                self.exec_block(st.body, env, globs, clo)
            except BreakSig:
                return
            except ContinueSig:
                continue
        self.exec_block(st.orelse, env, globs, clo)

    def iterate(self, v, lazy=False):
        """value -> python list (or iterator) of element values; shape must be concrete."""
        if lazy and isinstance(v, SObj) and self.models.listobj(v) is None:
            lv = self.models.live_passthrough_iter(self, v)
            if lv is not None:
                return _live(lv)
        if isinstance(v, SObj) and self.models.listobj(v) is not None:
            return list(self.models.listobj(v))
        if isinstance(v, SObj) and self.models.dictobj(v) is not None:
            from .models_ext import unwrap_key
            return [unwrap_key(k) for k in self.models.dictobj(v).keys()]
        if isinstance(v, (list, tuple)):
            return list(v)
        if isinstance(v, (set, frozenset, dict)):
            from .models_ext import unwrap_key
            return [unwrap_key(k) for k in v]
        if isinstance(v, (range, bytes, str)):
            return list(v)
        r = self.models.iterate(self, v, lazy)
        if r is not NotImplemented:
            return r
        if isinstance(v, SBytes):
            n = concrete_int(v.length)
            if n is not None:
                return [v.at(i) for i in range(n)]
        if hasattr(v, "__iter__") and self.is_plain(v):
            return list(v)
        if isinstance(v, (types.GeneratorType, map, filter, zip, enumerate)) or type(v).__name__.endswith("iterator") \
                or type(v).__name__ in ("dict_keys", "dict_values", "dict_items", "reversed"):
            return list(v)
        raise Undecided("iteration over %r" % (v,))

    # ---------------------------------------------------------- expressions
    def eval(self, node, env, globs):
        m = getattr(self, "ex_" + type(node).__name__, None)
        if m is None:
            raise Undecided("expression %s at line %d" % (type(node).__name__, getattr(node, "lineno", -1)))
        return m(node, env, globs)

    def ex_Constant(self, n, env, globs):
        return n.value

    def ex_Name(self, n, env, globs):
        return self.lookup_name(n.id, env, globs)

    def ex_Tuple(self, n, env, globs):
        out = []
        for e in n.elts:
            if isinstance(e, ast.Starred):
                out.extend(self.iterate(self.eval(e.value, env, globs)))
            else:
                out.append(self.eval(e, env, globs))
        return tuple(out)

    def ex_List(self, n, env, globs):
        return list(self.ex_Tuple(n, env, globs))

    def ex_Set(self, n, env, globs):
        return self.models.make_set(self, [self.eval(e, env, globs) for e in n.elts])

    def ex_Dict(self, n, env, globs):
        d = {}
        for k, v in zip(n.keys, n.values):
            if k is None:
                d.update(self.eval(v, env, globs))
            else:
                self.store_subscript(d, self.eval(k, env, globs), self.eval(v, env, globs))
        return d

    def ex_Attribute(self, n, env, globs):
        return self.get_attr(self.eval(n.value, env, globs), n.attr, n)

    def ex_Lambda(self, n, env, globs):
        clo = getattr(env, "_closure", None)
        return Closure(n, env, globs, ((clo.qualname + ".<locals>.") if clo else "") + "<lambda>@%d" % n.lineno,
                       clo.path if clo else None)

    def ex_IfExp(self, n, env, globs):
        if self.truthy(self.eval(n.test, env, globs)):
            return self.eval(n.body, env, globs)
        return self.eval(n.orelse, env, globs)

    def ex_BoolOp(self, n, env, globs):
        # python semantics: returns an operand
        is_and = isinstance(n.op, ast.And)
        v = None
        for i, e in enumerate(n.values):
            v = self.eval(e, env, globs)
            if i == len(n.values) - 1:
                return v
            # keep pure boolean combos symbolic without forking when cheap
            t = self.truthy(v)
            if is_and and not t:
                return v
            if (not is_and) and t:
                return v
        return v

    def ex_UnaryOp(self, n, env, globs):
        v = self.eval(n.operand, env, globs)
        if isinstance(n.op, ast.Not):
            if isinstance(v, bool):
                return not v
            if is_sym_bool(v):
                return norm_bool(z3.Not(v))
            if isinstance(v, Opaque):
                return Opaque("not " + v.name)
            return not self.truthy(v)
        if isinstance(v, Opaque):
            return Opaque("unary " + v.name)
        if isinstance(n.op, ast.USub):
            if is_sym_int(v) or is_sym_bool(v):
                return norm_int(-to_z3_int(v))
            return -v
        if isinstance(n.op, ast.UAdd):
            return v
        if isinstance(n.op, ast.Invert):
            if isinstance(v, int):
                return ~v
            return norm_int(-to_z3_int(v) - 1)
        raise Undecided("unary op")

    def ex_BinOp(self, n, env, globs):
        return self.binop(n.op, self.eval(n.left, env, globs), self.eval(n.right, env, globs))

    def ex_Compare(self, n, env, globs):
        left = self.eval(n.left, env, globs)
        result = None
        for op, rn in zip(n.ops, n.comparators):
            right = self.eval(rn, env, globs)
            r = self.compare(op, left, right)
            if result is None:
                result = r
            else:
                if isinstance(result, Opaque) or isinstance(r, Opaque):
                    result = Opaque("cmp")
                else:
                    result = norm_bool(z3.And(to_z3_bool(result), to_z3_bool(r)))
            if result is False:
                return False
            left = right
        return result

    def ex_Call(self, n, env, globs):
        # super().__init__ etc.
        if isinstance(n.func, ast.Name) and n.func.id == "super" and not env.has("super"):
            return self.models.make_super(self, n, env)
        fn = self.eval(n.func, env, globs)
        args = []
        for a in n.args:
            if isinstance(a, ast.Starred):
                args.extend(self.iterate(self.eval(a.value, env, globs)))
            else:
                args.append(self.eval(a, env, globs))
        kwargs = {}
        for k in n.keywords:
            if k.arg is None:
                d = self.eval(k.value, env, globs)
                if not isinstance(d, dict):
                    raise Undecided("**kwargs of non-dict")
                kwargs.update(d)
            else:
                kwargs[k.arg] = self.eval(k.value, env, globs)
        self._call_node = n
        return self.call_value(fn, args, kwargs, n)

    def ex_Subscript(self, n, env, globs):
        obj = self.eval(n.value, env, globs)
        idx = self.eval_index(n.slice, env, globs)
        return self.subscript(obj, idx)

    def eval_index(self, s, env, globs):
        if isinstance(s, ast.Slice):
            return slice(self.eval(s.lower, env, globs) if s.lower else None,
                         self.eval(s.upper, env, globs) if s.upper else None,
                         self.eval(s.step, env, globs) if s.step else None)
        return self.eval(s, env, globs)

    def ex_JoinedStr(self, n, env, globs):
        parts = []
        for v in n.values:
            if isinstance(v, ast.Constant):
                parts.append(v.value)
            else:
                val = self.eval(v.value, env, globs)
                parts.append(self.models.to_str(self, val, "r" if v.conversion == 114 else "s"))
        return self.models.str_concat(self, parts, False)

    def ex_ListComp(self, n, env, globs):
        return self._comp(n, env, globs, lambda: [], lambda acc, e: acc.append(self.eval(e.elt, *e.ctx)))

    def _comp(self, n, env, globs, mk, add):
        acc = mk()
        inner = Env(env)
        inner._closure = getattr(env, "_closure", None)

        class E(object):
            pass
        e = E()
        e.elt = getattr(n, "elt", None)
        e.key = getattr(n, "key", None)
        e.value = getattr(n, "value", None)
        e.ctx = (inner, globs)

        def rec(i):
            if i == len(n.generators):
                add(acc, e)
                return
            g = n.generators[i]
            for x in self.iterate(self.eval(g.iter, inner if i else env, globs)):
                self.assign(g.target, x, inner, globs)
                if all(self.truthy(self.eval(c, inner, globs)) for c in g.ifs):
                    rec(i + 1)
        rec(0)
        return acc

    def ex_GeneratorExp(self, n, env, globs):
        return self.ex_ListComp(n, env, globs)

    def ex_SetComp(self, n, env, globs):
        return self.models.make_set(self, self.ex_ListComp(n, env, globs))

    def ex_DictComp(self, n, env, globs):
        def add(acc, e):
            self.store_subscript(acc, self.eval(e.key, *e.ctx), self.eval(e.value, *e.ctx))
        return self._comp(n, env, globs, lambda: {}, add)

    def ex_Yield(self, n, env, globs):
        return self.models.on_yield(self, n, env, globs)

    def ex_Await(self, n, env, globs):
        return self.models.on_yield(self, n, env, globs)

    def ex_Starred(self, n, env, globs):
        raise Undecided("starred expression")

    # ---------------------------------------------------------- operators
    def binop(self, op, a, b, inplace=False):
        return self.models.binop(self, op, a, b, inplace)

    def compare(self, op, a, b):
        return self.models.compare(self, op, a, b)

    def subscript(self, obj, idx):
        return self.models.subscript(self, obj, idx)

    def store_subscript(self, obj, idx, val):
        return self.models.store_subscript(self, obj, idx, val)

    def del_subscript(self, obj, idx):
        return self.models.del_subscript(self, obj, idx)

    def len_of(self, v):
        return self.models.len_of(self, v)
