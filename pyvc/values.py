"""Value model of pyvc (see DESIGN.md 2.3).

Concrete Python values stay concrete.  Symbolic values:
  z3 ArithRef (Int)  -- Python int
  z3 BoolRef         -- Python bool
  SStr               -- str / bytes as a z3 String (parsing, formatting, regex)
  SBytes             -- bytes as (z3 Array Int->Int, length)  (file I/O, struct)
  SObj               -- instance of a real class with a field map
  Opaque             -- unmodelled value; may be stored/passed, never branched on
"""
import itertools
import z3

_counter = itertools.count()

# z3.StringVal parses escape sequences (\u00e9, \x41, \u{..}) in its argument; python strings reaching the solver are
# data, never escapes, so every backslash is passed as the escape of itself.
if not getattr(z3, "_pyvc_safe_stringval", False):
    _orig_StringVal = z3.z3.StringVal

    def _safe_StringVal(s, ctx=None):
        return _orig_StringVal(s.replace("\\", "\\u{5c}") if isinstance(s, str) else s, ctx)
    z3.z3.StringVal = _safe_StringVal
    z3.StringVal = _safe_StringVal
    z3._pyvc_safe_stringval = True


def fresh_name(base):
    return "%s!%d" % (base, next(_counter))


def reset_names():
    global _counter
    _counter = itertools.count()


class Undecided(Exception):
    """The engine cannot decide (construct outside the modelled subset)."""


class PathEnd(Exception):
    """The current path is cut (assume(False), end of an invariant-cut loop body)."""


class PyRaise(Exception):
    """A Python exception raised by the interpreted program."""

    def __init__(self, exc, cls=None):
        Exception.__init__(self, repr(exc))
        self.exc = exc
        self.cls = cls if cls is not None else (exc.cls if isinstance(exc, SObj) else type(exc))


class Opaque(object):
    def __init__(self, name="opaque"):
        self.name = name

    def __repr__(self):
        return "<Opaque %s>" % self.name


class SObj(object):
    """Instance of (real) class `cls` with symbolic fields."""
    _ids = itertools.count()

    def __init__(self, cls, fields=None, name=None):
        self.cls = cls
        self.fields = dict(fields or {})
        self.name = name or ("%s#%d" % (getattr(cls, "__name__", str(cls)), next(SObj._ids)))

    def __repr__(self):
        return "<SObj %s %s>" % (self.name, sorted(self.fields))


class SStr(object):
    """str or bytes as a z3 String term.  bytes carry the (assumed at creation)
    constraint that every char is < 256."""

    def __init__(self, term, is_bytes, known_len=None):
        self.term = term
        self.is_bytes = is_bytes
        self.known_len = known_len   # concrete length when a model fact fixes it (hash digests)

    def __repr__(self):
        return "<SStr %s %s>" % ("bytes" if self.is_bytes else "str", self.term)


class SBytes(object):
    """bytes as array+offset+length: byte i is arr[off+i] for 0 <= i < length."""

    def __init__(self, arr, length, off=0):
        self.arr = arr
        self.length = length  # python int or z3 Int
        self.off = off        # python int or z3 Int

    def at(self, i):
        """z3 term of byte i"""
        if isinstance(self.off, int) and self.off == 0:
            return z3.Select(self.arr, to_z3_int(i))
        return z3.Select(self.arr, to_z3_int(self.off) + to_z3_int(i))

    def base_arr(self):
        """array indexed from 0 (introduces a lambda only when shifted)"""
        if isinstance(self.off, int) and self.off == 0:
            return self.arr
        j = z3.Int(fresh_name("j"))
        return z3.Lambda([j], z3.Select(self.arr, j + to_z3_int(self.off)))

    def __repr__(self):
        return "<SBytes len=%s>" % (self.length,)


class SHash(object):
    """a fixed-length digest as a value of an uninterpreted sort: supports only ==, != and truthiness.
    (Much cheaper for the solver than a 32-character string when only identity of hashes matters.)"""
    SORT = z3.DeclareSort("Digest")

    def __init__(self, term, nbytes=32):
        self.term = term
        self.nbytes = nbytes

    def __repr__(self):
        return "<SHash %s>" % self.term


class SList(object):
    """list with symbolic length: elements elem(i) for 0 <= i < length.
    `elem` is a python callable index(z3 Int) -> value (built by the contract)."""

    def __init__(self, elem, length, name="slist"):
        self.elem = elem
        self.length = length
        self.name = name


# ---------------------------------------------------------------- helpers

IntS = z3.IntSort()
ByteArr = z3.ArraySort(IntS, IntS)


def is_sym_int(v):
    return isinstance(v, z3.ArithRef)


def is_sym_bool(v):
    return isinstance(v, z3.BoolRef)


def is_int(v):
    return (isinstance(v, int) and not isinstance(v, bool)) or is_sym_int(v)


def is_bool(v):
    return isinstance(v, bool) or is_sym_bool(v)


def is_intlike(v):
    return isinstance(v, (int, bool)) or is_sym_int(v) or is_sym_bool(v)


def to_z3_int(v):
    if isinstance(v, bool):
        return z3.IntVal(1 if v else 0)
    if isinstance(v, int):
        return z3.IntVal(v)
    if is_sym_int(v):
        return v
    if is_sym_bool(v):
        return z3.If(v, z3.IntVal(1), z3.IntVal(0))
    raise Undecided("not an int: %r" % (v,))


def to_z3_bool(v):
    if isinstance(v, bool):
        return z3.BoolVal(v)
    if is_sym_bool(v):
        return v
    raise Undecided("not a bool: %r" % (v,))


def zstr(b):
    """python bytes/str -> z3 string literal (chars = code points / byte values)."""
    if isinstance(b, bytes):
        s = "".join(chr(c) for c in b)
    else:
        s = b
    return z3.StringVal(s)


def const_arr(b):
    """concrete bytes -> z3 array"""
    a = z3.K(IntS, z3.IntVal(0))
    for i, c in enumerate(b):
        if c != 0:
            a = z3.Store(a, i, c)
    return a


def as_sbytes(v):
    if isinstance(v, SBytes):
        return v
    if isinstance(v, (bytes, bytearray)):
        return SBytes(const_arr(bytes(v)), len(v))
    raise Undecided("cannot view %r as array-bytes" % (v,))


def as_sstr(v):
    if isinstance(v, SStr):
        return v
    if isinstance(v, bytes):
        return SStr(zstr(v), True)
    if isinstance(v, str):
        return SStr(zstr(v), False)
    raise Undecided("cannot view %r as string" % (v,))


def simp(t):
    return z3.simplify(t)


def concrete_int(v):
    """Return python int if the z3 term simplifies to a numeral, else None."""
    if isinstance(v, bool):
        return int(v)
    if isinstance(v, int):
        return v
    if is_sym_int(v):
        s = z3.simplify(v)
        if z3.is_int_value(s):
            return s.as_long()
    return None


def norm_int(v):
    c = concrete_int(v)
    return v if c is None else c


def norm_bool(v):
    if isinstance(v, bool):
        return v
    s = z3.simplify(v)
    if z3.is_true(s):
        return True
    if z3.is_false(s):
        return False
    return s


def sb_index(b, i):
    return b.at(i)


def sb_slice(b, lo, hi):
    """b[lo:hi] with 0 <= lo <= hi <= len already established by the caller."""
    n = norm_int(to_z3_int(hi) - to_z3_int(lo))
    return SBytes(b.arr, n, norm_int(to_z3_int(b.off) + to_z3_int(lo)))


def sb_concat(a, b):
    la = to_z3_int(a.length)
    j = z3.Int(fresh_name("j"))
    arr = z3.Lambda([j], z3.If(j < la, a.at(j), b.at(j - la)))
    return SBytes(arr, norm_int(la + to_z3_int(b.length)))


def sb_eq(a, b):
    """extensional equality of two array-bytes.  The quantified index is the ABSOLUTE index into a's
    array, so that Select(a.arr, p) is an E-matching trigger without arithmetic."""
    la, lb = to_z3_int(a.length), to_z3_int(b.length)
    ca, cb = concrete_int(a.length), concrete_int(b.length)
    if ca is not None and cb is not None:
        if ca != cb:
            return z3.BoolVal(False)
        if ca <= 64:
            return z3.And([a.at(i) == b.at(i) for i in range(ca)]) if ca else z3.BoolVal(True)
    p = z3.Int(fresh_name("q"))
    ao, bo = to_z3_int(a.off), to_z3_int(b.off)
    return z3.And(la == lb,
                  z3.ForAll([p], z3.Implies(z3.And(p >= ao, p < ao + la),
                                            z3.Select(a.arr, p) == z3.Select(b.arr, p + (bo - ao)))))
