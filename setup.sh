#!/bin/sh
# Build the overlay venv offline (idempotent). Run from /verif.
set -e
cd "$(dirname "$0")"
if [ ! -x .venv/bin/python ] || ! .venv/bin/python -c "import z3, jsonschema" 2>/dev/null; then
  rm -rf .venv
  /venv/bin/python -m venv .venv
  PIP_NO_INDEX=1 .venv/bin/pip install -q --no-index --find-links /opt/veriftools/wheels z3-solver cvc5 jsonschema deal icontract crosshair-tool
  echo "import site; site.addsitedir('/venv/lib/python3.12/site-packages')" > .venv/lib/python3.12/site-packages/_repo_deps.pth
fi
.venv/bin/python -c "import z3, jsonschema; print('verif venv ok, z3', z3.get_version_string())"
