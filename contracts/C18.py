"""C18 Read-only directory access is transitive -- contracts on dirnode.py (_unpack_contents in read-only mode,
_encrypt_rw_uri/_decrypt_rwcapdata), nodemaker.py create_from_cap (shared with C16)"""
from contracts import C19, C16

LEVEL = "other"
MANIFEST_ENTRY = {
    "text": "Unpacking through a read-only directory node (the real _unpack_contents on the output of the real packer, all capability strings and the write key symbolic): no child is ever built with a write cap -- the node maker receives rw_uri=None for every child -- and the write-cap decryption is never run; the same directory unpacked by a writer yields exactly the stored write caps. What the node maker builds from (None, read cap) is read-only or weaker for every cap kind, and a node cached for a write cap is never handed out for the read cap (the create_from_cap contracts of C16, re-run here). Superencryption: the AES key of a child's write cap is H_key(H_salt(rw_uri) || writekey), so it differs between children (no keystream reuse) and between write keys (it cannot be derived from the read cap), and decryption under the same write key returns the write cap.",
    "note": "AES-CTR and the tagged hashes are uninterpreted (collision resistance instantiated per obligation): confidentiality itself is a cryptographic assumption, what is proved is the key-derivation data flow and that the read-only path never touches it. Bounded as C19/C16 (2 children, enumerated cap kinds). Deep traversal (descendants of descendants) follows by induction over create_from_cap and is not a separate obligation.",
    "technique": "contract-based deductive verification (pyvc VCs + z3, rope strings, uninterpreted crypto); cap kinds enumerated",
}
MANIFEST_ENTRY["text"] += " Bounded end-to-end stand-in (run-time contract, never counted as proved): contracts/grid_dirnode.py drives real DirectoryNodes on real StorageServers through seeded histories of edits over 3..6 directories with NFC-colliding names, compares every listing (same client, fresh client with write cap, fresh client with read cap) with a name-map model and checks build_manifest/deep-stats against the model's graph."
MANIFEST_ENTRY["technique"] += "; plus bounded end-to-end run-time scenario contracts on an in-process grid of the real components (stand-in, labelled bounded)"
EXPLANATION = "read-only unpacking never produces write authority; key derivation data flow."
TRUSTED = C19.TRUSTED + ["NodeMaker node classes behave per C16"]
ASSUMPTIONS = C19.ASSUMPTIONS
NOT_DECIDED = "cryptographic confidentiality of AES-CTR/SHA-256d themselves."


class ReadonlyUnpack(C19.PackUnpack):
    def all_cases(self):
        return [c for c in C19.PackUnpack.all_cases(self) if c["mode"] in ("ro", "rw")]
    canary_case = {"k0": "rw", "k1": "imm", "mode": "rw"}


def extra_checks(rep, tier):
    from contracts import grid_dirnode
    grid_dirnode.grid_check(rep, tier, "C18")


def contracts(tier):
    return [ReadonlyUnpack(), C19.EncryptDecrypt()] + [c for c in C16.contracts(tier) if type(c).__name__ in ("NodeCache", "Attenuate")]
