"""C08 Happiness value equals a maximum server/share matching -- bounded run-time contract on happinessutil.servers_of_happiness"""
import itertools
import random
import z3
from contracts.bounded_lib import max_matching, HashedId, pmap

LEVEL = "other"
MANIFEST_ENTRY = {
    "text": "BOUNDED stand-in, not a proof: the contract 'result == size of a maximum bipartite matching between servers and shares, independent of dict insertion order and set iteration order' is evaluated on the real servers_of_happiness for EVERY share->servers relation with up to 4 shares x 4 servers (quick, 65,536 relations; thorough: 5 x 4, 1,048,576 relations), each under several insertion/iteration orders, plus seeded random relations up to 30 x 30. Max-flow correctness for arbitrary graphs is out of reach of the VC generator (DESIGN 6, C07/C08).",
    "note": "Exhaustive below the bound, sampled above it. The specification is an independent augmenting-path matching. Nothing here is counted as proved.",
    "technique": "bounded exhaustive run-time contract checking of the real function (stand-in for deductive verification, labelled bounded)",
}
EXPLANATION = "Exhaustive enumeration of small relations + seeded random larger ones; independent maximum-matching oracle."
TRUSTED = ["the independent matching oracle in contracts/bounded_lib.py"]
ASSUMPTIONS = []
NOT_DECIDED = "graphs beyond the bound (only sampled)."


def relations(nshares, nservers):
    cells = [(sh, sv) for sh in range(nshares) for sv in range(nservers)]
    for bits in range(1 << len(cells)):
        yield [c for i, c in enumerate(cells) if bits >> i & 1]


def build(rel, order, hashes):
    """sharemap dict(share -> set(server)) with controlled insertion order and server hash values"""
    ids = {}
    sm = {}
    pairs = list(rel)
    if order == 1:
        pairs.reverse()
    elif order == 2:
        pairs.sort(key=lambda p: (p[1], -p[0]))
    for sh, sv in pairs:
        if sv not in ids:
            ids[sv] = HashedId(sv, hashes[sv])
        sm.setdefault(sh, set()).add(ids[sv])
    return sm


def check_rel(rel):
    from allmydata.util.happinessutil import servers_of_happiness
    adj = {}
    for sh, sv in rel:
        adj.setdefault(sv, []).append(sh)
    want = max_matching(adj, sorted(adj))
    bad = []
    for order in (0, 1, 2):
        for hashes in ((0, 1, 2, 3, 4, 5, 6, 7), (7, 3, 5, 1, 6, 0, 2, 4)):
            try:
                got = servers_of_happiness(build(rel, order, hashes))
            except Exception as e:      # noqa
                got = "raised %r" % (e,)
            if got != want:
                bad.append((order, hashes[:4], got, want))
    return (rel, bad)


def contracts(tier):
    return []


def extra_checks(rep, tier):
    nshares, nservers = (4, 4) if tier == "quick" else (5, 4)
    rels = list(relations(nshares, nservers))
    rng = random.Random(rep.seed)
    for _ in range(300 if tier == "quick" else 3000):
        ns, nv = rng.randint(1, 30), rng.randint(1, 8)
        rels.append([(rng.randrange(ns), rng.randrange(nv)) for _ in range(rng.randint(0, 40))])
    rels = [sorted(set(r)) for r in rels]
    results = pmap(check_rel, rels)
    nontrivial = sum(1 for r, _ in results if len(r) >= 2 and len(set(s for s, _ in r)) >= 2)
    rep.obligations += 1
    rep.bounded_obligations += 1
    rep.paths += len(rels) * 6
    rep.sym_paths += nontrivial
    rep.bounds.append("every relation <= %d shares x %d servers (%d relations) x 6 orderings + %d seeded random relations" % (nshares, nservers, 1 << (nshares * nservers), len(rels) - (1 << (nshares * nservers))))
    rep.samples.append({"obligation": "ServersOfHappiness:equals-maximum-matching-under-every-ordering", "relation_example": rels[min(len(rels) - 1, 777)], "evaluations": len(rels) * 6})
    bad = [(r, b) for r, b in results if b]
    if not bad:
        rep.discharged += 1
        rep.discharged_names.add("ServersOfHappiness:equals-maximum-matching-under-every-ordering")
        return
    r, b = min(bad, key=lambda x: len(x[0]))
    rep.violations.append({"property": "C08", "contract": "ServersOfHappiness", "obligation": "ServersOfHappiness:equals-maximum-matching-under-every-ordering",
                           "status": "runtime", "inputs": {"relation_share_server_pairs": r, "orderings_failing": b[:3]},
                           "native_outcome": "servers_of_happiness returned %r, maximum matching is %r (%d of %d relations fail)" % (b[0][2], b[0][3], len(bad), len(rels)),
                           "confirmed_on_real_code": True})
