"""C27 Share crawler covers every bucket each cycle -- contracts on storage/crawler.py ShareCrawler
(start_current_prefix, process_prefixdir, save_state, load_state)"""
import copy
import z3
from pyvc.harness import Spec, IntK, BoolK, ChoiceK, Outcome
from pyvc.values import *  # noqa
from contracts.lib import *  # noqa

LEVEL = "other"
MANIFEST_ENTRY = {
    "text": "Inductive per-slice contract with ghost state `processed` (the buckets handed to process_bucket in the current cycle). Invariant Inv: no cycle in progress => nothing processed, position rewound; cycle in progress => processed is exactly the buckets of all completed prefixes plus the buckets of the next prefix up to last-complete-bucket, last-complete-bucket is the last bucket processed, and a cached directory listing is the sorted listing of its prefix. For EVERY state satisfying Inv (every position in a store of 3 prefixes holding 2, 0 and 1 buckets, with or without a listing cache, between cycles or inside one) and EVERY pattern of time-slice expiry (time.time() returns unconstrained values), one slice of the real start_current_prefix followed by save_state() (i) never processes a bucket that is already in `processed` and processes none twice, (ii) re-establishes Inv both for the in-memory state and for the state re-loaded from what was saved (load_state of the saved dict), (iii) only finishes a cycle when `processed` is the set of all buckets, and then sets last-cycle-finished to the cycle number, and a new cycle gets that number plus one. By induction over slices and restarts: each cycle processes every bucket exactly once when no slice is killed, and at least once otherwise (a kill re-runs from the last saved Inv state).",
    "note": "Bounded store (3 prefixes, 3 buckets, listdir returning unsorted names); the time-slice pattern and the number of slices/restarts are unbounded. Bucket names start with their prefix (the storage layout, C22) -- needed because last-complete-bucket is compared across prefixes. start_slice()'s own try/except and reactor scheduling are mirrored by the contract (start_current_prefix, then save_state) rather than executed; buckets created or deleted during a cycle are outside the claim, as in the property.",
    "technique": "contract-based deductive verification (pyvc VCs + z3): inductive invariant over slices with ghost state; store contents bounded",
}
EXPLANATION = "Inv is preserved by one slice from every Inv state under every expiry pattern; persisted state included."
TRUSTED = ["JSON state serializer round-trips the state dict (C38-style; stubbed)", "os.listdir"]
ASSUMPTIONS = ["bucket names begin with the name of their prefix directory"]
NOT_DECIDED = "start_slice's scheduling arithmetic; directories changing during a cycle."
F = "allmydata/storage/crawler.py"
PREFIXES = ["aa", "ab", "ac"]
LISTING = {"aa": ["aa2", "aa1"], "ab": [], "ac": ["ac1"]}          # as returned by listdir (unsorted)
ALL = sorted(b for v in LISTING.values() for b in v)


def expected_processed(lcpi, lcb):
    done = set()
    for i, p in enumerate(PREFIXES):
        for b in LISTING[p]:
            if i <= lcpi or (i == lcpi + 1 and lcb is not None and b <= lcb):
                done.add(b)
    return done


def inv(cycle, lcpi, lcb, processed, cache=None):
    """-> list of violated clauses"""
    bad = []
    if cycle is None:
        if processed:
            bad.append("processed-not-empty-between-cycles")
        if lcpi != -1:
            bad.append("position-not-rewound-between-cycles")
        if lcb is not None:
            bad.append("last-bucket-not-cleared-between-cycles")
    else:
        if processed != expected_processed(lcpi, lcb):
            bad.append("processed-is-not-exactly-the-buckets-up-to-the-position")
        if lcb != (max(processed) if processed else None):
            bad.append("last-complete-bucket-is-not-the-last-bucket-processed")
    if cache is not None and cache[0] is not None:
        if list(cache[1]) != sorted(LISTING[PREFIXES[cache[0]]]):
            bad.append("cached-listing-is-not-the-sorted-listing-of-its-prefix")
    return bad


def start_states():
    out = []
    out.append({"cycle": None, "lcpi": -1, "j": 0, "cache": None})
    out.append({"cycle": None, "lcpi": -1, "j": 0, "cache": 2})
    for lcpi in (-1, 0, 1, 2):
        nxt = LISTING[PREFIXES[lcpi + 1]] if lcpi + 1 < len(PREFIXES) else []
        for j in range(len(nxt) + 1):
            for cache in (None, "next"):
                if cache == "next" and lcpi + 1 >= len(PREFIXES):
                    continue
                out.append({"cycle": 5, "lcpi": lcpi, "j": j, "cache": cache})
    return out


class Slice(Spec):
    file = F
    qualname = "ShareCrawler.start_current_prefix"
    level = "B"
    bound = "store of 3 prefixes with 2, 0 and 1 buckets; every invariant-satisfying start state (22); every time-slice expiry pattern"
    cross_check = 0
    canary_case = {"cycle": 5, "lcpi": -1, "j": 1, "cache": "next"}

    @property
    def raises(self):
        from allmydata.storage.crawler import TimeSliceExceeded
        return (TimeSliceExceeded,)

    def inputs(self):
        return {"cycle": ChoiceK([None]), "lcpi": ChoiceK([-1]), "j": ChoiceK([0]), "cache": ChoiceK([None])}

    def all_cases(self):
        return start_states()

    def config(self):
        me = self

        def listdir(I, a, kw):
            p = a[0]
            for pre, names in LISTING.items():
                if str(p).endswith("/" + pre):
                    return list(names)
            raise PyRaise(FileNotFoundError(p), FileNotFoundError)

        def now(I, a, kw):
            me._t += 1
            return z3.Int("t%d" % me._t)
        return {"overrides": {"posix.listdir": listdir, "os.listdir": listdir, "time.time": now,
                              "ShareCrawler.process_bucket": lambda I, a, kw: me._log.append(a[4]),
                              "ShareCrawler.started_cycle": lambda I, a, kw: me._started.append(a[1]),
                              "ShareCrawler.finished_cycle": lambda I, a, kw: me._finished.append((a[1], set(me._processed0) | set(me._log))),
                              "ShareCrawler.finished_prefix": noop}}

    def run(self, I, a):
        self._t, self._log, self._saved, self._started, self._finished = 0, [], [], [], []
        lcpi = a["lcpi"]
        nxt = sorted(LISTING[PREFIXES[lcpi + 1]]) if lcpi + 1 < len(PREFIXES) else []
        processed = set(b for i, p in enumerate(PREFIXES) if i <= lcpi for b in LISTING[p]) | set(nxt[:a["j"]])
        if a["cycle"] is None:
            processed = set()
        self._processed0 = processed
        lcb = max(processed) if processed else None
        assert not inv(a["cycle"], lcpi, lcb, processed)
        state = {"version": 1, "last-cycle-finished": (None if a["cycle"] is None else 4) if a["cycle"] is not None else 4, "current-cycle": a["cycle"],
                 "last-complete-prefix": None if lcpi == -1 else PREFIXES[lcpi], "last-complete-bucket": lcb, "current-cycle-start-time": 0}
        cache = (None, [])
        if a["cache"] == "next":
            cache = (lcpi + 1, list(nxt))
        elif a["cache"] == 2:
            cache = (2, sorted(LISTING["ac"]))
        ser = stub("serializer", save=lambda I_, a_, k_: self._saved.append((copy.deepcopy({k: v for k, v in a_[0].items()}), list(self._log), len(self._finished), len(self._started))))
        cr = SObj(self.module().ShareCrawler, {"state": state, "prefixes": list(PREFIXES), "sharedir": "/s", "last_complete_prefix_index": lcpi, "bucket_cache": cache,
                                              "cpu_slice": 1, "last_prefix_finished_time": None, "last_prefix_elapsed_time": None, "last_cycle_started_time": None,
                                              "last_cycle_elapsed_time": None, "_state_serializer": ser})
        try:
            I.call_value(self.target(I), [cr, z3.Int("slice_start")], {})
            out = Outcome("return", None)
        except PyRaise as pr:
            out = Outcome("raise", exc=pr.exc, exc_cls=pr.cls)
            if pr.cls.__name__ != "TimeSliceExceeded":
                return out
        I.call_value(I.get_attr(cr, "save_state"), [], {})        # what start_slice() does after the slice, finished or not
        out.post = {"cr": cr}
        return out

    def ensures(self, I, a, out):
        cr = out.post["cr"]
        st = cr.fields["state"]
        log = self._log
        g = [("no-bucket-is-processed-twice", z3.BoolVal(len(log) == len(set(log)) and not (set(log) & self._processed0))),
             ("buckets-are-processed-in-order", z3.BoolVal(log == sorted(log))),
             ("the-slice-ends-with-a-save", z3.BoolVal(len(self._saved) >= 1))]
        finished = len(self._finished) == 1
        if finished:
            cyc, seen = self._finished[0]
            g += [("a-cycle-finishes-only-after-every-bucket-was-processed", z3.BoolVal(seen == set(ALL))),
                  ("the-finished-cycle-number-is-recorded", z3.BoolVal(st["last-cycle-finished"] == cyc and st["current-cycle"] is None))]
        g.append(("at-most-one-cycle-boundary-per-slice", z3.BoolVal(len(self._finished) <= 1 and len(self._started) <= 1)))
        if self._started:
            g.append(("cycle-numbers-increase-by-one", z3.BoolVal(self._started[0] == 5 and a["cycle"] is None)))
        processed = set() if finished else (self._processed0 | set(log))
        if self._started and not finished:
            processed = set(log)
        mem_bad = inv(st["current-cycle"], cr.fields["last_complete_prefix_index"], st["last-complete-bucket"], processed, cr.fields["bucket_cache"])
        g.append(("invariant-holds-in-memory-after-the-slice%s" % ("" if not mem_bad else ":" + mem_bad[0]), z3.BoolVal(not mem_bad)))
        for n, (sv, log_then, fin_then, started_then) in enumerate(self._saved):
            # a kill right after this save: the restarted crawler loads exactly this dict
            p_then = set() if fin_then else (set(log_then) if started_then else (self._processed0 | set(log_then)))
            lcp = sv["last-complete-prefix"]
            sv_bad = inv(sv["current-cycle"], -1 if lcp is None else PREFIXES.index(lcp), sv["last-complete-bucket"], p_then)
            g.append(("invariant-holds-for-every-persisted-state-a-restart-could-load%s" % ("" if not sv_bad else ":" + sv_bad[0]), z3.BoolVal(not sv_bad)))
        if out.kind == "return":
            g.append(("returning-normally-means-the-cycle-finished", z3.BoolVal(finished)))
        return g

    def canary(self, I, a, out):
        return [("canary", z3.BoolVal(len(self._log) == 0))]


class LoadState(Spec):
    """load_state(saved) restores the position that save_state recorded"""
    file = F
    qualname = "ShareCrawler.load_state"
    cross_check = 0
    raises = ()

    def inputs(self):
        return {"lcpi": ChoiceK([-1, 0, 1, 2]), "fails": ChoiceK([False, True])}

    def all_cases(self):
        return [{"lcpi": i, "fails": f} for i in (-1, 0, 1, 2) for f in (False, True)]

    def config(self):
        return {"overrides": {"time.time": lambda I, a, kw: 0}}

    def run(self, I, a):
        saved = {"version": 1, "last-cycle-finished": 4, "current-cycle": 5, "last-complete-prefix": None if a["lcpi"] == -1 else PREFIXES[a["lcpi"]],
                 "last-complete-bucket": "aa1", "current-cycle-start-time": 3}

        def load(I_, a_, k_):
            if a["fails"]:
                raise PyRaise(FileNotFoundError("state"), FileNotFoundError)
            return dict(saved)
        cr = SObj(self.module().ShareCrawler, {"prefixes": list(PREFIXES), "_state_serializer": stub("serializer", load=load)})
        I.call_value(self.target(I), [cr], {})
        self._saved = saved
        return cr

    def ensures(self, I, a, out):
        cr = out.value
        st = cr.fields["state"]
        if a["fails"]:
            return [("without-a-state-file-the-crawler-starts-from-scratch", z3.BoolVal(cr.fields["last_complete_prefix_index"] == -1 and st["current-cycle"] is None and st["last-complete-bucket"] is None))]
        return [("position-is-the-saved-one", z3.BoolVal(cr.fields["last_complete_prefix_index"] == a["lcpi"])),
                ("state-is-the-saved-one", z3.BoolVal(all(st[k] == v for k, v in self._saved.items())))]

    def canary(self, I, a, out):
        return [("canary", z3.BoolVal(out.value.fields["last_complete_prefix_index"] == 0))]
    canary_case = {"lcpi": 1, "fails": False}


def contracts(tier):
    return [Slice(), LoadState()]
