"""C19 Directory contents round-trip -- contracts on dirnode.py (_pack_normalized_children, DirectoryNode._unpack_contents,
_encrypt_rw_uri/_decrypt_rwcapdata), unknown.py strip_prefix_for_ro and the is_allowed_in_immutable_directory methods"""
import z3
from pyvc.harness import Spec, IntK, BoolK, StrK, ChoiceK, Outcome
from pyvc.values import *  # noqa
from contracts.lib import *  # noqa
from pyvc.models_ext import unwrap_key

LEVEL = "other"
MANIFEST_ENTRY = {
    "text": "Pack then unpack (the real _pack_normalized_children followed by the real DirectoryNode._unpack_contents, netstring layer included): for two children with non-ASCII and separator-laden names, every combination of child kind (read-only cap, read-write cap pair, unknown 'imm.' cap, unknown 'ro.' cap), JSON metadata, and directory mode (mutable+writeable, mutable+read-only, immutable), with ALL capability strings and the write key symbolic, the unpacked directory has the same names in the same order, hands exactly the stored read cap (prefix stripped only where the context implies it) and -- when writeable -- exactly the stored write cap to the node maker, and returns the same metadata; a reader without write access gets no write cap and never runs the decryption. The write-cap superencryption round-trips under the same write key. Immutable directories: _pack_normalized_children(deep_immutable=True) raises MustBeDeepImmutableError exactly when a child is not allowed, and for DirectoryNode, MutableFileNode, ImmutableFileNode, LiteralFileNode is_allowed_in_immutable_directory() is true only for non-mutable objects.",
    "note": "AES-CTR and the tagged hashes are uninterpreted functions (decrypt inverts encrypt under the same key); json.dumps/loads and Unicode normalisation run natively on concrete names/metadata, so 'arbitrary JSON metadata' and 'any Unicode name' are covered only by the concrete samples -- level 'other'. NodeMaker.create_from_cap (what node comes out of a cap pair) is C16.",
    "technique": "contract-based deductive verification (pyvc VCs + z3, rope strings, uninterpreted crypto); child kinds and names enumerated",
}
MANIFEST_ENTRY["text"] += " Bounded end-to-end stand-in (run-time contract, never counted as proved): contracts/grid_dirnode.py drives real DirectoryNodes on real StorageServers through seeded histories of edits over 3..6 directories with NFC-colliding names, compares every listing (same client, fresh client with write cap, fresh client with read cap) with a name-map model and checks build_manifest/deep-stats against the model's graph."
MANIFEST_ENTRY["technique"] += "; plus bounded end-to-end run-time scenario contracts on an in-process grid of the real components (stand-in, labelled bounded)"
EXPLANATION = "pack/unpack as inverse contracts over symbolic capability strings."
TRUSTED = ["AES-CTR decrypt inverts encrypt under the same key", "tagged hashes as uninterpreted functions", "json, unicodedata (run natively on concrete values)"]
ASSUMPTIONS = ["capability strings do not end in a space (the packer's padding character)"]
NOT_DECIDED = "arbitrary metadata and names beyond the samples; AuxValueDict cache reuse."
F = "allmydata/dirnode.py"
NAMES = ("b,1:", "aé")
ENC = z3.Function("rwcap_encrypt", z3.StringSort(), z3.StringSort(), z3.StringSort())      # (writekey, rw_uri) -> salt+crypttext+mac


def fs_node_cls():
    from zope.interface import implementer
    from allmydata.interfaces import IFilesystemNode
    global _FS
    try:
        return _FS
    except NameError:
        @implementer(IFilesystemNode)
        class FakeNode(object):
            pass
        _FS = FakeNode
        return _FS


def node_stub(name, **methods):
    s = stub(name, **methods)
    s.cls = fs_node_cls()
    return s


KINDS = ("ro", "rw", "imm", "unk_ro")


class PackUnpack(Spec):
    file = F
    qualname = "DirectoryNode._unpack_contents"
    level = "B"
    bound = "2 children, 4 child kinds each, 3 directory modes; names and metadata concrete samples, capability strings and write key symbolic"
    cross_check = 0
    raises = ()
    canary_case = {"k0": "rw", "k1": "imm", "mode": "rw"}

    def inputs(self):
        d = {"k0": ChoiceK(KINDS), "k1": ChoiceK(KINDS), "mode": ChoiceK(["rw", "ro", "imm"]), "writekey": StrK(True)}
        for i in (0, 1):
            d["ro%d" % i] = StrK(True)
            d["rw%d" % i] = StrK(True)
        return d

    def all_cases(self):
        out = []
        for k0 in KINDS:
            for k1 in KINDS:
                for m in ("rw", "ro", "imm"):
                    if m == "imm" and ("rw" in (k0, k1) or "unk_ro" in (k0, k1)):
                        continue        # not allowed in an immutable directory: see ImmutableRefusal
                    out.append({"k0": k0, "k1": k1, "mode": m})
        return out

    def requires(self, I, a):
        sp = z3.StringVal(" ")
        cs = []
        for i in (0, 1):
            for nm in ("ro%d" % i, "rw%d" % i):
                t = as_sstr(a[nm]).term
                cs += [z3.Length(t) >= 1, z3.Not(z3.SuffixOf(sp, t))]
        return z3.And(cs)

    def caps(self, a, i):
        """(rw_uri, ro_uri) the child reports"""
        kind = a["k%d" % i]
        ro, rw = as_sstr(a["ro%d" % i]), as_sstr(a["rw%d" % i])

        def pre(p, s):
            return SStr(z3.Concat(z3.StringVal(p), s.term), True)
        if kind == "ro":
            return None, pre("URI:CHK:", ro)
        if kind == "rw":
            return pre("URI:SSK:", rw), pre("URI:SSK-RO:", ro)
        if kind == "imm":
            return None, pre("imm.URI:FUTURE:", ro)
        return None, pre("ro.URI:FUTURE:", ro)

    def config(self):
        me = self

        def enc(I, a, kw):
            return SStr(ENC(as_sstr(a[0]).term, as_sstr(a[1]).term), True)

        def dec(I, a, kw):
            me._decrypts += 1
            t = z3.simplify(as_sstr(a[1]).term)
            wk = as_sstr(me._writekey).term
            if z3.is_app(t) and t.decl().eq(ENC) and z3.is_true(z3.simplify(t.arg(0) == wk)):
                return SStr(t.arg(1), True)       # decrypt(encrypt(x)) == x under the same write key (see EncryptDecrypt)
            if z3.is_string_value(t):
                return b""
            raise Undecided("decryption of something that was not encrypted here")

        def create(I, a, kw):
            me._created.append((a[1], a[2], a[3]))
            return me._children_by_name[a[3]]
        return {"rope": True, "atoms": {},
                "overrides": {"dirnode._encrypt_rw_uri": enc, "DirectoryNode._decrypt_rwcapdata": dec, "DirectoryNode._create_and_validate_node": create,
                              "log.msg": noop}}

    def run(self, I, a):
        from allmydata.util.dictutil import AuxValueDict
        M = self.module()
        self._created, self._decrypts, self._writekey = [], 0, a["writekey"]
        deep_imm = a["mode"] == "imm"
        children = {}
        self._children_by_name = {}
        self._want = {}
        for i, name in enumerate(NAMES):
            rw, ro = self.caps(a, i)
            kind = a["k%d" % i]
            child = node_stub("child%d" % i, get_write_uri=lambda I_, a_, k_, rw=rw: rw, get_readonly_uri=lambda I_, a_, k_, ro=ro: ro, raise_error=noop,
                              is_allowed_in_immutable_directory=lambda I_, a_, k_, kind=kind: kind in ("ro", "imm"))
            md = {"tahoe": {"linkcrtime": 1.5 + i}, "kéy": [1, None, "x"]}
            children[name] = (child, md)
            self._children_by_name[name] = child
            self._want[name] = (rw, ro, md)
        writekey = None if deep_imm else a["writekey"]
        packed = I.call_value(I.get_attr(M, "_pack_normalized_children"), [children, writekey, deep_imm], {})
        fnode = stub("filenode", is_readonly=lambda I_, a_, k_: a["mode"] != "rw", is_mutable=lambda I_, a_, k_: not deep_imm, get_writekey=lambda I_, a_, k_: a["writekey"])
        dn = SObj(M.DirectoryNode, {"_node": fnode})
        out = Outcome("return", I.call_value(self.target(I), [dn, packed], {}))
        out.post = {"packed": packed}
        return out

    def ensures(self, I, a, out):
        res = out.value
        data = res.fields["__dictdata__"] if isinstance(res, SObj) else dict(res)
        got_names = [unwrap_key(k) for k in data.keys()]
        g = [("same-names", z3.BoolVal(sorted(got_names) == sorted(NAMES))),
             ("one-node-created-per-child-in-name-order", z3.BoolVal([c[2] for c in self._created] == sorted(NAMES)))]
        writeable = a["mode"] == "rw"
        deep_imm = a["mode"] == "imm"
        for (rw_got, ro_got, name) in self._created:
            rw, ro, md = self._want[name]
            want_ro = as_sstr(ro).term
            kind = a["k%d" % NAMES.index(name)]
            if kind == "unk_ro" or (kind == "imm" and deep_imm):
                pref = "ro." if kind == "unk_ro" else "imm."
                want_ro = z3.simplify(z3.SubString(want_ro, len(pref), z3.Length(want_ro) - len(pref)))      # implied by the context, re-added by the node maker (C16)
            g.append(("read-cap-of-%r-round-trips" % name, (as_sstr(ro_got).term == want_ro) if ro_got is not None else z3.BoolVal(False)))
            if writeable and rw is not None:
                g.append(("write-cap-of-%r-round-trips-for-a-writer" % name, (as_sstr(rw_got).term == as_sstr(rw).term) if rw_got is not None else z3.BoolVal(False)))
            else:
                g.append(("no-write-cap-for-%r" % name, z3.BoolVal(rw_got is None)))
        for k, v in data.items():
            name = unwrap_key(k)
            if name in self._want:
                g.append(("metadata-of-%r-round-trips" % name, z3.BoolVal(v[1] == self._want[name][2] and v[0] is self._children_by_name[name])))
        if not writeable:
            g.append(("a-reader-never-runs-the-write-cap-decryption", z3.BoolVal(self._decrypts == 0)))
        return g

    def canary(self, I, a, out):
        return [("canary", z3.BoolVal(self._decrypts == 0))]


class PackChildren(PackUnpack):
    """pack_children(children, writekey): what is packed depends on the children and on THIS directory's write key only --
    entries cached inside a listing that came from another directory (AuxValueDict, as DirectoryNode.list() returns it)
    are not reused, so a listing can be given as the initial children of a new directory"""
    qualname = "pack_children"
    bound = "2 children, 4 child kinds each; listing with and without foreign cached entries"
    canary_case = {"k0": "rw", "k1": "imm", "mode": "rw"}

    def all_cases(self):
        return [{"k0": k0, "k1": k1, "mode": "rw"} for k0 in KINDS for k1 in KINDS]

    def run(self, I, a):
        from allmydata.util.dictutil import AuxValueDict
        self._created, self._decrypts, self._writekey = [], 0, a["writekey"]
        plain = {}
        listing = SObj(AuxValueDict, {"__dictdata__": {}})
        I.call_value(I.get_attr(listing, "__init__"), [], {})
        for i, name in enumerate(NAMES):
            rw, ro = self.caps(a, i)
            kind = a["k%d" % i]
            child = node_stub("child%d" % i, get_write_uri=lambda I_, a_, k_, rw=rw: rw, get_readonly_uri=lambda I_, a_, k_, ro=ro: ro, raise_error=noop,
                              is_allowed_in_immutable_directory=lambda I_, a_, k_, kind=kind: kind in ("ro", "imm"))
            md = {"tahoe": {"linkcrtime": 1.5 + i}}
            plain[name] = (child, md)
            I.call_value(I.get_attr(listing, "set_with_aux"), [name, (child, md), b"ENTRY-PACKED-UNDER-ANOTHER-DIRECTORYS-WRITE-KEY"], {})
        r_plain = I.call_value(self.target(I), [plain, a["writekey"]], {})
        r_listing = I.call_value(self.target(I), [listing, a["writekey"]], {})
        out = Outcome("return", (r_plain, r_listing))
        return out

    def ensures(self, I, a, out):
        r_plain, r_listing = out.value
        return [("a-listing-from-another-directory-packs-like-the-same-children-given-plainly", as_sstr(r_listing).term == as_sstr(r_plain).term)]

    def canary(self, I, a, out):
        return [("canary", z3.Length(as_sstr(out.value[0]).term) == 0)]


class ImmutableRefusal(Spec):
    file = F
    qualname = "_pack_normalized_children"
    cross_check = 0

    @property
    def raises(self):
        from allmydata.interfaces import MustBeDeepImmutableError
        return (MustBeDeepImmutableError,)

    def inputs(self):
        return {"allowed0": BoolK(), "allowed1": BoolK(), "deep": BoolK()}

    def config(self):
        return {"rope": True, "atoms": {}}

    def run(self, I, a):
        children = {}
        for i, name in enumerate(("x", "y")):
            children[name] = (node_stub("child%d" % i, get_write_uri=lambda I_, a_, k_: None, get_readonly_uri=lambda I_, a_, k_: b"URI:CHK:zz", raise_error=noop,
                                        is_allowed_in_immutable_directory=lambda I_, a_, k_, i=i: a["allowed%d" % i]), {})
        deep = I.path.branch(to_z3_bool(a["deep"]))
        self._deep = deep
        return I.call_value(self.target(I), [children, None, deep], {})

    def ensures(self, I, a, out):
        bad = z3.Or(z3.Not(to_z3_bool(a["allowed0"])), z3.Not(to_z3_bool(a["allowed1"])))
        if out.kind == "raise":
            return [("refused-only-for-an-immutable-directory-with-a-disallowed-child", z3.And(z3.BoolVal(self._deep), bad))]
        return [("an-immutable-directory-never-stores-a-disallowed-child", z3.Or(z3.BoolVal(not self._deep), z3.Not(bad)))]

    def canary(self, I, a, out):
        if out.kind != "return":
            return []
        return [("canary", to_z3_bool(a["allowed0"]))]


ALLOWED_CLASSES = [("allmydata/dirnode.py", "DirectoryNode", "_node", None), ("allmydata/mutable/filenode.py", "MutableFileNode", "_uri", None),
                   ("allmydata/immutable/filenode.py", "ImmutableFileNode", None, None), ("allmydata/immutable/literal.py", "LiteralFileNode", None, "_ImmutableFileNodeBase")]


class AllowedInImmutable(Spec):
    """is_allowed_in_immutable_directory() implies not is_mutable(), for each node class"""
    cross_check = 0
    raises = ()

    def __init__(self, file, cls, inner, owner=None):
        self.file, self.cls_name, self.inner = file, cls, inner
        self.qualname = (owner or cls) + ".is_allowed_in_immutable_directory"

    @property
    def name(self):
        return "AllowedInImmutable_" + self.cls_name

    def inputs(self):
        return {"mutable": BoolK(), "readonly": BoolK()}

    def run(self, I, a):
        cls = getattr(self.module(), self.cls_name)
        fields = {}
        if self.inner:
            fields[self.inner] = stub("inner", is_mutable=lambda I_, a_, k_: a["mutable"], is_readonly=lambda I_, a_, k_: a["readonly"])
        o = SObj(cls, fields)
        allowed = I.call_value(self.target(I), [o], {})
        mut = I.call_value(I.get_attr(o, "is_mutable"), [], {})
        return (allowed, mut)

    def ensures(self, I, a, out):
        allowed, mut = out.value
        ab = z3.BoolVal(allowed) if isinstance(allowed, bool) else to_z3_bool(allowed)
        mb = z3.BoolVal(mut) if isinstance(mut, bool) else to_z3_bool(mut)
        return [("allowed-in-an-immutable-directory-only-if-not-mutable", z3.Implies(ab, z3.Not(mb))),
                ("every-immutable-object-is-allowed", z3.Implies(z3.Not(mb), ab))]

    def canary(self, I, a, out):
        allowed = out.value[0]
        return [("canary", z3.Not(z3.BoolVal(allowed) if isinstance(allowed, bool) else to_z3_bool(allowed)))] if self.cls_name != "MutableFileNode" else \
            [("canary", z3.BoolVal(allowed) if isinstance(allowed, bool) else to_z3_bool(allowed))]


AESF = z3.Function("aes_ctr", z3.StringSort(), z3.StringSort(), z3.StringSort())     # (key, data) -> data XOR keystream(key): its own inverse


class EncryptDecrypt(Spec):
    """_decrypt_rwcapdata(_encrypt_rw_uri(writekey, rw_uri)) == rw_uri, and different children / different write keys use
    different AES keys (no keystream reuse; the key cannot be derived without the write key)"""
    file = F
    qualname = "_encrypt_rw_uri"
    cross_check = 0
    raises = ()

    def inputs(self):
        return {"writekey": StrK(True), "writekey2": StrK(True), "rw": StrK(True), "rw2": StrK(True)}

    def hashes(self):
        HS = z3.Function("rwcap_salt_hash", z3.StringSort(), z3.StringSort())
        HK = z3.Function("rwcap_key_hash", z3.StringSort(), z3.StringSort(), z3.StringSort())
        HM = z3.Function("hmac", z3.StringSort(), z3.StringSort(), z3.StringSort())
        return HS, HK, HM

    def config(self):
        me = self
        HS, HK, HM = self.hashes()

        def fixed(I, term, n):
            I.ghost.setdefault("rope_fixed_len", {})[term.get_id()] = n
            return SStr(term, True, n)

        def create(I, a, kw):
            me._keys.append(as_sstr(a[0]).term)
            return ("aes", as_sstr(a[0]).term)

        def crypt(I, a, kw):
            key, data = a[0][1], z3.simplify(as_sstr(a[1]).term)
            if z3.is_app(data) and data.decl().eq(AESF) and z3.is_true(z3.simplify(data.arg(0) == key)):
                return SStr(data.arg(1), True)        # CTR with the same key and IV is an involution
            return SStr(AESF(key, data), True)
        return {"rope": True, "atoms": {},
                "overrides": {"hashutil.mutable_rwcap_salt_hash": lambda I, a, kw: fixed(I, HS(as_sstr(a[0]).term), 16),
                              "hashutil.mutable_rwcap_key_hash": lambda I, a, kw: fixed(I, HK(as_sstr(a[0]).term, as_sstr(a[1]).term), 16),
                              "hashutil.hmac": lambda I, a, kw: fixed(I, HM(as_sstr(a[0]).term, as_sstr(a[1]).term), 32),
                              "aes.create_encryptor": create, "aes.create_decryptor": create, "aes.encrypt_data": crypt, "aes.decrypt_data": crypt}}

    def run(self, I, a):
        M = self.module()
        self._keys = []
        c1 = I.call_value(self.target(I), [a["writekey"], a["rw"]], {})
        fnode = stub("filenode", get_writekey=lambda I_, a_, k_: a["writekey"])
        dn = SObj(M.DirectoryNode, {"_node": fnode})
        back = I.call_value(I.get_attr(dn, "_decrypt_rwcapdata"), [c1], {})
        k_enc = list(self._keys)
        self._keys = []
        I.call_value(self.target(I), [a["writekey"], a["rw2"]], {})
        k_other_child = list(self._keys)
        self._keys = []
        I.call_value(self.target(I), [a["writekey2"], a["rw"]], {})
        k_other_wk = list(self._keys)
        out = Outcome("return", back)
        out.post = {"k_enc": k_enc, "k_other_child": k_other_child, "k_other_wk": k_other_wk}
        return out

    def hypotheses(self, I, a, ob):
        HS, HK, HM = self.hashes()
        if "different" not in ob.name and "depends" not in ob.name and ob.name != "canary":
            return []
        exprs = [ob.goal] + list(ob.hyps)
        return injectivity_instances(HS, exprs) + injectivity_instances(HK, exprs)      # collision resistance, instantiated

    def ensures(self, I, a, out):
        p = out.post
        wk, wk2, rw, rw2 = (as_sstr(a[k]).term for k in ("writekey", "writekey2", "rw", "rw2"))
        g = [("decryption-under-the-same-write-key-returns-the-write-cap", as_sstr(out.value).term == rw),
             ("one-key-per-encryption", z3.BoolVal(len(p["k_enc"]) == 2 and len(p["k_other_child"]) == 1 and len(p["k_other_wk"]) == 1))]
        if len(p["k_enc"]) == 2 and p["k_other_child"] and p["k_other_wk"]:
            g += [("reader-and-writer-derive-the-same-key", p["k_enc"][0] == p["k_enc"][1]),
                  ("different-children-use-different-keys", z3.Implies(rw != rw2, p["k_enc"][0] != p["k_other_child"][0])),
                  ("the-key-depends-on-the-write-key", z3.Implies(wk != wk2, p["k_enc"][0] != p["k_other_wk"][0]))]
        return g

    def canary(self, I, a, out):
        return [("canary", out.post["k_enc"][0] == out.post["k_other_child"][0])]


def extra_checks(rep, tier):
    from contracts import grid_dirnode
    grid_dirnode.grid_check(rep, tier, "C19")


def contracts(tier):
    return [PackUnpack(), PackChildren(), ImmutableRefusal(), EncryptDecrypt()] + [AllowedInImmutable(*c) for c in ALLOWED_CLASSES]
