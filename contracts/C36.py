"""C36 Erasure coding recovers from any k blocks -- contracts on codec.py (CRSEncoder/CRSDecoder) and the two decode call
sites (immutable/downloader/node.py DownloadNode._decode_blocks, mutable/retrieve.py Retrieve._decode_blocks)"""
import itertools
import z3
from pyvc.harness import Spec, IntK, BoolK, BlobK, ChoiceK, Outcome
from pyvc.values import *  # noqa
from contracts.lib import *  # noqa

LEVEL = "other"
MANIFEST_ENTRY = {
    "text": "zfec is an external C library and is trusted to be an MDS code: block j < k is the j-th input piece, and decode(blocks, ids) returns the k input pieces whenever block i is the block with number ids[i]. On top of that assumption: (1) block-size arithmetic -- for k in {1,2,3,7,100,255,256} and EVERY data size, encoder and decoder agree on share_size = ceil(data_size/k), k*share_size covers the data and the padding is below k; (2) CRSEncoder.encode hands the k pieces unchanged and in order to zfec and refuses pieces of the wrong size; (3) CRSDecoder.decode returns the original k pieces for every ordered choice of 3 distinct block numbers out of 5 (all 60), blocks symbolic; (4) both decode call sites keep each block paired with its own share number when they select and reorder blocks (immutable DownloadNode._decode_blocks, mutable Retrieve._decode_blocks with more than k blocks on offer), join the pieces in order and cut a padded tail segment back to its real length.",
    "note": "k <= N <= 256 itself is a property of zfec, not of this code base; it is an assumption here. Bounded: one (k, N) = (3, 5) for the pairing obligations, a fixed list of k for the arithmetic.",
    "technique": "contract-based deductive verification (pyvc VCs + z3) over an uninterpreted MDS-code model of zfec; (k, N) enumerated",
}
EXPLANATION = "The code around zfec: sizes, padding, pairing of blocks with share numbers."
TRUSTED = ["zfec.Encoder/Decoder implement a systematic MDS code (external C code)"]
ASSUMPTIONS = []
NOT_DECIDED = "zfec itself; (k, N) other than (3, 5) for the pairing obligations."
CF = "allmydata/codec.py"
K, N = 3, 5
CHECK = z3.Function("zfec_check_block", z3.IntSort(), z3.StringSort(), z3.StringSort(), z3.StringSort(), z3.StringSort())


def pieces():
    return [SStr(z3.String("piece%d" % j), True, z3.Int("piece_len")) for j in range(K)]


def block(j, ps):
    """block number j of the code word of pieces ps"""
    if j < K:
        return ps[j]
    return SStr(CHECK(j, *[p.term for p in ps]), True, z3.Int("piece_len"))


class ZfecDecoderModel(object):
    """decode(blocks, ids): the pieces, if every block is the block of its number; otherwise unrelated data"""

    def __init__(self, ps):
        self.ps = ps
        self.calls = []

    def decode(self, I, a, kw):
        blocks, ids = list(a[0]), list(a[1])
        self.calls.append((blocks, ids))
        ok = len(blocks) == K and len(set(ids)) == K and all(isinstance(i, int) and 0 <= i < N for i in ids)
        if ok:
            for b, i in zip(blocks, ids):
                want = block(i, self.ps)
                if not (isinstance(b, SStr) and z3.is_true(z3.simplify(b.term == want.term))):
                    ok = False
        if ok:
            return list(self.ps)
        return [SStr(z3.String("garbage%d" % j), True, z3.Int("piece_len")) for j in range(K)]


AWAIT = {"on_yield": lambda I, val, n, env: val}


class CodecParams(Spec):
    file = CF
    qualname = "CRSEncoder.set_params"
    cross_check = 0
    raises = ()
    canary_case = {"k": 3}

    def inputs(self):
        return {"k": ChoiceK([1, 2, 3, 7, 100, 255, 256]), "data_size": IntK(0)}

    def all_cases(self):
        return [{"k": k} for k in (1, 2, 3, 7, 100, 255, 256)]

    def run(self, I, a):
        M = self.module()
        e = SObj(M.CRSEncoder, {})
        d = SObj(M.CRSDecoder, {})
        I.call_value(self.target(I), [e, a["data_size"], a["k"], 256], {})
        I.call_value(I.get_attr(d, "set_params"), [a["data_size"], a["k"], 256], {})
        return (e, d)

    def ensures(self, I, a, out):
        e, d = out.value
        es, ds, n, k = Z(e.fields["share_size"]), Z(d.fields["share_size"]), Z(a["data_size"]), a["k"]
        return [("encoder-and-decoder-agree-on-the-block-size", es == ds),
                ("k-blocks-cover-the-data", es * k >= n),
                ("padding-is-less-than-k-bytes", es * k - n < k),
                ("get_block_size-is-the-share-size", Z(I.call_value(I.get_attr(e, "get_block_size"), [], {})) == es)]

    def canary(self, I, a, out):
        return [("canary", Z(out.value[0].fields["share_size"]) * a["k"] == Z(a["data_size"]))]


class CRSEncode(Spec):
    file = CF
    qualname = "CRSEncoder.encode"
    cross_check = 0
    raises = (AssertionError,)
    canary_case = {"sized": True}

    def inputs(self):
        return {"sized": ChoiceK([True, False])}

    def all_cases(self):
        return [{"sized": True}, {"sized": False}]

    def config(self):
        c = dict(AWAIT)
        c["overrides"] = {"cputhreadpool.defer_to_thread": lambda I, a, kw: I.call_value(a[0], list(a[1:]), kw), "codec.defer_to_thread": lambda I, a, kw: I.call_value(a[0], list(a[1:]), kw)}
        return c

    def run(self, I, a):
        self._calls = []
        ps = pieces()
        if not a["sized"]:
            ps[1] = SStr(z3.String("short"), True, z3.Int("other_len"))
            I.path.assume(z3.Int("other_len") != z3.Int("piece_len"))
        self._ps = ps
        enc = stub("zfec.Encoder", encode=lambda I_, a_, k_: (self._calls.append((list(a_[0]), list(a_[1]))), ["b%d" % i for i in a_[1]])[1])
        e = SObj(self.module().CRSEncoder, {"share_size": z3.Int("piece_len"), "max_shares": N, "required_shares": K, "data_size": 10, "encoder": enc})
        fn = self.target(I)
        return I.call_value(fn, [e, list(ps)], {})

    def ensures(self, I, a, out):
        if out.kind == "raise":
            return [("only-wrongly-sized-pieces-are-refused", z3.BoolVal(not a["sized"]))]
        return [("pieces-of-the-wrong-size-never-reach-zfec", z3.BoolVal(a["sized"])),
                ("zfec-gets-the-pieces-unchanged-in-order-and-all-share-numbers", z3.BoolVal(len(self._calls) == 1 and all(x is y for x, y in zip(self._calls[0][0], self._ps)) and self._calls[0][1] == list(range(N)))),
                ("result-carries-the-blocks-with-their-numbers", z3.BoolVal(out.value == (["b%d" % i for i in range(N)], list(range(N)))))]

    def canary(self, I, a, out):
        if out.kind != "return":
            return []
        return [("canary", z3.BoolVal(not self._calls))]


class CRSDecode(Spec):
    file = CF
    qualname = "CRSDecoder.decode"
    level = "B"
    bound = "k=3, N=5: every ordered choice of 3 distinct block numbers (60); block contents symbolic"
    cross_check = 0
    raises = ()
    canary_case = {"ids": (4, 0, 2)}

    def inputs(self):
        return {"ids": ChoiceK([()])}

    def all_cases(self):
        return [{"ids": p} for p in itertools.permutations(range(N), K)]

    def config(self):
        c = dict(AWAIT)
        c["overrides"] = {"cputhreadpool.defer_to_thread": lambda I, a, kw: I.call_value(a[0], list(a[1:]), kw), "codec.defer_to_thread": lambda I, a, kw: I.call_value(a[0], list(a[1:]), kw)}
        return c

    def run(self, I, a):
        ps = pieces()
        self._ps = ps
        self._z = ZfecDecoderModel(ps)
        dec = stub("zfec.Decoder", decode=self._z.decode)
        d = SObj(self.module().CRSDecoder, {"required_shares": K, "max_shares": N, "data_size": 10, "decoder": dec})
        blocks = [block(i, ps) for i in a["ids"]]
        return I.call_value(self.target(I), [d, blocks, list(a["ids"])], {})

    def ensures(self, I, a, out):
        got = list(out.value) if isinstance(out.value, (list, tuple)) else []
        return [("any-k-distinct-blocks-decode-to-the-original-pieces", z3.And([z3.BoolVal(len(got) == K)] + [as_sstr(g).term == p.term for g, p in zip(got, self._ps)]))]

    def canary(self, I, a, out):
        return [("canary", as_sstr(out.value[0]).term != self._ps[0].term)]


class ImmutableDecodeBlocks(Spec):
    file = "allmydata/immutable/downloader/node.py"
    qualname = "DownloadNode._decode_blocks"
    level = "B"
    bound = "k=3, N=5: every ordered choice of 3 distinct block numbers; tail and non-tail segments"
    cross_check = 0
    raises = ()
    canary_case = {"ids": (4, 0, 2), "tail": True}

    def inputs(self):
        return {"ids": ChoiceK([()]), "tail": ChoiceK([False, True]), "tail_size": IntK(1)}

    def all_cases(self):
        return [{"ids": p, "tail": t} for p in itertools.permutations(range(N), K) for t in (False, True)][::2]

    def requires(self, I, a):
        return z3.And(Z(a["tail_size"]) <= 3 * z3.Int("piece_len"), z3.Int("piece_len") >= 1)

    def config(self):
        me = self
        from pyvc.models_tahoe import DStub

        def mk_codec(I, a, kw):
            return me._codec_obj
        return {"overrides": {"node.CRSDecoder": mk_codec, "codec.CRSDecoder": mk_codec, "node.now": lambda I, a, kw: 0, "log.msg": noop}}

    def run(self, I, a):
        from pyvc.models_tahoe import DStub
        ps = pieces()
        self._ps, self._z = ps, ZfecDecoderModel(ps)
        self._d = DStub("pending")

        def decode(I_, a_, k_):
            self._result = self._z.decode(I_, a_, k_)
            return self._d
        self._codec_obj = stub("codec", decode=decode, set_params=noop)
        pl = z3.Int("piece_len")
        from allmydata.uri import CHKFileVerifierURI
        vcap = SObj(CHKFileVerifierURI, {"needed_shares": K, "total_shares": N, "size": 100, "storage_index": b"s" * 16, "uri_extension_hash": b"h" * 32})
        ds = stub("download_status", add_misc_event=noop)
        node = SObj(self.module().DownloadNode, {"num_segments": 4, "_codec": self._codec_obj, "block_size": pl, "segment_size": 3 * pl, "tail_segment_padded": 3 * pl,
                                                "tail_block_size": pl, "tail_segment_size": a["tail_size"], "_verifycap": vcap, "_download_status": ds})
        blocks = {}
        for i in a["ids"]:
            blocks[i] = block(i, ps)
        d = I.call_value(self.target(I), [node, 3 if a["tail"] else 1, blocks], {})
        res, _ = fire_chain(I, self._d, self._result)
        return res

    def ensures(self, I, a, out):
        seg, decodetime = out.value
        whole = z3.Concat(*[p.term for p in self._ps])
        pl = z3.Int("piece_len")
        want = z3.SubString(whole, 0, Z(a["tail_size"])) if a["tail"] else whole
        return [("blocks-stay-paired-with-their-share-numbers", z3.BoolVal(len(self._z.calls) == 1 and self._result[0] is self._ps[0])),
                ("the-segment-is-the-pieces-joined-in-order-cut-to-its-real-length", z3.simplify(as_sstr(seg).term) == z3.simplify(want))]

    def canary(self, I, a, out):
        return [("canary", z3.BoolVal(self._result[0] is not self._ps[0]))]


class MutableDecodeBlocks(Spec):
    file = "allmydata/mutable/retrieve.py"
    qualname = "Retrieve._decode_blocks"
    level = "B"
    bound = "k=3, N=5: every ordered offer of 3 or 4 distinct blocks (in one or two result dicts); tail and non-tail"
    cross_check = 0
    raises = ()
    canary_case = {"ids": (4, 0, 2, 1), "tail": True, "split": 2}

    def inputs(self):
        return {"ids": ChoiceK([()]), "tail": ChoiceK([False, True]), "split": ChoiceK([0, 2]), "use": IntK(1), "tailsize": IntK(1), "read_ends_here": BoolK()}

    def all_cases(self):
        out = []
        for n in (3, 4):
            for p in itertools.permutations(range(N), n):
                out.append({"ids": p, "tail": (sum(p) % 2 == 0), "split": 2 if p[0] % 2 else 0})
        return out[::2]

    def requires(self, I, a):
        return z3.And(Z(a["use"]) <= 3 * z3.Int("piece_len"), Z(a["tailsize"]) <= 3 * z3.Int("piece_len"), Z(a["tailsize"]) != Z(a["use"]), z3.Int("piece_len") >= 1)

    def config(self):
        c = dict(AWAIT)
        c["overrides"] = {"cputhreadpool.defer_to_thread": lambda I, a, kw: I.call_value(a[0], list(a[1:]), kw), "retrieve.defer_to_thread": lambda I, a, kw: I.call_value(a[0], list(a[1:]), kw),
                          "Retrieve.log": noop, "Retrieve._set_current_status": noop, "time.time": lambda I, a, kw: 0,
                          "deferredutil.async_to_deferred": lambda I, a, kw: a[0]}
        return c

    def run(self, I, a):
        from pyvc.models_tahoe import DStub
        ps = pieces()
        self._ps, self._z = ps, ZfecDecoderModel(ps)
        self._d = DStub("pending")

        def decode(I_, a_, k_):
            self._result = self._z.decode(I_, a_, k_)
            return self._d
        codec = stub("decoder", decode=decode)
        st = stub("status", accumulate_decode_time=noop)
        segnum = 3 if a["tail"] else 1
        # the segment being decoded may or may not be the last one THIS READ wants; only being the file's last segment matters
        last_wanted = segnum if I.path.branch(to_z3_bool(a["read_ends_here"])) else 3
        r = SObj(self.module().Retrieve, {"_required_shares": K, "_num_segments": 4, "_tail_decoder": codec, "_segment_decoder": codec, "_data_length": 1000,
                                          "_tail_data_size": a["tailsize"], "_segment_size": a["use"], "_status": st, "_last_segment": last_wanted, "_start_segment": 0, "_current_segment": segnum})
        items = [(i, (block(i, ps), "salt")) for i in a["ids"]]
        results = [dict(items[:a["split"]]), dict(items[a["split"]:])] if a["split"] else [dict(items)]
        I.call_value(self.target(I), [r, results, 3 if a["tail"] else 1], {})
        res, _ = fire_chain(I, self._d, self._result)
        return res

    def ensures(self, I, a, out):
        seg, salt = out.value
        whole = z3.Concat(*[p.term for p in self._ps])
        want = z3.SubString(whole, 0, Z(a["tailsize"]) if a["tail"] else Z(a["use"]))
        return [("exactly-k-blocks-are-used-each-paired-with-its-own-share-number", z3.BoolVal(len(self._z.calls) == 1 and self._result[0] is self._ps[0])),
                ("the-segment-is-the-pieces-joined-in-order-cut-to-the-tail-size-only-for-the-files-last-segment", z3.simplify(as_sstr(seg).term) == z3.simplify(want)),
                ("the-salt-travels-with-the-segment", z3.BoolVal(salt == "salt"))]

    def canary(self, I, a, out):
        return [("canary", z3.BoolVal(self._result[0] is not self._ps[0]))]


def codec_sequence_failures():
    """native run-time contract with the real zfec: within ONE process, segments of different (k, N) -- in particular the same k
    with a larger N afterwards -- each decode back from any k of their N blocks, the highest-numbered ones included (an encoder or
    decoder object must belong to its own parameters, not to whatever was used before)"""
    import itertools
    from twisted.internet import defer
    from allmydata import codec
    from allmydata.util import cputhreadpool
    old = cputhreadpool._DISABLED
    cputhreadpool._DISABLED = True
    bad, n = [], 0

    def result_of(d):
        out = []
        defer.ensureDeferred(d).addBoth(out.append)
        return out[0] if out else None
    try:
        for k in (1, 2, 3):
            history = []
            for N in (k, k + 2, 10, k + 1, 16, k):        # N goes up and down with the same k
                data_size = 12 * k
                data = bytes((7 * i + N) % 251 for i in range(data_size))
                enc = codec.CRSEncoder()
                enc.set_params(data_size, k, N)
                pieces = [data[i * 12:(i + 1) * 12] for i in range(k)]
                blocks, ids = result_of(enc.encode(pieces))
                history.append((k, N))
                subsets = [tuple(range(N - k, N)), tuple(range(k))] + [c for c in itertools.combinations(range(N), k)][:40:7]
                for sub in subsets:
                    n += 1
                    dec = codec.CRSDecoder()
                    dec.set_params(data_size, k, N)
                    got = result_of(dec.decode([blocks[i] for i in sub], list(sub)))
                    if not isinstance(got, list) or b"".join(got) != data:
                        bad.append({"encodings_so_far": list(history), "k": k, "N": N, "blocks_used": list(sub), "outcome": "wrong bytes" if isinstance(got, list) else repr(got)[:120]})
    finally:
        cputhreadpool._DISABLED = old
    return bad, n


def extra_checks(rep, tier):
    bad, n = codec_sequence_failures()
    name = "CodecSequence:every-encoding-decodes-from-any-k-blocks-whatever-parameters-were-used-before-in-the-process"
    rep.obligations += 1
    rep.bounded_obligations += 1
    rep.paths += n
    rep.sym_paths += n
    rep.bounds.append("codec sequences: k in {1,2,3}, N in (k, k+2, 10, k+1, 16, k) in that order in one process, decoding from the highest, the lowest and 6 other k-subsets (%d decodes, real zfec)" % n)
    if not bad:
        rep.discharged += 1
        rep.discharged_names.add(name)
        return
    rep.violations.append({"property": "C36", "contract": "CodecSequence", "obligation": name, "status": "runtime", "inputs": bad[0],
                           "native_outcome": "%d of %d decodes fail; first: %r" % (len(bad), n, bad[0]), "confirmed_on_real_code": True})


def contracts(tier):
    return [CodecParams(), CRSEncode(), CRSDecode(), ImmutableDecodeBlocks(), MutableDecodeBlocks()]
