"""C20 Directory edits behave like a name map -- contracts on dirnode.update_metadata, Adder/Deleter/MetadataSetter.modify, move_child_to"""
import itertools
import z3
from pyvc.harness import Spec, IntK, ChoiceK, Outcome
from pyvc.interp import ModelFn
from pyvc.models_tahoe import DStub
from pyvc.values import *  # noqa
from contracts.lib import *  # noqa

LEVEL = "other"
MANIFEST_ENTRY = {
    "text": "update_metadata is proved for all timestamp values over the exhaustive partition of metadata shapes (None / ctime / tahoe / tahoe.linkcrtime present or absent, new metadata None / with or without its own 'tahoe' key): linkmotime == now, linkcrtime survives (old tahoe.linkcrtime, else old ctime, else now), user keys replaced, the stored 'tahoe' block kept. Adder/Deleter/MetadataSetter.modify are executed on children maps of enumerated shapes (entry absent / file / directory; overwrite True/False/ONLY_FILES; names incl. NFC/NFD-equivalent spellings): refused edits raise before anything is packed, accepted edits change exactly the named entry. move_child_to: refuses read-only ends, no-ops exactly on a rename to the same normalized name in the same directory, and chains the delete AFTER a successful link so a failed rename leaves the old link.",
    "note": "Shape-bounded (children maps of <= 2 entries, finite name sets), values symbolic; hence level 'other'. _unpack_contents/_pack_contents are stubs here (their round trip is C19). Deferred chains are recorded, not scheduled: operation histories over several directories are compositions of these per-call contracts.",
    "technique": "contract-based deductive verification (pyvc VCs + z3) over enumerated dictionary shapes",
}
MANIFEST_ENTRY["text"] += " Bounded end-to-end stand-in (run-time contract, never counted as proved): contracts/grid_dirnode.py drives real DirectoryNodes on real StorageServers through seeded histories of edits over 3..6 directories with NFC-colliding names, compares every listing (same client, fresh client with write cap, fresh client with read cap) with a name-map model and checks build_manifest/deep-stats against the model's graph."
MANIFEST_ENTRY["technique"] += "; plus bounded end-to-end run-time scenario contracts on an in-process grid of the real components (stand-in, labelled bounded)"
EXPLANATION = "dict-shape partition with symbolic timestamps; call-log ghost state for packing and Deferred chains."
TRUSTED = ["unicodedata.normalize (used natively on concrete names)"]
ASSUMPTIONS = []
NOT_DECIDED = "histories over three directories; MutableFileNode.modify retry loop."
F = "allmydata/dirnode.py"
MD_SHAPES = ["none", "empty", "ctime", "tahoe-empty", "tahoe-crtime", "ctime+tahoe-crtime", "ctime+tahoe-empty", "user+tahoe-crtime"]
NEW_SHAPES = ["none", "empty", "user", "user+tahoe", "no-write"]


def mk_md(shape, a):
    if shape == "none":
        return None
    d = {}
    if "ctime" in shape.split("+"):
        d["ctime"] = a["old_ctime"]
    if "user" in shape.split("+"):
        d["olduser"] = "x"
    for part in shape.split("+"):
        if part == "tahoe-empty":
            d["tahoe"] = {}
        elif part == "tahoe-crtime":
            d["tahoe"] = {"linkcrtime": a["old_crtime"], "linkmotime": a["old_motime"]}
    return d


def mk_new(shape, a):
    return {"none": None, "empty": {}, "user": {"newuser": "y"}, "user+tahoe": {"newuser": "y", "tahoe": {"linkcrtime": a["bogus"], "linkmotime": a["bogus"]}},
            "no-write": {"no-write": True}}[shape]


def md_obligations(prefix, old_shape, new_shape, a, md, now):
    """the documented timestamp / overwrite rules for one entry's metadata"""
    g = []
    t = md.get("tahoe", {}) if isinstance(md, dict) else {}
    ok = isinstance(md, dict) and isinstance(t, dict) and "linkmotime" in t and "linkcrtime" in t
    g.append((prefix + "has-link-times", z3.BoolVal(ok)))
    if not ok:
        return g
    g.append((prefix + "modification-time-is-now", Z(t["linkmotime"]) == Z(now)))
    parts = old_shape.split("+") if old_shape != "none" else []
    if "tahoe-crtime" in parts:
        want = a["old_crtime"]
    elif "ctime" in parts:
        want = a["old_ctime"]
    else:
        want = now
    g.append((prefix + "link-creation-time-survives", Z(t["linkcrtime"]) == Z(want)))
    user = sorted(k for k in md if k not in ("tahoe",))
    if new_shape == "none":
        want_user = sorted(k for k in (mk_md(old_shape, a) or {}) if k != "tahoe")
    else:
        want_user = sorted(k for k in mk_new(new_shape, a) if k != "tahoe")
    g.append((prefix + "user-metadata-replaced-only-when-given", z3.BoolVal(user == want_user)))
    return g


class UpdateMetadata(Spec):
    file = F
    qualname = "update_metadata"
    cross_check = 0

    def inputs(self):
        return {"old": ChoiceK(MD_SHAPES), "new": ChoiceK(NEW_SHAPES), "now": IntK(), "old_ctime": IntK(), "old_crtime": IntK(), "old_motime": IntK(), "bogus": IntK()}

    def all_cases(self):
        return [{"old": o, "new": n} for o in MD_SHAPES for n in NEW_SHAPES]

    def run(self, I, a):
        return I.call_value(self.target(I), [mk_md(a["old"], a), mk_new(a["new"], a), a["now"]], {})

    def ensures(self, I, a, out):
        return md_obligations("", a["old"], a["new"], a, out.value, a["now"])

    def canary(self, I, a, out):
        return [("canary", Z(out.value["tahoe"]["linkcrtime"]) == Z(a["now"]))]

    canary_case = {"old": "tahoe-crtime", "new": "user"}


def child(kind):
    import allmydata.dirnode as D
    import allmydata.immutable.literal as L
    cls = D.DirectoryNode if kind == "dir" else L.LiteralFileNode
    return SObj(cls, {"raise_error": ModelFn("raise_error", lambda I, a, k: None), "kind": kind})


NAMES = ["a", "café", "café", "b"]


class _Modifier(Spec):
    file = F
    cross_check = 0
    level = "B"
    bound = "children maps with <= 2 entries; names from {a, b, NFC cafe', NFD cafe'}; metadata shapes as in UpdateMetadata"

    def mk_node(self, I, children, packed):
        return stub("dirnode", _unpack_contents=lambda I_, a_, k_: children, _pack_contents=lambda I_, a_, k_: (packed.append(dict(a_[0])), "packed")[1])

    @property
    def raises(self):
        from allmydata.interfaces import ExistingChildError, NoSuchChildError, ChildOfWrongTypeError
        return (ExistingChildError, NoSuchChildError, ChildOfWrongTypeError)

    def config(self):
        ov = {"encodingutil.quote_output": lambda I, a, kw: Opaque("quoted")}
        return {"overrides": ov}


class AdderModify(_Modifier):
    qualname = "Adder.modify"
    canary_case = {"existing": "file", "overwrite": "True", "namex": "a", "new": "user", "old": "tahoe-crtime"}

    def inputs(self):
        return {"existing": ChoiceK(["absent", "file", "dir"]), "overwrite": ChoiceK(["True", "False", "ONLY_FILES"]), "namex": ChoiceK(NAMES),
                "new": ChoiceK(NEW_SHAPES), "old": ChoiceK(MD_SHAPES), "now0": IntK(), "old_ctime": IntK(), "old_crtime": IntK(), "old_motime": IntK(), "bogus": IntK()}

    def all_cases(self):
        cs = []
        for ex in ("absent", "file", "dir"):
            for ow in ("True", "False", "ONLY_FILES"):
                for nm in NAMES[:3]:
                    for new in ("none", "user", "user+tahoe"):
                        for old in (("tahoe-crtime", "ctime", "empty") if ex != "absent" else ("none",)):
                            cs.append({"existing": ex, "overwrite": ow, "namex": nm, "new": new, "old": old})
        return cs

    def run(self, I, a):
        from allmydata.util.encodingutil import normalize
        mod = self.module()
        ow = {"True": True, "False": False, "ONLY_FILES": mod.ONLY_FILES}[a["overwrite"]]
        other = child("file")
        children = {"other": (other, {"tahoe": {"linkcrtime": 1, "linkmotime": 2}})}
        # the existing entry is stored under the NORMALIZED spelling of "cafe'" / "a"
        stored = normalize("café") if a["namex"].startswith("caf") else a["namex"]
        old_child = None
        if a["existing"] != "absent":
            old_child = child(a["existing"])
            children[stored] = (old_child, mk_md(a["old"], a))
        before = dict(children)
        packed = []
        newchild = child("file")
        I.cfg["clock_values"] = [a["now0"]]
        adder = SObj(mod.Adder, {"node": self.mk_node(I, children, packed), "entries": {a["namex"]: (newchild, mk_new(a["new"], a))}, "overwrite": ow,
                                  "create_readonly_node": None})
        try:
            out = Outcome("return", I.call_value(self.target(I), [adder, "old-contents", None, True], {}))
        except PyRaise as pr:
            out = Outcome("raise", exc=pr.exc, exc_cls=pr.cls)
        out.post = {"packed": packed, "before": before, "stored": stored, "newchild": newchild, "other": other}
        return out

    def ensures(self, I, a, out):
        p = out.post
        refuse = (a["existing"] != "absent" and a["overwrite"] == "False") or (a["existing"] == "dir" and a["overwrite"] == "ONLY_FILES")
        if out.kind == "raise":
            from allmydata.interfaces import ExistingChildError
            return [("refused-only-when-the-overwrite-mode-forbids-it", z3.BoolVal(refuse and out.exc_cls is ExistingChildError)),
                    ("refused-add-stores-nothing", z3.BoolVal(p["packed"] == []))]
        g = [("forbidden-overwrite-is-refused", z3.BoolVal(not refuse)), ("packed-exactly-once", z3.BoolVal(len(p["packed"]) == 1))]
        if len(p["packed"]) != 1:
            return g
        ch = p["packed"][0]
        g.append(("stored-under-the-normalized-name-only", z3.BoolVal(sorted(ch) == sorted({"other", p["stored"]}))))
        g.append(("other-entries-untouched", z3.BoolVal(ch.get("other") is p["before"]["other"])))
        if p["stored"] in ch:
            g.append(("entry-holds-the-new-child", z3.BoolVal(ch[p["stored"]][0] is p["newchild"])))
            g += md_obligations("entry-", a["old"] if a["existing"] != "absent" else "none", a["new"], a, ch[p["stored"]][1], a["now0"])
        return g

    def canary(self, I, a, out):
        return [("canary", z3.BoolVal(out.post["packed"] == []))]


class DeleterModify(_Modifier):
    qualname = "Deleter.modify"
    canary_case = {"existing": "file", "must_exist": True, "first_time": True, "must_be": "any"}

    def inputs(self):
        return {"existing": ChoiceK(["absent", "file", "dir"]), "must_exist": ChoiceK([True, False]), "first_time": ChoiceK([True, False]),
                "must_be": ChoiceK(["any", "dir", "file"])}

    def all_cases(self):
        return [{"existing": e, "must_exist": m, "first_time": f, "must_be": mb} for e in ("absent", "file", "dir") for m in (True, False)
                for f in (True, False) for mb in ("any", "dir", "file")]

    def run(self, I, a):
        mod = self.module()
        other = child("file")
        children = {"other": (other, {})}
        if a["existing"] != "absent":
            children["café"] = (child(a["existing"]), {})
        before = dict(children)
        packed = []
        de = SObj(mod.Deleter, {"node": self.mk_node(I, children, packed), "name": "café", "must_exist": a["must_exist"],
                                "must_be_directory": a["must_be"] == "dir", "must_be_file": a["must_be"] == "file"})
        try:
            out = Outcome("return", I.call_value(self.target(I), [de, "old", None, a["first_time"]], {}))
        except PyRaise as pr:
            out = Outcome("raise", exc=pr.exc, exc_cls=pr.cls)
        out.post = {"packed": packed, "before": before}
        return out

    def ensures(self, I, a, out):
        from allmydata.interfaces import NoSuchChildError, ChildOfWrongTypeError
        p = out.post
        wrong = (a["must_be"] == "dir" and a["existing"] == "file") or (a["must_be"] == "file" and a["existing"] == "dir")
        if out.kind == "raise":
            want = NoSuchChildError if a["existing"] == "absent" else ChildOfWrongTypeError
            ok = (a["existing"] == "absent" and a["must_exist"] and a["first_time"]) or (a["existing"] != "absent" and wrong)
            return [("error-only-for-missing-or-wrong-typed-child", z3.BoolVal(ok and out.exc_cls is want)), ("failed-delete-stores-nothing", z3.BoolVal(p["packed"] == []))]
        if a["existing"] == "absent":
            return [("absent-child-without-must_exist-is-a-no-op", z3.BoolVal(out.value is None and p["packed"] == [] and not (a["must_exist"] and a["first_time"])))]
        return [("type-constraint-enforced", z3.BoolVal(not wrong)),
                ("exactly-the-named-entry-is-removed", z3.BoolVal(len(p["packed"]) == 1 and sorted(p["packed"][0]) == ["other"] and p["packed"][0]["other"] is p["before"]["other"]))]

    def canary(self, I, a, out):
        return [("canary", z3.BoolVal(out.post["packed"] == []))]


class MetadataSetterModify(_Modifier):
    qualname = "MetadataSetter.modify"
    canary_case = {"existing": "file", "new": "user", "old": "tahoe-crtime"}

    def inputs(self):
        return {"existing": ChoiceK(["absent", "file"]), "new": ChoiceK(NEW_SHAPES), "old": ChoiceK(MD_SHAPES), "now0": IntK(), "old_ctime": IntK(),
                "old_crtime": IntK(), "old_motime": IntK(), "bogus": IntK()}

    def all_cases(self):
        return [{"existing": e, "new": n, "old": o} for e in ("absent", "file") for n in ("none", "user", "user+tahoe", "empty") for o in ("tahoe-crtime", "ctime", "empty")]

    def run(self, I, a):
        mod = self.module()
        children = {"other": (child("file"), {})}
        old_child = child("file")
        if a["existing"] != "absent":
            children["x"] = (old_child, mk_md(a["old"], a))
        before = dict(children)
        packed = []
        I.cfg["clock_values"] = [a["now0"]]
        ms = SObj(mod.MetadataSetter, {"node": self.mk_node(I, children, packed), "name": "x", "metadata": mk_new(a["new"], a), "create_readonly_node": None})
        try:
            out = Outcome("return", I.call_value(self.target(I), [ms, "old", None, True], {}))
        except PyRaise as pr:
            out = Outcome("raise", exc=pr.exc, exc_cls=pr.cls)
        out.post = {"packed": packed, "before": before, "old_child": old_child}
        return out

    def ensures(self, I, a, out):
        p = out.post
        if out.kind == "raise":
            from allmydata.interfaces import NoSuchChildError
            return [("error-only-for-a-missing-child", z3.BoolVal(a["existing"] == "absent" and out.exc_cls is NoSuchChildError)),
                    ("failed-set-metadata-stores-nothing", z3.BoolVal(p["packed"] == []))]
        ch = p["packed"][0] if len(p["packed"]) == 1 else {}
        g = [("missing-child-is-an-error", z3.BoolVal(a["existing"] != "absent")),
             ("same-child-other-entries-untouched", z3.BoolVal(len(p["packed"]) == 1 and sorted(ch) == ["other", "x"] and ch["x"][0] is p["old_child"] and ch["other"] is p["before"]["other"]))]
        if "x" in ch:
            g += md_obligations("entry-", a["old"], a["new"], a, ch["x"][1], a["now0"])
        return g

    def canary(self, I, a, out):
        return [("canary", z3.BoolVal(out.post["packed"] == []))]


class MoveChildTo(Spec):
    file = F
    qualname = "DirectoryNode.move_child_to"
    level = "B"
    bound = "names from {a, b, NFC/NFD spellings of cafe', None}; same/different parent; read-only flags"
    cross_check = 0
    canary_case = {"cur": "a", "new": "b", "same": True, "ro_self": False, "ro_new": False}

    def inputs(self):
        return {"cur": ChoiceK(NAMES), "new": ChoiceK(NAMES + [None]), "same": ChoiceK([True, False]), "ro_self": ChoiceK([False, True]), "ro_new": ChoiceK([False, True])}

    def all_cases(self):
        return [{"cur": c, "new": n, "same": s, "ro_self": rs, "ro_new": rn} for c in NAMES for n in NAMES + [None] for s in (True, False)
                for rs, rn in ((False, False), (True, False), (False, True))]

    def run(self, I, a):
        log = []
        pending = DStub()

        def mk_dir(uri, ro, tag):
            def set_node(I_, args, kw):
                log.append(("set_node", tag, args[0], args[1], args[2], kw.get("overwrite")))
                return DStub()
            d = SObj(self.module().DirectoryNode, {})
            d.fields.update({"is_readonly": ModelFn("is_readonly", lambda I_, a_, k_: ro), "get_write_uri": ModelFn("get_write_uri", lambda I_, a_, k_: uri),
                             "set_node": ModelFn("set_node", set_node),
                             "delete": ModelFn("delete", lambda I_, a_, k_: (log.append(("delete", tag, a_[0])), DStub())[1]),
                             "get_child_and_metadata": ModelFn("gcam", lambda I_, a_, k_: (log.append(("get", tag, a_[0])), pending)[1])})
            return d
        src = mk_dir(b"URI:DIR2:src", a["ro_self"], "src")
        dst = src if a["same"] else mk_dir(b"URI:DIR2:dst", a["ro_new"], "dst")
        if a["same"] and a["ro_new"]:
            raise PathEnd()
        r = I.call_value(self.target(I), [src, a["cur"], dst, a["new"], "OW"], {})
        # run the callback chain as Twisted would on success of each step
        ran = []
        if r is pending:
            val = ("the-child", {"md": 1})
            for (kind, fn, args, kw) in pending.callbacks:
                ran.append(kind)
                val = I.call_value(fn, [val] + list(args), kw)
        out = Outcome("return", r)
        out.post = {"log": log, "pending": pending, "ran": ran}
        return out

    def ensures(self, I, a, out):
        from allmydata.util.encodingutil import normalize
        from allmydata.mutable.common import NotWriteableError
        r, log = out.value, out.post["log"]
        cur = normalize(a["cur"])
        new = cur if a["new"] is None else normalize(a["new"])
        ro = a["ro_self"] or a["ro_new"]
        if ro:
            return [("read-only-end-refused-before-anything-happens", z3.BoolVal(isinstance(r, DStub) and r.state == "failed" and isinstance(r.value, SObj)
                                                                                 and r.value.cls is NotWriteableError and log == []))]
        if a["same"] and new == cur:
            return [("rename-to-the-same-normalized-name-is-a-no-op", z3.BoolVal(isinstance(r, DStub) and r.state == "succeeded" and log == []))]
        dst = "src" if a["same"] else "dst"
        want = [("get", "src", cur), ("set_node", dst, new, "the-child", {"md": 1}, "OW"), ("delete", "src", cur)]
        return [("looks-up-links-then-deletes-in-that-order-with-normalized-names", z3.BoolVal(log == want)),
                ("delete-is-chained-after-the-link-succeeds", z3.BoolVal(r is out.post["pending"] and out.post["ran"] == ["addCallback", "addCallback"]))]

    def canary(self, I, a, out):
        return [("canary", z3.BoolVal(out.post["log"] == []))]


def extra_checks(rep, tier):
    from contracts import grid_dirnode
    grid_dirnode.grid_check(rep, tier, "C20")


def contracts(tier):
    return [UpdateMetadata(), AdderModify(), DeleterModify(), MetadataSetterModify(), MoveChildTo()]
