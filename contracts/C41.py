"""C41 Web API never exceeds the authority of the capability used -- contracts on dirnode.py (every DirectoryNode
mutator), mutable/filenode.py (MutableFileVersion write entry points, get_write_uri), nodemaker.py (shared with C16)"""
import ast
import os
import z3
from pyvc.harness import Spec, IntK, BoolK, ChoiceK, Outcome
from pyvc.values import *  # noqa
from contracts.lib import *  # noqa
from contracts import C16

LEVEL = "other"
MANIFEST_ENTRY = {
    "text": "Node-level refusal, which every web handler goes through: the set of DirectoryNode mutators is computed from the real AST on every run (the methods that reach self._node.modify, directly or through another mutator; a method added later without a contract makes the check UNDECIDED). For each of them (set_uri, set_children, set_node, set_nodes, add_file, delete, create_subdirectory, move_child_to, set_metadata_for), on a read-only directory node and for arbitrary arguments: no upload is started, no directory is created and no writeable node is modified (the directory read that move_child_to chains is run to completion in the model), and the request ends in NotWriteableError or is handed to the read-only backing file's own modify(); that one refuses: MutableFileVersion.overwrite / modify assert on a read-only version before any work is queued. move_child_to changes nothing when EITHER directory is read-only. get_write_uri() of DirectoryNode and MutableFileNode is None whenever the node is read-only, and constant None for immutable/literal files -- the JSON and HTML renderers take write caps only from get_write_uri(). The node handed out for a read cap is never a cached read-write node (NodeMaker contract of C16, re-run here).",
    "note": "The web layer itself (web/directory.py, web/filenode.py: which handler is chosen for which t= parameter, their own early is_readonly checks, the private-area token) is not under contract; the claim is that whatever handler runs cannot change the grid through a read-only node, and can learn a write cap only from get_write_uri(). Arguments of the mutators are opaque stubs.",
    "technique": "contract-based deductive verification (pyvc VCs + z3); mutator set extracted from the AST; Deferred-chain model",
}
MANIFEST_ENTRY["text"] += " Bounded end-to-end stand-in (run-time contract, never counted as proved): contracts/grid_web.py renders the real web resources (URIHandler, directory and file handlers) in memory over the real in-process grid, sends every mutating request form through read caps (must be refused, share files byte-identical afterwards), and searches every response obtained through a read cap for the write caps of the tree."
MANIFEST_ENTRY["technique"] += "; plus bounded end-to-end run-time scenario contracts on an in-process grid of the real components (stand-in, labelled bounded)"
EXPLANATION = "Read-only refusal as a frame condition on every mutator."
TRUSTED = ["web renderers obtain write caps only via get_write_uri() (checked by grep in the contract, not proved)"]
ASSUMPTIONS = []
NOT_DECIDED = "web handler dispatch; TokenChecker for the private area."
DN = "allmydata/dirnode.py"
KNOWN = ("set_uri", "set_children", "set_node", "set_nodes", "add_file", "delete", "create_subdirectory", "move_child_to", "set_metadata_for")


def mutators_from_ast():
    repo = os.environ.get("VERIF_REPO", "/repo")
    src = open(os.path.join(repo, "src", DN)).read()
    tree = ast.parse(src)
    cls = [n for n in tree.body if isinstance(n, ast.ClassDef) and n.name == "DirectoryNode"][0]
    meths = {n.name: n for n in cls.body if isinstance(n, (ast.FunctionDef, ast.AsyncFunctionDef))}

    def calls(node):
        out = set()
        for c in ast.walk(node):
            if isinstance(c, ast.Call) and isinstance(c.func, ast.Attribute):
                f = c.func
                if f.attr == "modify" and isinstance(f.value, ast.Attribute) and f.value.attr == "_node":
                    out.add("<modify>")
                elif isinstance(f.value, ast.Name) and f.value.id in ("self", "new_parent"):
                    out.add(f.attr)
        return out
    cg = {n: calls(m) for n, m in meths.items()}
    mut = {n for n, c in cg.items() if "<modify>" in c}
    changed = True
    while changed:
        changed = False
        for n, c in cg.items():
            if n not in mut and c & mut and not n.startswith("_"):
                mut.add(n)
                changed = True
    return sorted(mut)


def args_for(name, I, other):
    child = stub("child")
    from contracts.C19 import fs_node_cls
    child.cls = fs_node_cls()
    return {"set_uri": ["name", b"URI:CHK:w", b"URI:CHK:r"], "set_children": [{"n": (b"URI:CHK:w", b"URI:CHK:r")}], "set_node": ["name", child],
            "set_nodes": [{"n": (child, {})}], "add_file": ["name", stub("uploadable")], "delete": ["name"], "create_subdirectory": ["name"],
            "move_child_to": ["name", other], "set_metadata_for": ["name", {}]}[name]


class DirnodeRefusal(Spec):
    file = DN
    cross_check = 0
    raises = ()

    def __init__(self, method):
        self.method = method
        self.qualname = "DirectoryNode." + method

    @property
    def name(self):
        return "DirnodeRefusal_" + self.method

    def inputs(self):
        return {"self_ro": ChoiceK([True, False]), "other_ro": ChoiceK([True, False])}

    def all_cases(self):
        if self.method == "move_child_to":
            return [{"self_ro": a, "other_ro": b} for a in (True, False) for b in (True, False)]
        return [{"self_ro": True, "other_ro": False}]

    def config(self):
        me = self
        from pyvc.models_tahoe import DStub

        def reader(I, a, kw):
            me._effects.append("read")
            d = DStub("pending")
            me._reads.append(d)
            return d
        def dctx(I, a, kw):
            d = a[0]

            def add(I_, a_, k_):
                I.call_value(I.get_attr(d, "addCallback"), list(a_), k_)
                return w
            w = stub("DeferredContext", addCallback=add, addActionFinish=lambda I_, a_, k_: d, result=d)
            return w
        return {"overrides": {"dirnode.normalize": lambda I, a, kw: a[0], "log.msg": noop, "twisted.DeferredContext": dctx, "dirnode.DeferredContext": dctx,
                              "DirectoryNode._read": reader, "DirectoryNode.get_child_and_metadata": reader}}

    def run(self, I, a):
        from pyvc.models_tahoe import DStub
        from contracts.C19 import fs_node_cls
        M = self.module()
        self._effects, self._reads = [], []

        def fsnode(name):
            n = stub(name, raise_error=noop)
            n.cls = fs_node_cls()
            return n

        def mk(ro, tag):
            node = stub("filenode-" + tag, is_readonly=lambda I_, a_, k_: ro, is_mutable=lambda I_, a_, k_: True,
                        modify=lambda I_, a_, k_: (self._effects.append("modify-%s-%s" % (tag, "ro" if ro else "rw")), DStub("pending"))[1], get_writekey=lambda I_, a_, k_: b"k")
            up = stub("uploader", upload=lambda I_, a_, k_: (self._effects.append("upload"), DStub("pending"))[1])
            nm = stub("nodemaker", create_new_mutable_directory=lambda I_, a_, k_: (self._effects.append("mkdir"), DStub("pending"))[1],
                      create_immutable_directory=lambda I_, a_, k_: (self._effects.append("mkdir"), DStub("pending"))[1],
                      create_from_cap=lambda I_, a_, k_: fsnode("made"))
            uri = stub("uri-" + tag, to_string=lambda I_, a_, k_: b"URI:DIR2:" + tag.encode())
            return SObj(M.DirectoryNode, {"_node": node, "_uploader": up, "_nodemaker": nm, "_uri": uri})
        me_ = mk(a["self_ro"], "self")
        other = mk(a["other_ro"], "other")
        v = I.call_value(self.target(I), [me_] + args_for(self.method, I, other), {})
        final = v
        for d in list(self._reads):          # the directory read succeeds: run what was chained on it
            final, _ = fire_chain(I, d, (fsnode("child"), {}))
        return (v, final)

    def ensures(self, I, a, out):
        from pyvc.models_tahoe import DStub
        from allmydata.mutable.common import NotWriteableError
        v, final = out.value

        def failed_nwe(x):
            if isinstance(x, DStub):
                if x.state != "failed":
                    return False
                x = x.value
            exc = getattr(x, "exc", x)
            return isinstance(exc, NotWriteableError) or (isinstance(exc, SObj) and exc.cls is NotWriteableError) or getattr(x, "exc_cls", None) is NotWriteableError
        must = a["self_ro"] or (self.method == "move_child_to" and a["other_ro"])
        eff = self._effects
        if must:
            harmless = all(e == "read" or (e.startswith("modify-") and e.endswith("-ro")) for e in eff)
            delegated = any(e.startswith("modify-") and e.endswith("-ro") for e in eff)
            return [("no-upload-no-new-directory-no-write-to-a-writeable-node", z3.BoolVal(harmless)),
                    ("the-request-is-refused-or-left-to-the-read-only-file-node-which-refuses", z3.BoolVal(failed_nwe(v) or failed_nwe(final) or delegated))]
        return [("a-writeable-directory-is-not-refused", z3.BoolVal(not failed_nwe(v)))]

    def canary(self, I, a, out):
        return [("canary", z3.BoolVal(False))]
    canary_case = {"self_ro": True, "other_ro": False}


class NewMutator(Spec):
    """every mutator found in the AST has a contract"""
    file = DN
    qualname = "DirectoryNode.set_node"
    cross_check = 0
    raises = ()
    canary = None

    def inputs(self):
        return {}

    def run(self, I, a):
        found = mutators_from_ast()
        unknown = [m for m in found if m not in KNOWN]
        if unknown:
            raise Undecided("DirectoryNode mutators without a contract: %r" % unknown)
        return found

    def ensures(self, I, a, out):
        return [("the-contracted-mutators-are-the-ones-reaching-modify", z3.BoolVal(set(out.value) == set(KNOWN)))]


class VersionRefusal(Spec):
    file = "allmydata/mutable/filenode.py"
    cross_check = 0
    raises = (AssertionError,)
    no_normal_path_ok = True
    canary = None

    def __init__(self, method):
        self.method = method
        self.qualname = "MutableFileVersion." + method

    @property
    def name(self):
        return "VersionRefusal_" + self.method

    def inputs(self):
        return {}

    def config(self):
        me = self
        return {"overrides": {"MutableFileVersion._do_serialized": lambda I, a, kw: me._effects.append("queued")}}

    def run(self, I, a):
        self._effects = []
        v = SObj(self.module().MutableFileVersion, {"_writekey": None})
        args = {"overwrite": [stub("uploadable")], "modify": [stub("modifier")], "update": [stub("data"), 0]}[self.method]
        try:
            return Outcome("return", I.call_value(self.target(I), [v] + args, {}))
        except PyRaise as pr:
            return Outcome("raise", exc=pr.exc, exc_cls=pr.cls)

    def ensures(self, I, a, out):
        return [("a-read-only-version-refuses-to-write", z3.BoolVal(out.kind == "raise")),
                ("nothing-is-queued", z3.BoolVal(self._effects == []))]


WRITE_URI_CLASSES = [("allmydata/dirnode.py", "DirectoryNode", "_node", None), ("allmydata/mutable/filenode.py", "MutableFileNode", "_uri", None),
                     ("allmydata/immutable/filenode.py", "ImmutableFileNode", None, None), ("allmydata/immutable/literal.py", "LiteralFileNode", None, "_ImmutableFileNodeBase")]


class WriteUri(Spec):
    cross_check = 0
    raises = ()

    def __init__(self, file, cls, inner, owner):
        self.file, self.cls_name, self.inner = file, cls, inner
        self.qualname = (owner or cls) + ".get_write_uri"

    @property
    def name(self):
        return "WriteUri_" + self.cls_name

    def inputs(self):
        return {"readonly": BoolK()}

    def run(self, I, a):
        cls = getattr(self.module(), self.cls_name)
        fields = {}
        if self.inner == "_node":
            fields["_node"] = stub("inner", is_readonly=lambda I_, a_, k_: a["readonly"])
            fields["_uri"] = stub("uri", to_string=lambda I_, a_, k_: b"URI:DIR2:w")
        elif self.inner == "_uri":
            fields["_uri"] = stub("uri", is_readonly=lambda I_, a_, k_: a["readonly"], to_string=lambda I_, a_, k_: b"URI:SSK:w")
        return I.call_value(self.target(I), [SObj(cls, fields)], {})

    def ensures(self, I, a, out):
        ro = to_z3_bool(a["readonly"])
        if self.inner is None:
            return [("immutable-files-have-no-write-cap", z3.BoolVal(out.value is None))]
        return [("no-write-cap-through-a-read-only-node", z3.Implies(ro, z3.BoolVal(out.value is None))),
                ("a-writeable-node-reports-its-cap", z3.Implies(z3.Not(ro), z3.BoolVal(out.value is not None)))]

    def canary(self, I, a, out):
        return [("canary", z3.BoolVal(out.value is not None))]


def extra_checks(rep, tier):
    from contracts import grid_web
    grid_web.grid_check(rep, tier, "C41")


def contracts(tier):
    cs = [NewMutator()] + [DirnodeRefusal(m) for m in KNOWN] + [VersionRefusal(m) for m in ("overwrite", "modify")]
    cs += [WriteUri(*c) for c in WRITE_URI_CLASSES]
    cs += [c for c in C16.contracts(tier) if type(c).__name__ == "NodeCache"]
    return cs
