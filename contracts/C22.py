"""C22 Immutable share storage semantics -- contracts on storage/immutable.py (ShareFile, BucketWriter)"""
import os
import z3
from pyvc.harness import Spec, IntK, BoolK, BytesArrK, ChoiceK, Outcome
from pyvc.interp import ModelFn
from pyvc.values import *  # noqa
from pyvc.models_ext2 import FileObj, PathTok, disk_get
from contracts.lib import *  # noqa

LEVEL = "other"
MANIFEST_ENTRY = {
    "text": "Unbounded proofs (all file contents, offsets, lengths) for ShareFile open/read/write: reads return exactly the stored bytes clipped at the data end and never lease bytes; oversized writes are refused without change; exactly the written range changes. BucketWriter.write conflict detection is checked with the written-range map bounded to <= 2 existing ranges (symbolic bounds and bytes); close/abort/timeout/disconnect release the reservation and remove the incoming file. Level 'other' because part of the obligations are shape-bounded.",
    "note": "Unbounded: ShareFileOpen, ReadShareData, WriteShareData, Abort*, Close. Bounded (labelled B in evidence): BucketWriterWrite (<=2 ranges already written). RangeMap is the /verif/shims stand-in (collections_extended is absent from the sandbox) executed symbolically = assumed contract. Directory operations are abstract (rename atomic). Histories over several storage indexes are compositions of these per-call contracts; get_shares/get_buckets listing is not under contract.",
    "technique": "contract-based deductive verification (pyvc VCs + z3/cvc5); shape-bounded symbolic execution for the range map",
}
MANIFEST_ENTRY["text"] += " Bounded end-to-end stand-in (run-time contract, never counted as proved): contracts/grid_http.py drives the real StorageServer through seeded histories (allocate, chunked/overlapping/conflicting/overrunning writes, abort, 31-minute timeout, reads, leases, read-test-write with failing tests, truncation, deletion, wrong write enabler) and compares it after every operation with a plain byte-array model: visible shares, bytes, space reserved for uploads in progress, mutable slots."
MANIFEST_ENTRY["technique"] = MANIFEST_ENTRY.get("technique", "contract-based deductive verification: pre/postconditions on the real functions, VCs generated from the AST, discharged by z3/cvc5") + "; plus a bounded run-time contract: the real StorageServer against a byte-array model over seeded histories (stand-in, labelled bounded)"
EXPLANATION = "ShareFile/BucketWriter methods against an array model of the share file."
TRUSTED = ["file model (DESIGN 2.6)", "struct codec (DESIGN 2.6)", "RangeMap stand-in as assumed contract", "twisted DelayedCall: cancel()/reset() raise AlreadyCalled/AlreadyCancelled unless active()"]
ASSUMPTIONS = ["termination not proved"]
NOT_DECIDED = "share discovery (get_shares/get_buckets), multi-index histories, Foolscap wrappers."
F = "allmydata/storage/immutable.py"
LS = 72


def nl(c):
    return be(c, 8, 4)


def WFI(c, n):
    """well-formed immutable share file: version 1|2, header data-length field saturating, room for the leases"""
    datalen = n - 12 - LS * nl(c)
    return z3.And(be_facts(c, 0, 4), be_facts(c, 4, 4), be_facts(c, 8, 4), z3.Or(be(c, 0, 4) == 1, be(c, 0, 4) == 2),
                  datalen >= 0, be(c, 4, 4) == z3.If(datalen < 2 ** 32 - 1, datalen, 2 ** 32 - 1))


def gen_share(rng):
    import tempfile, shutil
    from allmydata.storage.immutable import ShareFile
    from allmydata.storage.lease import LeaseInfo
    d = tempfile.mkdtemp(prefix="pyvc-")
    try:
        p = os.path.join(d, "s")
        size = rng.randint(0, 80)
        sf = ShareFile(p, max_size=size, create=True)
        for i in range(rng.randint(0, 3)):
            sf.add_lease(LeaseInfo(i, bytes([i + 1]) * 32, bytes([i + 9]) * 32, 1000 + i, b"N" * 20))
        for _ in range(rng.randint(0, 3)):
            o = rng.randint(0, size)
            sf.write_share_data(o, bytes(rng.randrange(256) for _ in range(rng.randint(0, size - o))))
        data = open(p, "rb").read()
        # a lease-free share shorter than max_size is padded so that the header field matches the data length
        want = 12 + size + 72 * int.from_bytes(data[8:12], "big")
        if len(data) < want:
            data = data + b"\x00" * (want - len(data))
        return data
    finally:
        shutil.rmtree(d, ignore_errors=True)


class ShareFileOpen(Spec):
    """ShareFile(filename) on an existing file: the data region is everything between the 12-byte header and the
    lease records counted by the header, whatever the (legacy, saturating) length field says."""
    file = F
    qualname = "ShareFile.__init__"
    cross_check = 30
    raises = ()

    def inputs(self):
        return {"file0": FileK(gen_share, maxlen_model=3000)}

    def requires(self, I, a):
        c, n = as_arr(a["file0"])
        return WFI(c, n)

    def run(self, I, a):
        put_file(I, "home", a["file0"])
        sf = I.call_value(self.module().ShareFile, [PathTok("home")], {})
        out = Outcome("return", None)
        out.post = {k: sf.fields.get(k) for k in ("_lease_offset", "_length", "_num_leases", "_data_offset")}
        out.post["version"] = sf.fields["_schema"].version
        return out

    def native(self, a):
        from allmydata.storage.immutable import ShareFile
        with TempDir() as d:
            p = os.path.join(d, "share")
            with open(p, "wb") as fh:
                fh.write(a["file0"])
            out = native_outcome(lambda: ShareFile(p))
            if out.kind == "return":
                sf = out.value
                out.post = {k: getattr(sf, k) for k in ("_lease_offset", "_length", "_num_leases", "_data_offset")}
                out.post["version"] = sf._schema.version
                out.value = None
            return out

    def ensures(self, I, a, out):
        c, n = as_arr(a["file0"])
        p = out.post
        return [("lease-offset-is-filesize-minus-lease-records", Z(p["_lease_offset"]) == n - LS * nl(c)),
                ("length-is-data-region-size", Z(p["_length"]) == n - 12 - LS * nl(c)),
                ("num-leases-from-header", Z(p["_num_leases"]) == nl(c)),
                ("data-offset-12", Z(p["_data_offset"]) == 12),
                ("schema-version-from-header", Z(p["version"]) == be(c, 0, 4))]

    def canary(self, I, a, out):
        c, n = as_arr(a["file0"])
        return [("canary", Z(out.post["_length"]) == be(c, 4, 4))]

    def same_result(self, n, s):
        from pyvc.runner import plain_equal
        return plain_equal(n.post, s.post)


class _SF(Spec):
    file = F
    method = None
    cross_check = 30

    @property
    def qualname(self):
        return "ShareFile." + self.method

    def mk_self(self, I, a):
        return SObj(self.module().ShareFile, {"home": PathTok("home"), "_data_offset": 12, "_lease_offset": a["lease_offset"],
                                              "_max_size": a.get("max_size")})

    def mk_native(self, a, p):
        from allmydata.storage.immutable import ShareFile
        sf = object.__new__(ShareFile)
        sf.home, sf._data_offset, sf._lease_offset, sf._max_size = p, 12, a["lease_offset"], a.get("max_size")
        return sf

    def call_args(self, a):
        raise NotImplementedError

    def run(self, I, a):
        put_file(I, "home", a["file0"])
        try:
            out = Outcome("return", I.call_value(self.target(I), [self.mk_self(I, a)] + self.call_args(a), {}))
        except PyRaise as pr:
            out = Outcome("raise", exc=pr.exc, exc_cls=pr.cls)
        out.post = {"file": file_post(I, "home")}
        return out

    def native(self, a):
        with TempDir() as d:
            p = os.path.join(d, "share")
            with open(p, "wb") as fh:
                fh.write(a["file0"])
            sf = self.mk_native(a, p)
            out = native_outcome(lambda: getattr(type(sf), self.method)(sf, *self.call_args(a)))
            out.post = {"file": open(p, "rb").read()}
            return out


def gen_any(rng):
    return bytes(rng.randrange(256) for _ in range(rng.randint(12, 150)))


class ReadShareData(_SF):
    method = "read_share_data"

    def inputs(self):
        return {"file0": FileK(gen_any), "lease_offset": IntK(12, rnd=lambda r: r.randint(12, 150)),
                "offset": IntK(0, rnd=lambda r: r.randint(0, 160)), "length": IntK(rnd=lambda r: r.randint(-3, 160))}

    def requires(self, I, a):
        c, n = as_arr(a["file0"])
        return z3.And(Z(a["lease_offset"]) <= n, Z(a["offset"]) >= 0)

    def call_args(self, a):
        return [a["offset"], a["length"]]

    def ensures(self, I, a, out):
        c, n = as_arr(a["file0"])
        off, ln, lo = Z(a["offset"]), Z(a["length"]), Z(a["lease_offset"])
        r, rl = as_arr(out.value)
        dlen = lo - 12
        end = z3.If(off + ln < dlen, off + ln, dlen)
        want = z3.If(end - off > 0, end - off, 0)
        c1, n1 = as_arr(out.post["file"])
        return [("length-clipped-at-data-end", rl == want),
                ("bytes-are-the-stored-bytes", forall_range(0, want, lambda k: z3.Select(r, k) == z3.Select(c, 12 + off + k))),
                ("never-reads-lease-area", 12 + off + rl <= z3.If(rl > 0, lo, 12 + off + rl)),
                ("file-unchanged", same_file(c, n, c1, n1))]

    def canary(self, I, a, out):
        return [("canary", as_arr(out.value)[1] == Z(a["length"]))]


class WriteShareData(_SF):
    method = "write_share_data"

    @property
    def raises(self):
        from allmydata.storage.common import DataTooLargeError
        return (DataTooLargeError,)

    def inputs(self):
        return {"file0": FileK(gen_any), "lease_offset": IntK(12), "max_size": IntK(0, rnd=lambda r: r.randint(0, 120)),
                "offset": IntK(0, rnd=lambda r: r.randint(0, 130)), "data": BytesArrK(rndmax=40)}

    def requires(self, I, a):
        return z3.And(Z(a["offset"]) >= 0, Z(a["lease_offset"]) == 12 + Z(a["max_size"]))

    def call_args(self, a):
        return [a["offset"], a["data"]]

    def ensures(self, I, a, out):
        c, n = as_arr(a["file0"])
        c1, n1 = as_arr(out.post["file"])
        off, mx = Z(a["offset"]), Z(a["max_size"])
        d, ln = as_arr(a["data"])
        if out.kind == "raise":
            return [("too-large-iff-beyond-max-size", off + ln > mx), ("refused-write-changes-nothing", same_file(c, n, c1, n1))]
        pos = 12 + off
        return [("accepted-only-within-max-size", off + ln <= mx),
                ("written-range-holds-data", forall_range(0, ln, lambda k: z3.Select(c1, pos + k) == z3.Select(d, k))),
                ("bytes-outside-range-unchanged", forall_range(0, n, lambda k: z3.Implies(z3.Or(k < pos, k >= pos + ln), z3.Select(c1, k) == z3.Select(c, k)))),
                ("stays-inside-data-region", z3.Implies(ln > 0, pos + ln <= Z(a["lease_offset"])))]

    def canary(self, I, a, out):
        c1, n1 = as_arr(out.post["file"])
        c, n = as_arr(a["file0"])
        return [("canary", n1 == n)]


# ---------------------------------------------------------------- BucketWriter

class AlreadyCalled(Exception):
    pass


def mk_timer(active, now=None, fires_at=None):
    """twisted DelayedCall: cancel/reset/delay/active; `fires_at` follows IDelayedCall (reset = seconds from now, delay = seconds later)"""
    st = {"active": active, "now": now, "fires_at": fires_at, "calls": []}

    def cancel(I, a, kw):
        if not st["active"]:
            from twisted.internet import error
            raise PyRaise(SObj(error.AlreadyCalled, {"args": ()}))
        st["active"] = False

    def reset(I, a, kw):
        if not st["active"]:
            from twisted.internet import error
            raise PyRaise(SObj(error.AlreadyCalled, {"args": ()}))
        st["calls"].append("reset")
        if st["now"] is not None:
            st["fires_at"] = norm_int(Z(st["now"]) + Z(a[0]))

    def delay(I, a, kw):
        if not st["active"]:
            from twisted.internet import error
            raise PyRaise(SObj(error.AlreadyCalled, {"args": ()}))
        st["calls"].append("delay")
        if st["fires_at"] is not None:
            st["fires_at"] = norm_int(Z(st["fires_at"]) + Z(a[0]))
    t = stub("timer", cancel=cancel, reset=reset, delay=delay, active=lambda I, a, kw: st["active"])
    t.state = st
    return t


def mk_ss():
    return stub("ss", add_latency=noop, count=noop, bucket_writer_closed=noop)


def mk_clock():
    def seconds(I, a, kw):
        return z3.Int(fresh_name("now"))
    return stub("clock", seconds=seconds)


class _BW(Spec):
    file = F
    method = None
    cross_check = 0

    @property
    def qualname(self):
        return "BucketWriter." + self.method


class BucketWriterAbort(_BW):
    """abort / _abort_due_to_timeout / disconnected: an open writer removes its incoming file, reports 0 bytes to
    the server (which releases the reservation) and becomes closed; a closed writer does nothing."""
    method = "abort"

    def inputs(self):
        return {"entry": ChoiceK(["abort", "_abort_due_to_timeout", "disconnected"]), "closed": ChoiceK([False, True]),
                "others_in_dir": ChoiceK([False, True]), "other_si_in_prefix": ChoiceK([False, True])}

    def all_cases(self):
        cs = []
        for e in ("abort", "_abort_due_to_timeout", "disconnected"):
            for cl in (False, True):
                for o in (False, True):
                    if e == "_abort_due_to_timeout" and cl:
                        continue   # the timer is cancelled by close(); it cannot fire on a closed writer
                    for p_ in (False, True):
                        cs.append({"entry": e, "closed": cl, "others_in_dir": o, "other_si_in_prefix": p_})
        return cs

    def config(self):
        me = self
        def listdir(I, key):
            if key == "incoming/ab/si":
                return ["other"] if me._a["others_in_dir"] else []
            return sorted(set(k[len(key) + 1:].split("/")[0] for k, st in I.disk.items() if st.exists and k.startswith(key + "/")))
        return {"listdir": listdir}

    def run(self, I, a):
        self._a = a
        I.disk["incoming/ab/si/0"] = X.FileState(z3.Array("inc", IntS, IntS), z3.Int("inc_len"), exists=not a["closed"])
        if a["other_si_in_prefix"]:
            # another upload whose storage index shares the two-character prefix directory
            I.disk["incoming/ab/si2/0"] = X.FileState(z3.Array("inc2", IntS, IntS), z3.Int("inc2_len"), exists=True)
        # the timer has fired (inactive) exactly when we are entered from the timeout
        timer = mk_timer(active=(a["entry"] != "_abort_due_to_timeout") and not a["closed"])
        ss = mk_ss()
        bw = SObj(self.module().BucketWriter, {"ss": ss, "incominghome": PathTok("incoming/ab/si/0"), "finalhome": PathTok("final/ab/si/0"),
                                               "closed": a["closed"], "_timeout": timer, "_sharefile": Opaque("sf"), "_max_size": 10})
        I.call_value(I.get_attr(bw, a["entry"]), [], {})
        out = Outcome("return", None)
        out.post = {"closed": bw.fields["closed"], "incoming_exists": I.disk["incoming/ab/si/0"].exists, "other_upload_intact": (not a["other_si_in_prefix"]) or I.disk["incoming/ab/si2/0"].exists,
                    "released": [c for c in ss.calls if c[0] == "bucket_writer_closed"], "timer_active": timer.state["active"], "bw": bw}
        return out

    def ensures(self, I, a, out):
        p = out.post
        if a["closed"]:
            return [("closed-writer-abort-is-noop", z3.BoolVal(p["closed"] is True and not p["released"]))]
        rel = p["released"]
        return [("incoming-file-removed", z3.BoolVal(p["incoming_exists"] is False)),
                ("reservation-released-exactly-once-with-0-bytes", z3.BoolVal(len(rel) == 1 and rel[0][1][0] is p["bw"] and rel[0][1][1] == 0)),
                ("writer-is-closed", z3.BoolVal(p["closed"] is True)),
                ("timer-not-left-active", z3.BoolVal(p["timer_active"] is False)),
                ("another-upload-in-the-same-prefix-directory-is-untouched", z3.BoolVal(p["other_upload_intact"] is True))]


class BucketWriterClose(_BW):
    """close: the incoming file becomes the final share (atomic rename, same bytes), the reservation is released with
    the final size, the timer is cancelled, the writer is closed."""
    method = "close"

    def inputs(self):
        return {"file0": FileK(gen_any), "rmdir_fails": ChoiceK([False, True])}

    def all_cases(self):
        return [{"rmdir_fails": False}, {"rmdir_fails": True}]

    def config(self):
        me = self

        def rmdir(I, key):
            if me._a["rmdir_fails"]:
                raise PyRaise(SObj(OSError, {"args": ("not empty",)}))
        return {"rmdir": rmdir}

    def run(self, I, a):
        self._a = a
        put_file(I, "incoming/si/0", a["file0"])
        timer, ss = mk_timer(True), mk_ss()
        bw = SObj(self.module().BucketWriter, {"ss": ss, "incominghome": PathTok("incoming/si/0"), "finalhome": PathTok("final/si/0"),
                                               "closed": False, "_timeout": timer, "_sharefile": Opaque("sf"), "_max_size": 10,
                                               "_clock": mk_clock()})
        I.call_value(self.target(I), [bw], {})
        out = Outcome("return", None)
        fin = disk_get(I, "final/si/0")
        out.post = {"closed": bw.fields["closed"], "incoming_exists": I.disk["incoming/si/0"].exists, "final_exists": fin.exists,
                    "final": SBytes(fin.content, fin.length), "released": [c for c in ss.calls if c[0] == "bucket_writer_closed"],
                    "timer_active": timer.state["active"], "bw": bw}
        return out

    def ensures(self, I, a, out):
        p = out.post
        c, n = as_arr(a["file0"])
        c1, n1 = as_arr(p["final"])
        rel = p["released"]
        return [("incoming-gone-final-present", z3.BoolVal(p["incoming_exists"] is False and p["final_exists"] is True)),
                ("final-share-has-the-uploaded-bytes", same_file(c, n, c1, n1)),
                ("reservation-released-once-with-final-size", z3.And(z3.BoolVal(len(rel) == 1 and rel[0][1][0] is p["bw"]), Z(rel[0][1][1]) == n if len(rel) == 1 else z3.BoolVal(False))),
                ("writer-closed-timer-cancelled", z3.BoolVal(p["closed"] is True and p["timer_active"] is False))]


class BucketWriterWrite(_BW):
    """write(offset, data) with <= 2 ranges already written: a byte that was already written and differs => rejected,
    file and range map unchanged; otherwise the data is stored, the range map becomes the union and the result says
    whether [0, max_size) is fully covered."""
    method = "write"
    level = "B"
    bound = "<= 2 disjoint ranges already written (bounds, offsets, lengths and all bytes symbolic)"

    @property
    def raises(self):
        from allmydata.interfaces import ConflictingWriteError
        from allmydata.storage.common import DataTooLargeError
        return (ConflictingWriteError, DataTooLargeError)

    def inputs(self):
        return {"file0": FileK(gen_any), "max_size": IntK(0), "offset": IntK(0), "data": BytesArrK(),
                "s1": IntK(0), "e1": IntK(0), "s2": IntK(0), "e2": IntK(0), "nranges": ChoiceK([0, 1, 2]), "now": IntK(0), "fires0": IntK(0)}

    def all_cases(self):
        return [{"nranges": k} for k in (0, 1, 2)]

    def ranges(self, a):
        return [(a["s1"], a["e1"]), (a["s2"], a["e2"])][:a["nranges"]]

    def requires(self, I, a):
        c, n = as_arr(a["file0"])
        mx = Z(a["max_size"])
        # zero-length writes are excluded: collections_extended.RangeMap.set refuses empty ranges in the real
        # library, which is absent here, so that behaviour cannot be replayed and is not claimed
        cs = [n >= 12, as_arr(a["data"])[1] > 0]
        prev_end = None
        for (s, e) in self.ranges(a):
            s, e = Z(s), Z(e)
            cs += [s >= 0, s < e, e <= mx, n >= 12 + e]   # what was written is in the file
            if prev_end is not None:
                cs.append(s > prev_end)    # RangeMap keeps maximal ranges: disjoint and non-adjacent, sorted
            prev_end = e
        return z3.And(cs)

    def run(self, I, a):
        import collections_extended
        put_file(I, "incoming", a["file0"])
        rm = SObj(collections_extended.RangeMap, {"_r": [(s, e, True) for (s, e) in self.ranges(a)]})
        sf = SObj(self.module().ShareFile, {"home": PathTok("incoming"), "_data_offset": 12, "_lease_offset": norm_int(12 + Z(a["max_size"])),
                                            "_max_size": a["max_size"]})
        self._timer = mk_timer(True, now=a["now"], fires_at=a["fires0"])
        bw = SObj(self.module().BucketWriter, {"ss": mk_ss(), "closed": False, "throw_out_all_data": False, "_timeout": self._timer,
                                               "_clock": mk_clock(), "_sharefile": sf, "_already_written": rm, "_max_size": a["max_size"]})
        try:
            out = Outcome("return", I.call_value(self.target(I), [bw, a["offset"], a["data"]], {}))
        except PyRaise as pr:
            out = Outcome("raise", exc=pr.exc, exc_cls=pr.cls)
        out.post = {"file": file_post(I, "incoming"), "ranges": list(rm.fields["_r"])}
        return out

    def ensures(self, I, a, out):
        from allmydata.interfaces import ConflictingWriteError
        c, n = as_arr(a["file0"])
        c1, n1 = as_arr(out.post["file"])
        off, mx = Z(a["offset"]), Z(a["max_size"])
        d, ln = as_arr(a["data"])
        written = lambda i: z3.Or([z3.And(i >= Z(s), i < Z(e)) for (s, e) in self.ranges(a)]) if self.ranges(a) else z3.BoolVal(False)
        i = z3.Int("ci")
        conflict = z3.Exists([i], z3.And(i >= off, i < off + ln, written(i), z3.Select(c, 12 + i) != z3.Select(d, i - off)))
        if out.kind == "raise":
            g = [("rejected-write-changes-no-stored-byte", same_file(c, n, c1, n1)),
                 ("rejected-write-leaves-range-map", z3.BoolVal(len(out.post["ranges"]) == a["nranges"]))]
            if out.exc_cls is ConflictingWriteError:
                g.append(("conflict-reported-only-for-a-differing-already-written-byte", z3.Exists([i], z3.And(i >= off, i < off + ln, written(i)))))
            else:
                g.append(("too-large-iff-beyond-max-size", off + ln > mx))
            return g
        newr = out.post["ranges"]
        inr = lambda j: z3.Or([z3.And(j >= Z(s), j < Z(e)) for (s, e, _) in newr]) if newr else z3.BoolVal(False)
        covered = sum([Z(e) - Z(s) for (s, e, _) in newr]) if newr else z3.IntVal(0)
        r = out.value
        r = z3.BoolVal(r) if isinstance(r, bool) else r
        return [("accepted-write-had-no-conflict", z3.Not(conflict)),
                ("written-range-holds-data", forall_range(0, ln, lambda k: z3.Select(c1, 12 + off + k) == z3.Select(d, k))),
                ("bytes-outside-range-unchanged", forall_range(0, n, lambda k: z3.Implies(z3.Or(k < 12 + off, k >= 12 + off + ln), z3.Select(c1, k) == z3.Select(c, k)))),
                ("range-map-is-union", forall_range(-1, mx + 1, lambda j: inr(j) == z3.Or(written(j), z3.And(j >= off, j < off + ln)))),
                ("finished-iff-fully-covered", r == (covered == mx)),
                ("the-inactivity-abort-is-due-30-minutes-after-this-write", Z(self._timer.state["fires_at"]) == Z(a["now"]) + 30 * 60)]

    def canary(self, I, a, out):
        r = out.value
        return [("canary", z3.Not(z3.BoolVal(r) if isinstance(r, bool) else r))]


def extra_checks(rep, tier):
    from contracts import grid_http
    grid_http.grid_check(rep, tier, "C22")


def contracts(tier):
    return [ShareFileOpen(), ReadShareData(), WriteShareData(), BucketWriterAbort(), BucketWriterClose(), BucketWriterWrite()]
