"""C45 Immutable check, verify and repair -- contracts on immutable/checker.py (Checker._format_results,
ValidatedReadBucketProxy._got_data), immutable/repairer.py Repairer.start, immutable/filenode.py get_segment_size"""
import itertools
import z3
from pyvc.harness import Spec, IntK, BoolK, StrK, BlobK, ChoiceK, Outcome
from pyvc.values import *  # noqa
from contracts.lib import *  # noqa
from pyvc.models_ext import unwrap_key
from contracts import C06

LEVEL = "other"
MANIFEST_ENTRY = {
    "text": "Health classification (Checker._format_results): for every per-server result set over up to 3 servers x 3 share numbers (all 512 verified-share distributions, corrupt/incompatible sets present) and EVERY needed/total pair, healthy <=> the number of DISTINCT verified share numbers equals N, recoverable <=> it is >= k, count_shares_good is that number, and corrupt or incompatible shares are never counted as good. Verifier: get_all_blockhashes pins the block hash tree's root to this share's VALIDATED leaf of the share hash tree before it accepts any hash supplied by the share (found missing on the pinned tree: D23, fixed), and a native run over real hash trees confirms that every share with one block and its block hash tree rewritten consistently is refused while genuine shares are accepted; ValidatedReadBucketProxy._got_data: block data is returned only after block_hash_tree.set_hashes(leaves={blocknum: block_hash(data)}) returned normally, the block tree's root was taken from the share hash tree leaf of this share (after share_hash_tree.set_hashes when hashes were still needed), and every hash-tree failure surfaces as BadOrMissingHash -- the hash trees themselves are under contract in C35. Repair: Repairer.start re-encodes with (k, N) of the verify cap and the segment size delivered by the file node, and CiphertextFileNode.get_segment_size delivers DownloadNode.get_segsize() (the value from the validated UEB), never a guess; the share map merged into the repair results lists exactly the shares the encoder placed (CHKUploader._encrypted_done, contract shared with C06), so a share that was allocated but not written is not counted as good.",
    "note": "The full verify/repair pipeline (Deferred chains through ValidatedExtendedURIProxy, CHKUploader, the storage servers) is not under contract: 'repaired shares validate under the original read-cap' and 'repair never alters good shares' are only covered at the three call sites named above. Hash trees are replaced by contract stubs (C35).",
    "technique": "contract-based deductive verification (pyvc VCs + z3, callee contracts for the hash trees); share distributions enumerated up to a bound",
}
MANIFEST_ENTRY["text"] += ' Bounded end-to-end stand-in (run-time contract, never counted as proved): contracts/grid_upload.py runs the real Uploader, server selector, Encoder, checker/verifier and repairer against real StorageServers on disk (contracts/real_grid.py) with read-only, full and failing servers and pre-existing shares, and compares results with ground truth read from the disks and with a reference encoding.'
MANIFEST_ENTRY["technique"] += "; plus bounded end-to-end run-time scenario contracts on an in-process grid of the real components (stand-in, labelled bounded)"
EXPLANATION = "Function contracts at the decision points of check/verify/repair."
TRUSTED = ["IncompleteHashTree.set_hashes/needed_hashes/get_leaf behave as contracted in C35", "servers_of_happiness (C08)"]
ASSUMPTIONS = []
NOT_DECIDED = "end-to-end repair (re-upload produces shares with the original UEB hash; good shares untouched)."
F = "allmydata/immutable/checker.py"


def field(o, name):
    return o.fields[name] if isinstance(o, SObj) else getattr(o, name)


_SERVERS = []


def servers():
    if not _SERVERS:
        from zope.interface import implementer
        from allmydata.interfaces import IDisplayableServer

        @implementer(IDisplayableServer)
        class FakeServer(object):
            def __init__(self, n):
                self.n = n

            def __repr__(self):
                return "server%d" % self.n

            def __lt__(self, o):
                return self.n < o.n
        _SERVERS.extend(FakeServer(i) for i in range(3))
    return _SERVERS


class FormatResults(Spec):
    file = F
    qualname = "Checker._format_results"
    level = "B"
    bound = "up to 3 servers x share numbers {0,1,2}: every distribution of verified shares (512), fixed corrupt/incompatible sets; needed/total symbolic"
    cross_check = 64
    raises = (AssertionError,)
    canary_case = {"dist": ((0, 1), (1, 2), ())}

    def inputs(self):
        return {"dist": ChoiceK([()]), "k": IntK(1, 256, rnd=lambda r: r.randint(1, 4)), "n": IntK(1, 256, rnd=lambda r: r.randint(1, 4))}

    def all_cases(self):
        subs = [tuple(s) for r in range(4) for s in itertools.combinations((0, 1, 2), r)]
        return [{"dist": (a, b, c)} for a in subs for b in subs for c in subs]

    def requires(self, I, a):
        return Z(a["k"]) <= Z(a["n"])

    def results(self, a):
        out = []
        for i, ver in enumerate(a["dist"]):
            corrupt = {2} if (i == 0 and 2 not in ver) else set()
            incompat = {1} if (i == 1 and 1 not in ver) else set()
            out.append((set(ver), servers()[i], corrupt, incompat, i != 2))
        return out

    def config(self):
        o = {"happinessutil.servers_of_happiness": lambda I, a, kw: Opaque("happiness")}
        return {"overrides": o, "concrete_overrides": o}

    def run(self, I, a):
        from allmydata.uri import CHKFileVerifierURI
        vcap = SObj(CHKFileVerifierURI, {"storage_index": b"s" * 16, "uri_extension_hash": b"h" * 32, "needed_shares": a["k"], "total_shares": a["n"], "size": 100})
        ch = SObj(self.module().Checker, {"_verifycap": vcap})
        return I.call_value(self.target(I), [ch, self.results(a)], {})

    def native(self, a):
        import types
        from allmydata.immutable.checker import Checker
        ch = object.__new__(Checker)
        from allmydata.uri import CHKFileVerifierURI
        ch._verifycap = CHKFileVerifierURI(b"s" * 16, b"h" * 32, a["k"], a["n"], 100)
        return native_outcome(lambda: Checker._format_results(ch, self.results(a)))

    def same_result(self, n, s):
        from pyvc.runner import plainify
        return all(plainify(field(n.value, f)) == plainify(field(s.value, f)) for f in ("_healthy", "_recoverable", "_count_shares_good"))

    def ensures(self, I, a, out):
        distinct = len(set(s for ver in a["dist"] for s in ver))
        k, n = Z(a["k"]), Z(a["n"])
        if out.kind == "raise":
            return [("refused-only-when-more-distinct-shares-than-N", z3.IntVal(distinct) > n)]
        r = out.value
        healthy, rec = field(r, "_healthy"), field(r, "_recoverable")
        hb = to_z3_bool(healthy) if not isinstance(healthy, bool) else z3.BoolVal(healthy)
        rb = to_z3_bool(rec) if not isinstance(rec, bool) else z3.BoolVal(rec)
        corrupt = field(r, "_list_corrupt_shares")
        sharemap = field(r, "_sharemap")
        smap = dict(sharemap.fields.get("__dictdata__", {})) if isinstance(sharemap, SObj) else dict(sharemap)
        want_map = {}
        for i, ver in enumerate(a["dist"]):
            for s in ver:
                want_map.setdefault(s, set()).add(servers()[i])
        return [("healthy-exactly-when-N-distinct-good-shares", hb == (z3.IntVal(distinct) == n)),
                ("recoverable-exactly-when-at-least-k-distinct-good-shares", rb == (z3.IntVal(distinct) >= k)),
                ("count-of-good-shares-is-the-number-of-distinct-verified-share-numbers", Z(field(r, "_count_shares_good")) == distinct),
                ("sharemap-holds-exactly-the-verified-shares", z3.BoolVal({unwrap_key(kk): set(unwrap_key(x) for x in v) for kk, v in smap.items()} == want_map)),
                ("corrupt-shares-are-listed-not-counted", z3.BoolVal(len(corrupt) == sum(1 for x in self.results(a) for _ in x[2]))),
                ("expected-and-needed-come-from-the-cap", z3.And(Z(field(r, "_count_shares_expected")) == n, Z(field(r, "_count_shares_needed")) == k))]

    def canary(self, I, a, out):
        if out.kind != "return":
            return []
        h = field(out.value, "_healthy")
        return [("canary", z3.Not(to_z3_bool(h)) if not isinstance(h, bool) else z3.BoolVal(not h))]


BH = z3.Function("block_hash", z3.StringSort(), SHash.SORT)      # hashutil.block_hash as an uninterpreted function (trusted tagged SHA-256d)


class GotData(Spec):
    """ValidatedReadBucketProxy._got_data: data is returned only after the block hash was accepted by the block hash tree"""
    file = F
    qualname = "ValidatedReadBucketProxy._got_data"
    cross_check = 0
    canary_case = {"root_known": False, "need_sh": True, "need_bh": True}

    @property
    def raises(self):
        from allmydata.immutable.checker import BadOrMissingHash
        return (BadOrMissingHash,)

    def inputs(self):
        return {"root_known": ChoiceK([False, True]), "need_sh": ChoiceK([False, True]), "need_bh": ChoiceK([False, True]),
                "blocknum": IntK(0, 7), "data": BlobK(True, rndmax=20), "leaf_present": BoolK()}

    def all_cases(self):
        return [{"root_known": r, "need_sh": s, "need_bh": b} for r in (False, True) for s in (False, True) for b in (False, True)]

    def config(self):
        me = self
        import allmydata.hashtree as HT

        def needed(I, a, kw):
            t = a[0]
            return [1] if ((t is me._sht and me._a["need_sh"]) or (t is me._bht and me._a["need_bh"])) else []

        def set_hashes(I, a, kw):
            t = a[0]
            hashes = a[1] if len(a) > 1 else kw.get("hashes", {})
            leaves = a[2] if len(a) > 2 else kw.get("leaves", {})
            entry = ["sht" if t is me._sht else "bht", hashes, leaves, "pending"]
            me._log.append(entry)
            c = I.path.choose(4 if t is me._sht else 3)
            if c == 1:
                entry[3] = "BadHashError"
                raise PyRaise(HT.BadHashError("bad"), HT.BadHashError)
            if c == 2:
                entry[3] = "NotEnoughHashesError"
                raise PyRaise(HT.NotEnoughHashesError("few"), HT.NotEnoughHashesError)
            if c == 3:
                entry[3] = "IndexError"
                raise PyRaise(IndexError("index"), IndexError)
            entry[3] = "ok"
            if t is me._bht and isinstance(hashes, dict) and 0 in hashes:
                t.fields["__list__"][0] = hashes[0]

        def get_leaf(I, a, kw):
            me._log.append(["sht.get_leaf", a[1], None, "ok"])
            if I.path.branch(to_z3_bool(me._a["leaf_present"])):
                return me._leaf
            return None
        return {"overrides": {"hashutil.block_hash": lambda I, a, kw: SHash(BH(as_sstr(a[0]).term)), "IncompleteHashTree.needed_hashes": needed, "IncompleteHashTree.set_hashes": set_hashes,
                              "CompleteBinaryTreeMixin.get_leaf": get_leaf, "ValidatedReadBucketProxy.log": noop, "PrefixingLogMixin.log": noop,
                              "IncompleteHashTree.dump": lambda I, a, kw: "", "base32.b2a_or_none": lambda I, a, kw: b"(hash)", "CompleteBinaryTreeMixin.dump": lambda I, a, kw: ""}}

    def run(self, I, a):
        import allmydata.hashtree as HT
        self._a = a
        self._log = []
        self._leaf = SStr(z3.String("share_hash_leaf"), True, 32)
        I.path.assume(z3.Length(self._leaf.term) == 32)
        self._sht = SObj(HT.IncompleteHashTree, {"__list__": [None] * 7})
        root = SStr(z3.String("known_root"), True, 32)
        I.path.assume(z3.Length(root.term) == 32)
        self._bht = SObj(HT.IncompleteHashTree, {"__list__": [root if a["root_known"] else None] + [None] * 14})
        v = SObj(self.module().ValidatedReadBucketProxy, {"sharenum": 3, "bucket": "bucket", "share_hash_tree": self._sht, "num_blocks": 8,
                                                         "block_size": 10, "share_size": 80, "block_hash_tree": self._bht})
        self._sharehashes = [(1, b"h" * 32)]
        self._blockhashes = [b"b" * 32, b"c" * 32]
        try:
            out = Outcome("return", I.call_value(self.target(I), [v, (self._sharehashes, self._blockhashes, a["data"]), a["blocknum"]], {}))
        except PyRaise as pr:
            out = Outcome("raise", exc=pr.exc, exc_cls=pr.cls)
        out.post = {"log": [list(e) for e in self._log]}
        return out

    def ensures(self, I, a, out):
        import allmydata.util.hashutil as HU
        log = out.post["log"]
        if out.kind == "raise":
            return [("a-failure-is-reported-only-after-a-hash-tree-refused", z3.BoolVal(any(e[3] not in ("ok", "pending") for e in log) or (not a["root_known"] and any(e[0] == "sht.get_leaf" for e in log))))]
        want_hash = SHash(BH(as_sstr(a["data"]).term))
        last = log[-1] if log else None
        ok_last = last is not None and last[0] == "bht" and last[3] == "ok" and isinstance(last[2], dict) and [unwrap_key(x) for x in last[2].keys()] == [a["blocknum"]] if not is_sym_int(a["blocknum"]) else \
            (last is not None and last[0] == "bht" and last[3] == "ok" and isinstance(last[2], dict) and len(last[2]) == 1)
        g = [("returns-the-block-data-unchanged", as_sstr(out.value).term == as_sstr(a["data"]).term),
             ("block-hash-was-accepted-by-the-block-hash-tree-last", z3.BoolVal(bool(ok_last))),
             ("every-hash-tree-call-succeeded", z3.BoolVal(all(e[3] == "ok" for e in log)))]
        if ok_last:
            (kk, hv), = last[2].items()
            kk = unwrap_key(kk)
            g.append(("the-leaf-checked-is-this-block-number", Z(kk) == Z(a["blocknum"])))
            g.append(("the-hash-checked-is-the-hash-of-the-returned-data", (hv.term == want_hash.term) if isinstance(hv, SHash) else z3.BoolVal(False)))
        if not a["root_known"]:
            roots = [e for e in log if e[0] == "bht" and isinstance(e[1], dict) and 0 in e[1]]
            g.append(("unknown-root-is-taken-from-the-share-hash-tree-leaf-of-this-share",
                      z3.BoolVal(len(roots) >= 1 and roots[0][1][0] is self._leaf and any(e[0] == "sht.get_leaf" and e[1] == 3 for e in log))))
        if a["need_sh"]:
            g.append(("share-hashes-are-checked-when-still-needed", z3.BoolVal(any(e[0] == "sht" and e[3] == "ok" for e in log))))
        if a["need_bh"]:
            g.append(("block-hashes-are-checked-when-still-needed", z3.BoolVal(sum(1 for e in log if e[0] == "bht" and e[3] == "ok") >= 2)))
        return g

    def canary(self, I, a, out):
        if out.kind != "return":
            return []
        return [("canary", z3.BoolVal(len(out.post["log"]) < 3))]


class AllBlockHashes(Spec):
    """ValidatedReadBucketProxy.get_all_blockhashes: the block hash tree is seeded with THIS share's validated leaf of the
    share hash tree before any hash supplied by the share is accepted (so the share's own root must equal it)"""
    file = F
    qualname = "ValidatedReadBucketProxy.get_all_blockhashes"
    cross_check = 0
    canary_case = {"leaf_known": True}

    @property
    def raises(self):
        from allmydata.immutable.checker import BadOrMissingHash
        return (BadOrMissingHash,)

    def inputs(self):
        return {"leaf_known": ChoiceK([False, True])}

    def all_cases(self):
        return [{"leaf_known": False}, {"leaf_known": True}]

    def config(self):
        me = self
        import allmydata.hashtree as HT

        def set_hashes(I, a, kw):
            t = a[0]
            hashes = a[1] if len(a) > 1 else kw.get("hashes", {})
            entry = ["sht" if t is me._sht else "bht", dict(hashes) if isinstance(hashes, dict) else hashes, "pending"]
            me._log.append(entry)
            c = I.path.choose(3)
            if c == 1:
                entry[2] = "BadHashError"
                raise PyRaise(HT.BadHashError("bad"), HT.BadHashError)
            if c == 2:
                entry[2] = "NotEnoughHashesError"
                raise PyRaise(HT.NotEnoughHashesError("few"), HT.NotEnoughHashesError)
            entry[2] = "ok"

        def get_leaf(I, a, kw):
            me._log.append(["sht.get_leaf", a[1], "ok"])
            return me._leaf if me._a["leaf_known"] else None
        return {"overrides": {"IncompleteHashTree.set_hashes": set_hashes, "CompleteBinaryTreeMixin.get_leaf": get_leaf, "PrefixingLogMixin.log": noop}}

    def run(self, I, a):
        import allmydata.hashtree as HT
        from pyvc.models_tahoe import DStub
        self._a, self._log = a, []
        self._leaf = b"L" * 32
        self._sht = SObj(HT.IncompleteHashTree, {"__list__": [None] * 7})
        self._bht = SObj(HT.IncompleteHashTree, {"__list__": [None] * 3})
        d0 = DStub("pending")
        bucket = stub("bucket", get_block_hashes=lambda I_, a_, k_: d0)
        v = SObj(self.module().ValidatedReadBucketProxy, {"sharenum": 3, "bucket": bucket, "share_hash_tree": self._sht, "num_blocks": 2, "block_hash_tree": self._bht})
        d = I.call_value(self.target(I), [v], {})
        self._from_share = [b"r" * 32, b"x" * 32, b"y" * 32]
        res, _ = fire_chain(I, d0, list(self._from_share))
        if is_failure(res):
            raise PyRaise(res.exc, res.exc_cls)
        return res

    def ensures(self, I, a, out):
        bht = [e for e in self._log if e[0] == "bht"]
        if out.kind == "raise":
            return [("the-share-is-refused-only-when-a-tree-refused-or-its-leaf-is-not-validated-yet", z3.BoolVal((not a["leaf_known"]) or any(e[2] not in ("ok", "pending") for e in self._log))),
                    ("hashes-from-the-share-are-never-accepted-before-the-root-is-pinned", z3.BoolVal(not bht or bht[0][1] == {0: self._leaf}))]
        return [("the-root-is-pinned-to-this-shares-validated-leaf-first", z3.BoolVal(a["leaf_known"] and len(bht) == 2 and bht[0][1] == {0: self._leaf} and any(e[0] == "sht.get_leaf" and e[1] == 3 for e in self._log))),
                ("then-all-hashes-from-the-share-are-checked-against-it", z3.BoolVal(len(bht) == 2 and bht[1][1] == dict(enumerate(self._from_share)) and all(e[2] == "ok" for e in bht)))]

    def canary(self, I, a, out):
        return [("canary", z3.BoolVal(out.kind != "return"))]


def tampered_share_failures():
    """native regression for D23: a share whose block data and block hash tree were rewritten consistently must be
    refused by the verifier's bucket proxy; the genuine share must be accepted"""
    from twisted.internet import defer
    from allmydata import hashtree
    from allmydata.util import hashutil
    from allmydata.immutable.checker import ValidatedReadBucketProxy
    bad = []
    n = 0
    NUM_SHARES = 4
    for num_blocks in (1, 2, 3, 4, 5):
        def blocks_of(tag):
            return [(b"%s-block-%d" % (tag, i)).ljust(16, b".") for i in range(num_blocks)]

        def bht_of(blocks):
            return hashtree.HashTree([hashutil.block_hash(b) for b in blocks])
        genuine = {sh: blocks_of(b"share%d" % sh) for sh in range(NUM_SHARES)}
        share_tree = hashtree.HashTree([bht_of(genuine[sh])[0] for sh in range(NUM_SHARES)])
        for shnum in range(NUM_SHARES):
            for victim in [None] + list(range(num_blocks)):
                n += 1
                data = list(genuine[shnum])
                if victim is not None:
                    data[victim] = b"EVIL DATA".ljust(16, b".")
                tree = bht_of(data)

                class Bucket(object):
                    def get_share_hashes(self):
                        return defer.succeed([(i, share_tree[i]) for i in sorted(share_tree.needed_hashes(shnum, include_leaf=True))])

                    def get_block_hashes(self, needed):
                        return defer.succeed(list(tree))

                    def get_block_data(self, blocknum, blocksize, thissize):
                        return defer.succeed(data[blocknum])

                    def __repr__(self):
                        return "<bucket>"
                sht = hashtree.IncompleteHashTree(NUM_SHARES)
                sht.set_hashes({0: share_tree[0]})
                v = ValidatedReadBucketProxy(shnum, Bucket(), sht, num_blocks, 16, 16 * num_blocks)
                outcome = []
                d = v.get_all_sharehashes()
                d.addCallback(lambda ign: v.get_all_blockhashes())
                for i in range(num_blocks):
                    d.addCallback(lambda ign, i=i: v.get_block(i))
                d.addCallbacks(lambda last: outcome.append("accepted"), lambda f: outcome.append("refused:" + f.type.__name__))
                want = "accepted" if victim is None else "refused"
                if not outcome or not outcome[0].startswith(want):
                    bad.append({"num_blocks": num_blocks, "share": shnum, "rewritten_block": victim, "verifier": outcome})
    return bad, n


def extra_checks(rep, tier):
    from contracts import grid_upload
    grid_upload.grid_check(rep, tier, "C45")
    bad, n = tampered_share_failures()
    name = "Verifier:a-share-rewritten-consistently-with-its-own-block-hash-tree-is-refused-and-genuine-shares-are-accepted"
    rep.obligations += 1
    rep.bounded_obligations += 1
    rep.paths += n
    rep.sym_paths += n
    rep.bounds.append("verifier bucket proxy run natively with real hash trees: 1..5 blocks x 4 shares x (genuine | each single block rewritten with a rebuilt block hash tree) = %d shares" % n)
    if not bad:
        rep.discharged += 1
        rep.discharged_names.add(name)
        return
    rep.violations.append({"property": "C45", "contract": "Verifier", "obligation": name, "status": "runtime", "inputs": bad[0],
                           "native_outcome": "%d of %d shares misjudged; first: %r" % (len(bad), n, bad[0]), "confirmed_on_real_code": True})


class RepairerStart(Spec):
    """Repairer.start: encoding parameters are (k, 0, N, segsize) with k, N from the verify cap and segsize from the node"""
    file = "allmydata/immutable/repairer.py"
    qualname = "Repairer.start"
    cross_check = 0
    raises = ()

    def inputs(self):
        return {"k": IntK(1, 256), "n": IntK(1, 256), "segsize": IntK(1)}

    def config(self):
        me = self

        def uploader(I, a, kw):
            return stub("CHKUploader", start=lambda I_, a_, k_: (me._started.append(a_[0]), "upload-deferred")[1])
        return {"overrides": {"upload.CHKUploader": uploader, "Repairer.log": noop, "PrefixingLogMixin.log": noop}}

    def run(self, I, a):
        from pyvc.models_tahoe import DStub
        self._started = []
        d = DStub("pending")
        vcap = stub("verifycap", needed_shares=a["k"], total_shares=a["n"], size=z3.Int("file_size"))
        node = stub("filenode", get_segment_size=lambda I_, a_, k_: d, get_verify_cap=lambda I_, a_, k_: vcap, get_size=lambda I_, a_, k_: z3.Int("file_size"))
        rep = SObj(self.module().Repairer, {"_filenode": node, "_storage_broker": "sb", "_secret_holder": "sh", "_offset": 0})
        r = I.call_value(self.target(I), [rep], {})
        res = None
        for kind, fn, args, kw in d.callbacks:
            if kind == "addCallback":
                res = I.call_value(fn, [a["segsize"]] + list(args), kw)
        out = Outcome("return", res)
        out.post = {"rep": rep, "returned": r, "d": d, "started": list(self._started)}
        return out

    def ensures(self, I, a, out):
        rep = out.post["rep"]
        ep = rep.fields.get("_encodingparams")
        ok = isinstance(ep, tuple) and len(ep) == 4
        g = [("the-repair-waits-for-the-nodes-segment-size", z3.BoolVal(out.post["returned"] is out.post["d"])),
             ("encoding-parameters-are-set", z3.BoolVal(ok))]
        if ok:
            g += [("k-is-the-caps-needed-shares", (Z(ep[0]) == Z(a["k"])) if is_intlike(ep[0]) else z3.BoolVal(False)), ("N-is-the-caps-total-shares", (Z(ep[2]) == Z(a["n"])) if is_intlike(ep[2]) else z3.BoolVal(False)),
                  ("segment-size-is-the-one-the-node-delivered", (Z(ep[3]) == Z(a["segsize"])) if is_intlike(ep[3]) else z3.BoolVal(False)),
                  ("the-upload-is-started-with-the-repairer-as-uploadable", z3.BoolVal(out.post["started"] == [rep]))]
        return g

    def canary(self, I, a, out):
        ep = out.post["rep"].fields.get("_encodingparams")
        return [("canary", (Z(ep[3]) == 131072) if (isinstance(ep, tuple) and is_intlike(ep[3])) else z3.BoolVal(True))]


class GetSegmentSize(Spec):
    """CiphertextFileNode.get_segment_size returns what DownloadNode.get_segsize() returns (the validated value)"""
    file = "allmydata/immutable/filenode.py"
    qualname = "CiphertextFileNode.get_segment_size"
    cross_check = 0
    raises = ()

    def inputs(self):
        return {"guess_segs": IntK(0), "guess_size": IntK(0)}

    def config(self):
        return {"overrides": {"CiphertextFileNode._maybe_create_download_node": noop}}

    def run(self, I, a):
        self._real = Opaque("deferred-from-get_segsize")
        node = stub("DownloadNode", get_segsize=lambda I_, a_, k_: self._real, guessed_num_segments=a["guess_segs"], guessed_segment_size=a["guess_size"])
        fn = SObj(self.module().CiphertextFileNode, {"_node": node})
        return I.call_value(self.target(I), [fn], {})

    def ensures(self, I, a, out):
        return [("segment-size-comes-from-the-download-node-not-from-a-guess", z3.BoolVal(out.value is self._real))]

    def canary(self, I, a, out):
        return [("canary", z3.BoolVal(out.value is not self._real))]


def contracts(tier):
    return [FormatResults(), GotData(), AllBlockHashes(), RepairerStart(), GetSegmentSize(), C06.EncryptedDone()]
