"""Directed probe for known finding D32 (C10): the offset table of a mutable share is outside the signed prefix but inside the
version identifier; a share whose offset table was damaged shadows the intact shares of the same version when k = 1.

    python -m contracts.grid_mutable_offsets      -> one JSON object on stdout: {"cases": n, "failures": [...]}
"""
import json
import sys
import warnings


def main_():
    warnings.simplefilter("ignore")
    from twisted.internet import reactor, defer
    from allmydata import client
    from allmydata.nodemaker import NodeMaker
    from allmydata.interfaces import SDMF_VERSION, MDMF_VERSION
    from allmydata.mutable.publish import MutableData
    from allmydata.util import cputhreadpool
    cputhreadpool._DISABLED = True
    from contracts import real_grid
    report = {"cases": 0, "failures": []}

    def nodemaker(g):
        class T(object):
            def register(self, x):
                pass
        return NodeMaker(g.storage_broker, g.secret_holder, None, g.uploader, T(), dict(g.params), SDMF_VERSION, client.KeyGenerator())

    @defer.inlineCallbacks
    def run():
        # most significant byte of the first / second / last entry of the (unsigned) offset table
        for fmt, name, positions in ((MDMF_VERSION, "MDMF", (59, 67, 115)), (SDMF_VERSION, "SDMF", (75, 79, 99))):
            for pos in positions:
                for victim in range(3):
                    g = real_grid.build(num_servers=3, k=1, happy=1, n=3)
                    try:
                        data = b"the newest contents"
                        node = yield nodemaker(g).create_mutable_file(MutableData(data), version=fmt)
                        for (i, sh), path in g.share_files(node.get_storage_index()).items():
                            if i == victim:
                                c = bytearray(open(path, "rb").read())
                                c[468 + pos] ^= 0x40
                                open(path, "wb").write(bytes(c))
                        report["cases"] += 1
                        try:
                            got = yield nodemaker(g).create_from_cap(node.get_readonly_uri()).download_best_version()
                            if got != data:
                                report["failures"].append({"format": name, "offset_table_byte": pos, "server": victim, "outcome": "WRONG BYTES"})
                        except Exception as e:       # noqa
                            report["failures"].append({"format": name, "offset_table_byte": pos, "server": victim, "outcome": type(e).__name__})
                    finally:
                        g.cleanup()

    d = run()
    d.addErrback(lambda f: report["failures"].append({"outcome": "harness error: " + f.getTraceback()[-500:]}))
    d.addBoth(lambda _: reactor.stop())
    reactor.run()
    print(json.dumps(report))


if __name__ == "__main__":
    main_()
