"""Run-time scenario contracts for mutable files on the real in-process grid (contracts/real_grid.py): bounded end-to-end
stand-in used by C10, C11, C12, C14, C47.  Published versions are snapshotted from the servers' disks (share files are
self-contained), and the final disk state is composed slot by slot from those snapshots: newest / an older version / a
competing version with the same sequence number / deleted / bit-flipped / truncated / another file's share.

    python -m contracts.grid_mutable <seed> <number of scenarios>      -> one JSON object on stdout
"""
import json
import os
import random
import struct
import sys
import warnings

DATA_OFFSET = 468      # MutableShareFile: 100-byte header + 4 lease slots of 92 bytes


def main_(seed, nscen):
    warnings.simplefilter("ignore")
    from allmydata.util import cputhreadpool
    cputhreadpool._DISABLED = True      # zfec and RSA key generation run inline: no cross-thread wake-ups to lose, reproducible schedules
    from twisted.internet import defer, reactor
    from allmydata import client
    from allmydata.nodemaker import NodeMaker
    from allmydata.interfaces import SDMF_VERSION, MDMF_VERSION, NotEnoughSharesError
    from allmydata.monitor import Monitor
    from allmydata.mutable.publish import MutableData
    from allmydata.mutable.common import MODE_READ, UncoordinatedWriteError, NotEnoughServersError, UnrecoverableFileError
    from allmydata.mutable.repairer import MustForceRepairError
    from allmydata.storage.common import storage_index_to_dir
    from contracts import real_grid

    rng = random.Random(seed)
    report = {"scenarios": 0, "reads": 0, "checks": 0, "repairs": 0, "publishes": 0, "problems": [], "notes": {}}

    def note(k_):
        report["notes"][k_] = report["notes"].get(k_, 0) + 1

    def blob(n, tag):
        a, b = rng.randrange(1, 251), rng.randrange(251)
        return (b"<%s>" % tag) + bytes((i * a + b) % 251 for i in range(n))

    def with_timeout(d, seconds=90):
        out = defer.Deferred()
        state = []

        def fire(v):
            if not state:
                state.append(1)
                out.callback(v)
        d.addCallbacks(lambda r: fire(("done", r)), lambda f: fire(("failed", f)))
        dc = reactor.callLater(seconds, lambda: fire(("hang", None)))
        out.addBoth(lambda v: (dc.active() and dc.cancel(), v)[1])
        return out

    def new_nodemaker(g):
        class Terminator(object):
            def register(self, x):
                pass
        return NodeMaker(g.storage_broker, g.secret_holder, None, g.uploader, Terminator(), dict(g.params), SDMF_VERSION, client.KeyGenerator())

    def snapshot(g, si):
        out = {}
        for key, path in g.share_files(si).items():
            with open(path, "rb") as f:
                out[key] = f.read()
        return out

    def install(g, si, state):
        for key, path in g.share_files(si).items():
            os.unlink(path)
        for (i, sh), content in state.items():
            d = os.path.join(g.servers[i].sharedir, storage_index_to_dir(si))
            os.makedirs(d, exist_ok=True)
            with open(os.path.join(d, str(sh)), "wb") as f:
                f.write(content)

    def verid(content):
        """(seqnum, root hash) of the share inside a container file"""
        (ver, seq, root) = struct.unpack(">BQ32s", content[DATA_OFFSET:DATA_OFFSET + 41])
        return (seq, root)

    def share_data_region(content):
        d = content[DATA_OFFSET:]
        if d[0] == 0:      # SDMF: >BQ32s16s BBQQ then offsets LLLLQQ (signature, share_hash_chain, block_hash_tree, share_data, enc_privkey, EOF)
            o = struct.unpack(">LLLLQQ", d[75:75 + 32])
            return (o[3], o[4])
        o = struct.unpack(">QQQQQQQQ", d[59:59 + 64])      # MDMF: enc_privkey, share_hash_chain, signature, verification_key, verification_key_end, share_data, block_hash_tree, EOF
        return (o[5], o[6])

    def damage(content, how):
        b = bytearray(content)
        (datalen,) = struct.unpack(">Q", content[84:92])
        if how == "flip-anywhere":
            pos = DATA_OFFSET + rng.randrange(datalen)
        elif how == "flip-prefix":
            pos = DATA_OFFSET + rng.randrange(1, 41)
        elif how == "flip-data":
            lo, hi = share_data_region(content)
            pos = DATA_OFFSET + rng.randrange(lo, hi)
        elif how == "truncate":
            struct.pack_into(">Q", b, 84, rng.randrange(datalen))
            return bytes(b), "truncate"
        b[pos] ^= 1 << rng.randrange(8)
        return bytes(b), "%s@%d" % (how, pos - DATA_OFFSET)

    @defer.inlineCallbacks
    def scenario(idx):
        k, n, S = rng.choice([(3, 10, 10), (3, 10, 10), (2, 4, 4), (1, 3, 3), (3, 5, 5), (2, 6, 3)])
        fmt = rng.choice([SDMF_VERSION, MDMF_VERSION])
        g = real_grid.build(num_servers=S, k=k, happy=1, n=n)
        try:
            nm = new_nodemaker(g)
            sizes = [rng.choice([1, 10, 100, 2000, rng.randint(1, 5000)]) for _ in range(4)]
            if fmt == MDMF_VERSION and rng.random() < 0.15:
                sizes[0] = sizes[1] = 140000        # two segments
            contents, snaps = {}, {}
            contents[1] = blob(sizes[0], b"v1")
            st, node = yield with_timeout(nm.create_mutable_file(MutableData(contents[1]), version=fmt))
            if st != "done":
                report["problems"].append({"kind": "harness", "what": "create failed: %s" % (node,)})
                return
            si = node.get_storage_index()
            wcap, rcap = node.get_uri(), node.get_readonly_uri()
            snaps[1] = snapshot(g, si)
            nversions = rng.randint(1, 4)
            for v in range(2, nversions + 1):
                contents[v] = blob(sizes[(v - 1) % 4], b"v%d" % v)
                st, res = yield with_timeout(node.overwrite(MutableData(contents[v])))
                if st != "done":
                    report["problems"].append({"kind": "harness", "what": "overwrite %d failed: %s" % (v, res)})
                    return
                snaps[v] = snapshot(g, si)
            newest = nversions
            # a competing version with the newest sequence number, written by a second client that never saw `newest`
            compete = None
            if nversions >= 2 and rng.random() < 0.35:
                install(g, si, snaps[newest - 1])
                node2 = new_nodemaker(g).create_from_cap(wcap)
                compete = "c"
                contents[compete] = blob(rng.choice(sizes), b"competitor")
                st, res = yield with_timeout(node2.overwrite(MutableData(contents[compete])))
                if st != "done":
                    report["problems"].append({"kind": "harness", "what": "competing overwrite failed: %s" % (res,)})
                    return
                snaps[compete] = snapshot(g, si)
            # another mutable file whose shares can be substituted
            st, other = yield with_timeout(nm.create_mutable_file(MutableData(blob(100, b"other")), version=fmt))
            foreign = snapshot(g, other.get_storage_index()) if st == "done" else {}
            slots = sorted(snaps[newest])
            ids = dict((v, verid(next(iter(snaps[v].values())))) for v in snaps)
            by_id = dict((ids[v], v) for v in snaps)
            desc = {"k": k, "n": n, "servers": S, "format": "MDMF" if fmt == MDMF_VERSION else "SDMF", "versions": dict((str(v), [ids[v][0], len(contents[v])]) for v in snaps)}

            def compose(allow):
                state, fate = {}, {}
                for key in slots:
                    choice = rng.choice(allow)
                    if choice == "newest":
                        state[key], fate[key] = snaps[newest][key], ("intact", newest)
                    elif choice == "older" and newest > 1:
                        v = rng.randrange(1, newest)
                        if key in snaps[v]:
                            state[key], fate[key] = snaps[v][key], ("intact", v)
                    elif choice == "compete" and compete and key in snaps[compete]:
                        state[key], fate[key] = snaps[compete][key], ("intact", compete)
                    elif choice == "deleted":
                        fate[key] = ("deleted", None)
                    elif choice in ("flip-anywhere", "flip-prefix", "flip-data", "truncate"):
                        state[key], what = damage(snaps[newest][key], choice)
                        fate[key] = (what, newest)
                    elif choice == "foreign" and key in foreign:
                        state[key], fate[key] = foreign[key], ("foreign", None)
                    else:
                        state[key], fate[key] = snaps[newest][key], ("intact", newest)
                return state, fate

            def truth(fate):
                """{version: set of distinct intact share numbers}"""
                t = {}
                for (i, sh), (what, v) in fate.items():
                    if what == "intact":
                        t.setdefault(v, set()).add(sh)
                return t

            def fdesc(fate):
                return dict(desc, shares=dict(("%d/%d" % key, "%s:%s" % f if f[1] is not None else f[0]) for key, f in sorted(fate.items())))

            # ------------------------------------------------------------------ reads (C10, C11)
            for rnd in range(2):
                state, fate = compose(["newest"] * 6 + ["older", "older", "compete", "deleted", "flip-anywhere", "flip-prefix", "flip-data", "truncate", "foreign"])
                install(g, si, state)
                # sometimes one server answers the survey and then stops answering reads: its shares are not reachable
                dying = rng.randrange(S) if rng.random() < 0.25 else None
                if dying is not None:
                    g.wrappers[dying].broken = {"slot_readv": 1}
                    for key in list(fate):
                        if key[0] == dying:
                            fate[key] = ("on-dying-server", fate[key][1])
                t = truth(fate)
                where = fdesc(fate)
                usecap = rng.choice(["write-cap", "read-cap"])
                where["read_with"] = usecap
                reader = new_nodemaker(g).create_from_cap(wcap if usecap == "write-cap" else rcap)
                st, got = yield with_timeout(reader.download_best_version())
                for w in g.wrappers:
                    w.broken = False
                report["reads"] += 1
                if st == "hang":
                    report["problems"].append(dict(where, kind="read_hang", what="download_best_version did not finish"))
                    return
                if st == "done":
                    if got not in contents.values():
                        report["problems"].append(dict(where, kind="unpublished_bytes", what="read returned %d bytes that no writer published (starts %r)" % (len(got), got[:24])))
                        return
                else:
                    # known finding D32: a share of the newest version whose (unsigned) offset table was hit shadows the intact ones when k = 1
                    def in_offset_table(what):
                        if "@" not in what or not what.startswith("flip"):
                            return False
                        at = int(what.split("@")[1])
                        return (59 <= at < 123) if fmt == MDMF_VERSION else (75 <= at < 107)
                    if k == 1 and len(t.get(newest, ())) >= k and got.check(NotEnoughSharesError, UnrecoverableFileError) and any(in_offset_table(f[0]) for f in fate.values()):
                        report["problems"].append(dict(where, kind="read_failed_unsigned_offsets", what="read failed (%s) with k=1 although %d intact newest shares are reachable: a share with a damaged offset table shadows them (known finding D32)" % (got.type.__name__, len(t[newest]))))
                        continue
                    if len(t.get(newest, ())) >= k and not any(f[0] != "intact" or f[1] != newest for f in fate.values() if f[0] not in ("deleted",)):
                        report["problems"].append(dict(where, kind="read_failed", what="read failed (%s) although only intact newest shares (%d distinct >= k) are on the servers" % (got.type.__name__, len(t[newest]))))
                        return
                    if len(t.get(newest, ())) >= k and not got.check(NotEnoughSharesError, UnrecoverableFileError):
                        report["problems"].append(dict(where, kind="read_failed", what="read failed with %s: %s although %d intact newest shares >= k are reachable" % (got.type.__name__, str(got.value)[:160], len(t[newest]))))
                        return
                    if len(t.get(newest, ())) >= k:
                        report["problems"].append(dict(where, kind="read_failed", what="read failed (%s: %s) although %d distinct intact shares of the newest version are reachable" % (got.type.__name__, str(got.value)[:160], len(t[newest]))))
                        return
                # what the survey located, and which version it calls best
                reader = new_nodemaker(g).create_from_cap(rcap)
                st, sm = yield with_timeout(reader.get_servermap(MODE_READ))
                if st == "done":
                    rec = sm.recoverable_versions()
                    best = sm.best_recoverable_version()
                    if rec:
                        top = max(vi[0] for vi in rec)
                        if best is None or best[0] != top:
                            report["problems"].append(dict(where, kind="not_highest", what="the survey located recoverable seqnums %r but calls seqnum %r the best" % (sorted(vi[0] for vi in rec), best and best[0])))
                            return
                        newer_unrec = [vi for vi in sm.unrecoverable_versions() if vi[0] > best[0] and (vi[0], vi[1]) in by_id]
                        asked = len(sm.get_reachable_servers())
                        if newer_unrec and asked < S:
                            # it saw a genuine newer version it cannot recover and stopped early: are there more shares of it on servers it did not ask?
                            v = by_id[(newer_unrec[0][0], newer_unrec[0][1])]
                            if len(t.get(v, ())) >= k:
                                report["problems"].append(dict(where, kind="stopped_early", what="the read survey saw seqnum %d (unrecoverable so far), asked only %d of %d servers and settled for seqnum %d, although %d distinct intact shares of seqnum %d exist" % (newer_unrec[0][0], asked, S, best[0], len(t[v]), newer_unrec[0][0])))
                                return
            # ------------------------------------------------------------------ check (C14), without and with verification
            state, fate = compose(["newest"] * 7 + ["older", "compete", "deleted", "deleted"])
            install(g, si, state)
            t = truth(fate)
            where = fdesc(fate)
            recoverable = [v for v in t if len(t[v]) >= k]
            # (the checker cannot know that a newer version was ever published if no share of it is left: one version with N distinct shares is healthy)
            healthy = (len(t) == 1 and len(next(iter(t.values()))) == n)
            checker_node = new_nodemaker(g).create_from_cap(wcap)
            st, cr = yield with_timeout(checker_node.check(Monitor(), verify=False))
            report["checks"] += 1
            if st != "done":
                report["problems"].append(dict(where, kind="check_failed", what="check: %s %s" % (st, cr)))
                return
            facts = (cr.is_healthy(), cr.is_recoverable(), cr.get_version_counter_recoverable(), cr.get_version_counter_unrecoverable())
            wanted = (healthy, bool(recoverable), len(recoverable), len(t) - len(recoverable))
            if facts != wanted:
                report["problems"].append(dict(where, kind="check_wrong", what="check says healthy=%s recoverable=%s recoverable-versions=%d unrecoverable-versions=%d; the disks say %s %s %d %d" % (facts + wanted)))
                return
            # verify: damage the share data of some shares of an otherwise healthy newest version
            state, fate = compose(["newest"] * 5 + ["flip-data", "deleted"] if rng.random() < 0.7 else ["newest"])
            install(g, si, state)
            t = truth(fate)
            where = fdesc(fate)
            damaged = set(key for key, f in fate.items() if f[0].startswith("flip-data"))
            st, cr = yield with_timeout(new_nodemaker(g).create_from_cap(wcap).check(Monitor(), verify=True))
            report["checks"] += 1
            if st != "done":
                report["problems"].append(dict(where, kind="check_failed", what="check(verify=True): %s %s" % (st, cr)))
                return
            reported = set((g.serverids.index(s.get_serverid()), sh) for (s, si_, sh) in cr.get_corrupt_shares())
            present = len(set(sh for (i, sh), f in fate.items() if f[0] != "deleted"))
            # what C14 states: a damaged share is never counted as good (so the file is not healthy), an intact share is never
            # called corrupt.  The corrupt list itself may be incomplete: Retrieve._process_segment iterates _active_readers
            # while _mark_bad_share removes from it, so a reader right after one that failed synchronously is skipped in that
            # round (observation, DESIGN 9.4) -- counted, not judged.
            if present >= k and not reported <= damaged:
                report["problems"].append(dict(where, kind="verify_wrong", what="verify lists %r as corrupt, the shares with damaged block data are %r" % (sorted(reported - damaged), sorted(damaged))))
                return
            if present >= k and damaged and not reported:
                report["problems"].append(dict(where, kind="verify_wrong", what="verify lists no corrupt share although %r have damaged block data" % (sorted(damaged),)))
                return
            if present >= k and reported != damaged:
                note("verify listed %d of %d damaged shares" % (len(reported), len(damaged)))
            if cr.is_healthy() != (not damaged and len(t.get(newest, ())) == n):
                report["problems"].append(dict(where, kind="verify_wrong", what="verify says healthy=%s; %d damaged shares, %d of %d intact" % (cr.is_healthy(), len(damaged), len(t.get(newest, ())), n)))
                return
            # ------------------------------------------------------------------ repair (C14)
            state, fate = compose(["newest"] * 6 + ["older", "older", "compete", "deleted", "deleted"])
            install(g, si, state)
            t = truth(fate)
            where = fdesc(fate)
            recoverable = [v for v in t if len(t[v]) >= k]
            seq = lambda v: ids[v][0]        # noqa
            force = rng.random() < 0.3
            rnode = new_nodemaker(g).create_from_cap(wcap)
            st, cr = yield with_timeout(rnode.check(Monitor(), verify=False))
            if st != "done":
                report["problems"].append(dict(where, kind="check_failed", what="check before repair: %s %s" % (st, cr)))
                return
            before = snapshot(g, si)
            st, rr = yield with_timeout(rnode.repair(cr, force=force))
            report["repairs"] += 1
            where["force"] = force
            if st == "hang":
                report["problems"].append(dict(where, kind="repair_hang", what="repair did not finish"))
                return
            top = max(seq(v) for v in t) if t else None
            best_rec = max(seq(v) for v in recoverable) if recoverable else None
            newer_unrecoverable = recoverable and top > best_rec
            tie = recoverable and len([v for v in recoverable if seq(v) == best_rec]) > 1
            if not force and (newer_unrecoverable or tie):
                if not (st == "failed" and rr.check(MustForceRepairError)):
                    report["problems"].append(dict(where, kind="repair_without_force", what="repair(force=False) %s although %s" % ("went ahead" if st == "done" else "failed with " + rr.type.__name__, "a newer unrecoverable version exists" if newer_unrecoverable else "two recoverable versions share the highest seqnum")))
                    return
                if snapshot(g, si) != before:
                    report["problems"].append(dict(where, kind="repair_without_force", what="repair(force=False) refused but changed shares on disk"))
                    return
            elif st == "done" and rr.get_successful():
                want = [contents[v] for v in recoverable if seq(v) == best_rec]
                st2, got = yield with_timeout(new_nodemaker(g).create_from_cap(rcap).download_best_version())
                if st2 != "done" or got not in want:
                    report["problems"].append(dict(where, kind="repair_changed_contents", what="after a successful repair the file reads %s; the best version before the repair was seqnum %d" % ("%d bytes starting %r" % (len(got), got[:20]) if st2 == "done" else st2, best_rec)))
                    return
                after = snapshot(g, si)
                vids = {}
                for key, content in after.items():
                    vids.setdefault(verid(content), set()).add(key[1])
                topid = max(vids)
                if len(vids[topid]) != n or topid[0] <= best_rec:
                    report["problems"].append(dict(where, kind="repair_incomplete", what="successful repair left seqnum %d with %d of %d distinct shares (best before: seqnum %d)" % (topid[0], len(vids[topid]), n, best_rec)))
                    return
                if not force and len(vids) != 1:
                    report["problems"].append(dict(where, kind="repair_incomplete", what="successful repair left %d different versions on the servers" % len(vids)))
                    return
            elif st == "failed":
                note("repair raised %s" % rr.type.__name__)
                if snapshot(g, si) != before:
                    # (a repair that fails is outside the property; one that fails after touching shares is noted separately)
                    note("repair raised %s after changing shares" % rr.type.__name__)
            else:
                note("repair unsuccessful (%s)" % ("recoverable" if recoverable else "unrecoverable"))
            # ------------------------------------------------------------------ publish with failing servers (C47)
            install(g, si, snaps[newest])
            wnode = new_nodemaker(g).create_from_cap(wcap)
            fates = [rng.choice(["ok"] * 4 + ["broken", "break-write"]) for i in range(S)]
            if rng.random() < 0.3:
                fates = ["broken" if rng.random() < 0.75 else f for f in fates]
            for i, f in enumerate(fates):
                g.wrappers[i].broken = True if f == "broken" else ({"slot_testv_and_readv_and_writev": 0} if f == "break-write" else False)
            newc = blob(rng.choice(sizes), b"final")
            st, res = yield with_timeout(wnode.overwrite(MutableData(newc)))
            report["publishes"] += 1
            for w in g.wrappers:
                w.broken = False
            where = dict(desc, server_fates=fates)
            after = snapshot(g, si)
            placed = set(sh for (i, sh), content in after.items() if verid(content)[0] > ids[newest][0])
            writable = [i for i in range(S) if fates[i] == "ok"]
            if st == "hang":
                report["problems"].append(dict(where, kind="publish_hang", what="overwrite did not finish"))
                return
            if st == "done":
                if len(placed) < k:
                    report["problems"].append(dict(where, kind="unrecoverable_success", what="overwrite reported success but only %d distinct shares of the new version are stored (k=%d)" % (len(placed), k)))
                    return
                st2, got = yield with_timeout(new_nodemaker(g).create_from_cap(rcap).download_best_version())
                # (a shallow MODE_READ survey may legitimately settle for the previous version when it never meets the new one)
                if st2 != "done" or got not in (newc, contents[newest]):
                    report["problems"].append(dict(where, kind="unrecoverable_success", what="overwrite reported success but the file reads back %s" % ("other bytes" if st2 == "done" else st2)))
                    return
            else:
                if not res.check(NotEnoughServersError, UncoordinatedWriteError, NotEnoughSharesError, UnrecoverableFileError):
                    report["problems"].append(dict(where, kind="wrong_publish_error", what="overwrite failed with %s: %s" % (res.type.__name__, str(res.value)[:200])))
                    return
                if len(writable) == S:
                    report["problems"].append(dict(where, kind="wrong_publish_error", what="overwrite failed (%s) although every server works" % res.type.__name__))
                    return
                note("publish failed with %s" % res.type.__name__)
            # ------------------------------------------------------------------ two writers at once (C12)
            install(g, si, snaps[newest])
            a, b = new_nodemaker(g).create_from_cap(wcap), new_nodemaker(g).create_from_cap(wcap)
            ca, cb = blob(rng.choice(sizes), b"writer-A"), blob(rng.choice(sizes), b"writer-B")
            da, db = with_timeout(a.overwrite(MutableData(ca))), with_timeout(b.overwrite(MutableData(cb)))
            (sa, ra) = yield da
            (sb, rb) = yield db
            report["publishes"] += 2
            where = dict(desc)
            for s_, r_, who in ((sa, ra, "A"), (sb, rb, "B")):
                if s_ == "hang":
                    report["problems"].append(dict(where, kind="publish_hang", what="concurrent overwrite by %s did not finish" % who))
                    return
                if s_ == "failed" and not r_.check(UncoordinatedWriteError, NotEnoughServersError):
                    report["problems"].append(dict(where, kind="wrong_publish_error", what="concurrent overwrite by %s failed with %s: %s" % (who, r_.type.__name__, str(r_.value)[:160])))
                    return
            after = snapshot(g, si)
            vids = {}
            for key, content in after.items():
                vids.setdefault(verid(content), set()).add(key[1])
            rec_after = [vid for vid, shs in vids.items() if len(shs) >= k]
            note("two writers: %s/%s" % (sa if sa == "done" else ra.type.__name__, sb if sb == "done" else rb.type.__name__))
            if 3 * k <= n and not rec_after:
                report["problems"].append(dict(where, kind="clobbered", what="after two concurrent overwrites (%s, %s) no version is recoverable: %r" % (sa, sb, dict((str(v[0]), sorted(s_)) for v, s_ in vids.items()))))
                return
            if sa == "done" and sb == "done":
                # both report success: then one of them wrote after the other had finished, and its version is what every share holds
                st2, got = yield with_timeout(new_nodemaker(g).create_from_cap(rcap).download_best_version())
                if st2 != "done" or got not in (ca, cb) or len(vids) != 1:
                    report["problems"].append(dict(where, kind="silent_clobber", what="both concurrent writers reported success, yet the servers hold %d versions and the file reads %s" % (len(vids), "neither writer's bytes" if st2 == "done" and got not in (ca, cb) else st2)))
                    return
            elif (sa == "done") != (sb == "done"):
                winner = ca if sa == "done" else cb
                st2, got = yield with_timeout(new_nodemaker(g).create_from_cap(rcap).download_best_version())
                if st2 == "done" and got not in (ca, cb, contents[newest]):
                    report["problems"].append(dict(where, kind="unpublished_bytes", what="after concurrent writes the file reads bytes nobody published"))
                    return
                del winner
            # ------------------------------------------------------------------ one client, many operations at once (C13)
            install(g, si, snaps[newest])
            cnm = new_nodemaker(g)
            h1, h2 = cnm.create_from_cap(wcap), cnm.create_from_cap(wcap)
            if h1 is not h2:
                report["problems"].append(dict(desc, kind="two_nodes_one_cap", what="one client built two different node objects for the same write cap"))
                return
            tags = [b"[op%d]" % i for i in range(rng.randint(2, 5))]

            def appender(tag):
                def modifier(old, servermap, first_time):
                    return old + tag
                return modifier
            ops = []
            for i, tag in enumerate(tags):
                handle = h1 if i % 2 == 0 else h2
                ops.append(with_timeout(handle.modify(appender(tag))))
                if rng.random() < 0.5:
                    ops.append(with_timeout(handle.download_best_version()))
            results = []
            for o in ops:
                r = yield o
                results.append(r)
            report["publishes"] += len(tags)
            if any(st_ != "done" for st_, _ in results):
                bad = [(st_, getattr(r_, "type", None) and r_.type.__name__) for st_, r_ in results if st_ != "done"]
                report["problems"].append(dict(desc, kind="lost_update", what="operations issued at once on one node did not all succeed: %r" % (bad[:3],)))
                return
            st2, got = yield with_timeout(new_nodemaker(g).create_from_cap(rcap).download_best_version())
            base = contents[newest]
            ok = st2 == "done" and got.startswith(base) and len(got) == len(base) + sum(len(t_) for t_ in tags) and all(got.count(t_) == 1 for t_ in tags)
            if not ok:
                report["problems"].append(dict(desc, kind="lost_update", what="%d modify() calls issued at once on one node: the file ends as %r, expected the old contents followed by each of %r once" % (len(tags), got[-60:] if st2 == "done" else st2, tags)))
                return
            report["scenarios"] += 1
        finally:
            g.cleanup()

    @defer.inlineCallbacks
    def run_all():
        for i in range(nscen):
            yield scenario(i)

    def go():
        d = run_all()
        d.addErrback(lambda f: report["problems"].append({"kind": "harness", "what": "harness error: " + f.getTraceback()[-1200:]}))
        d.addBoth(lambda _: reactor.stop())
    reactor.callWhenRunning(go)
    reactor.run()
    print(json.dumps(report))


BOUND = ("mutable-file scenarios on the real in-process grid (real StorageServer slots on disk, real NodeMaker/ServermapUpdater/Publish/Retrieve/checker/repairer): SDMF and MDMF (1 byte .. 2 segments), "
         "k/N/servers in {3/10/10,2/4/4,1/3/3,3/5/5,2/6/3}, 1..4 published versions plus a competing version with the newest seqnum, final disk state composed per share slot from "
         "newest/older/competing/deleted/bit-flipped (anywhere, signed prefix, block data)/truncated/another file's share, one server may stop answering after the survey; reads with write- and read-cap, "
         "MODE_READ survey, check with and without verify, repair with and without force, overwrite with failing servers, two concurrent writers, 2..5 modify() calls and reads issued at once through two handles of one client")
KINDS = {
    "C10": (("unpublished_bytes", "read_failed", "read_hang"), "reads-return-a-published-version-or-an-error-and-succeed-when-k-intact-newest-shares-are-reachable"),
    "C11": (("not_highest", "stopped_early"), "the-survey-calls-the-highest-recoverable-seqnum-best-and-keeps-asking-while-a-newer-version-is-unrecovered"),
    "C12": (("clobbered", "silent_clobber", "publish_hang"), "two-concurrent-writers-never-both-succeed-with-diverging-shares-and-a-version-stays-recoverable"),
    "C14": (("check_failed", "check_wrong", "verify_wrong", "repair_without_force", "repair_changed_contents", "repair_incomplete", "repair_hang"),
            "check-results-equal-the-ground-truth-on-disk-repair-refuses-without-force-and-keeps-the-best-contents-on-N-shares"),
    "C13": (("two_nodes_one_cap", "lost_update"), "operations-issued-at-once-through-one-client-all-take-effect-exactly-once"),
    "C47": (("unrecoverable_success", "wrong_publish_error", "publish_hang"), "overwrite-succeeds-only-with-k-distinct-new-shares-stored-and-otherwise-fails-with-a-publish-error"),
}


def grid_check(rep, tier, prop):
    from contracts import scenario_runner
    kinds, name = KINDS[prop]
    scenario_runner.run(rep, tier, prop, "grid_mutable", kinds, name, BOUND, ("scenarios", "reads", "checks", "repairs", "publishes"), quick=(8, 12), thorough=(16, 250), contract="MutableScenarios",
                        known_kinds=({"read_failed_unsigned_offsets": "D32"} if prop == "C10" else None))


if __name__ == "__main__":
    main_(int(sys.argv[1]), int(sys.argv[2]))
