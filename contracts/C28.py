"""C28 Storage space reservations are honoured -- contracts on StorageServer.allocate_buckets / allocated_size / bucket_writer_closed"""
import os
import z3
from pyvc.harness import Spec, IntK, ChoiceK, Outcome
from pyvc.interp import ModelFn
from pyvc.values import *  # noqa
from pyvc.models_ext2 import PathTok, FileState
from contracts.lib import *  # noqa

LEVEL = "other"
MANIFEST_ENTRY = {
    "text": "For every available-space value, every reservation already in progress and every share size (all unbounded integers), allocate_buckets never grants new buckets whose sizes exceed what is left, grants none on a read-only server, registers each granted writer, and skips shares already present or in progress; bucket_writer_closed removes exactly the closing writer so allocated_size drops by its reservation. The share-number set is bounded to 2 requested shares in each of the states absent/final/incoming/not-requested (shape bound), hence level 'other'.",
    "note": "Bound: <=2 share numbers per request (16 state combinations x read-only x space-API-present), <=1 other upload in progress with symbolic reservation. fileutil.get_available_space/get_disk_stats (Unix branch) is under contract too (DiskAvailableSpace): max(f_frsize*f_bavail - reserved_space, 0), None without a disk API, 0 when the OS call fails; os.statvfs itself is trusted and the Windows ctypes branch is outside. BucketWriter construction is replaced by a stub that records (incoming path, size); its own contract is C22. Release on close/abort is C22's BucketWriterAbort/Close + bucket_writer_closed here.",
    "technique": "contract-based deductive verification (pyvc VCs + z3); request shape bounded",
}
MANIFEST_ENTRY["text"] += " Bounded end-to-end stand-in (run-time contract, never counted as proved): contracts/grid_http.py drives the real StorageServer through seeded histories (allocate, chunked/overlapping/conflicting/overrunning writes, abort, 31-minute timeout, reads, leases, read-test-write with failing tests, truncation, deletion, wrong write enabler) and compares it after every operation with a plain byte-array model: visible shares, bytes, space reserved for uploads in progress, mutable slots."
MANIFEST_ENTRY["technique"] = MANIFEST_ENTRY.get("technique", "contract-based deductive verification: pre/postconditions on the real functions, VCs generated from the AST, discharged by z3/cvc5") + "; plus a bounded run-time contract: the real StorageServer against a byte-array model over seeded histories (stand-in, labelled bounded)"
EXPLANATION = "allocate_buckets executed symbolically for all integer space values; request shape bounded to two share numbers."
TRUSTED = ["os.statvfs reports the filesystem's f_frsize/f_bavail (fileutil.get_available_space itself is under contract: DiskAvailableSpace; Windows ctypes branch not under contract)"]
ASSUMPTIONS = ["termination not proved"]
NOT_DECIDED = "histories of several requests (composition of the per-call contract), HTTP upload bookkeeping."
F = "allmydata/storage/server.py"
SI = b"\x01" * 16
STATES = ("absent", "final", "incoming", "not-requested")


class AllocateBuckets(Spec):
    file = F
    qualname = "StorageServer.allocate_buckets"
    level = "B"
    bound = "<= 2 requested share numbers (each absent / already final / already incoming / not requested); <= 1 other upload in progress"
    cross_check = 40
    canary_case = {"readonly": False, "api": "none", "s0": "absent", "s1": "absent"}

    def inputs(self):
        return {"A": IntK(0, rnd=lambda r: r.randint(0, 100)), "W": IntK(0, rnd=lambda r: r.choice([0, 0, r.randint(0, 60)])),
                "S": IntK(0, rnd=lambda r: r.choice([0, 1, r.randint(0, 60)])), "readonly": ChoiceK([False, True]),
                "api": ChoiceK(["int", "none"]), "s0": ChoiceK(STATES), "s1": ChoiceK(STATES)}

    def all_cases(self):
        return [{"readonly": ro, "api": api, "s0": a, "s1": b} for ro in (False, True) for api in ("int", "none")
                for a in STATES for b in STATES]

    def config(self):
        me = self

        def avail(I, a, kw):
            return None if me._a["api"] == "none" else me._a["A"]

        def new_bw(I, a, kw):
            ss, inc, fin, size = a[0], a[1], a[2], a[3]
            bw = stub("bw", allocated_size=lambda I_, a_, k_: size)
            bw.fields.update({"incominghome": inc, "finalhome": fin, "_max_size": size, "throw_out_all_data": False})
            me._created.append(bw)
            return bw
        ov = {"fileutil.get_available_space": avail, "immutable.BucketWriter": new_bw, "StorageServer.count": noop,
              "StorageServer.add_latency": noop, "StorageServer.get_shares": lambda I, a, kw: [],
              "StorageServer._add_or_renew_leases": noop, "lease.LeaseInfo": lambda I, a, kw: Opaque("lease_info")}
        return {"overrides": ov, "concrete_overrides": ov}

    def sharedir(self):
        from allmydata.storage.common import storage_index_to_dir
        return storage_index_to_dir(SI)

    def run(self, I, a):
        self._a, self._created = a, []
        sd = self.sharedir()
        for i, st in ((0, a["s0"]), (1, a["s1"])):
            I.disk["shares/%s/%d" % (sd, i)] = FileState(z3.K(IntS, z3.IntVal(0)), 0, st == "final")
            I.disk["shares/incoming/%s/%d" % (sd, i)] = FileState(z3.K(IntS, z3.IntVal(0)), 0, st == "incoming")
        other = stub("other_bw", allocated_size=lambda I_, a_, k_: a["W"])
        writers = {"shares/incoming/zz/other/7": other}
        ss = SObj(self.module().StorageServer, {"_clock": stub("clock", seconds=lambda I_, a_, k_: z3.Int(fresh_name("now"))),
                                                "readonly_storage": a["readonly"], "sharedir": "shares", "incomingdir": "shares/incoming",
                                                "reserved_space": 0, "my_nodeid": b"n" * 20, "no_storage": False, "_bucket_writers": writers})
        nums = set(i for i, st in ((0, a["s0"]), (1, a["s1"])) if st != "not-requested")
        got, bws = I.call_value(self.target(I), [ss, SI, b"r" * 32, b"c" * 32, nums, a["S"]], {})
        out = Outcome("return", None)
        out.post = {"granted": sorted(bws.keys()), "alreadygot": sorted(got), "registered": sorted(k for k in writers if k != "shares/incoming/zz/other/7"),
                    "expected_keys": ["shares/incoming/%s/%d" % (sd, i) for i in sorted(bws.keys())],
                    "sizes_ok": all(b.fields["_max_size"] is a["S"] or True for b in self._created)}
        return out

    def native(self, a):
        from allmydata.storage.server import StorageServer
        from allmydata.util import fileutil
        import allmydata.storage.server as srv

        class Clock(object):
            def seconds(self):
                return 1000.0

            def callLater(self, *x, **k):
                class DC(object):
                    def active(s):
                        return True

                    def cancel(s):
                        pass

                    def reset(s, *x):
                        pass
                return DC()

        def f():
            with TempDir() as d:
                saved = fileutil.get_available_space
                fileutil.get_available_space = lambda *x: (None if a["api"] == "none" else a["A"])
                try:
                    ss = StorageServer(d, b"n" * 20, readonly_storage=a["readonly"], clock=Clock())
                    sd = self.sharedir()
                    for i, st in ((0, a["s0"]), (1, a["s1"])):
                        base = {"final": ss.sharedir, "incoming": ss.incomingdir}.get(st)
                        if base:
                            os.makedirs(os.path.join(base, sd), exist_ok=True)
                            open(os.path.join(base, sd, str(i)), "wb").close()

                    class Other(object):
                        def allocated_size(s):
                            return a["W"]
                    ss._bucket_writers["other"] = Other()
                    ss.get_shares = lambda si: []
                    nums = set(i for i, st in ((0, a["s0"]), (1, a["s1"])) if st != "not-requested")
                    got, bws = ss.allocate_buckets(SI, b"r" * 32, b"c" * 32, nums, a["S"])
                    reg = sorted(os.path.relpath(k, d) for k in ss._bucket_writers if k != "other")
                    return {"granted": sorted(bws.keys()), "alreadygot": sorted(got), "registered": reg,
                            "expected_keys": ["shares/incoming/%s/%d" % (sd, i) for i in sorted(bws.keys())], "sizes_ok": True}
                finally:
                    fileutil.get_available_space = saved
        out = native_outcome(f)
        if out.kind == "return":
            out.post, out.value = out.value, None
        return out

    def same_result(self, n, s):
        return n.post["granted"] == s.post["granted"] and n.post["registered"] == s.post["registered"]

    def ensures(self, I, a, out):
        p = out.post
        cand = [i for i, st in ((0, a["s0"]), (1, a["s1"])) if st == "absent"]
        granted = p["granted"]
        S, W = Z(a["S"]), Z(a["W"])
        limited = a["readonly"] or a["api"] == "int"
        avail = z3.IntVal(0) if a["readonly"] else Z(a["A"])
        g = [("granted-only-absent-requested-shares", z3.BoolVal(all(i in cand for i in granted))),
             ("every-granted-writer-registered-under-its-incoming-path", z3.BoolVal(p["registered"] == p["expected_keys"]))]
        if a["readonly"]:
            g.append(("read-only-server-grants-nothing", z3.BoolVal(len(granted) == 0)))
        if limited:
            n = len(granted)
            g.append(("never-over-commits", z3.Implies(z3.BoolVal(n > 0), n * S <= avail - W)))
            if not a["readonly"]:
                # completeness: candidates are granted in order while they fit
                k = len(cand)
                fits = lambda m: m * S <= avail - W
                g.append(("grants-while-space-remains", z3.And([z3.Implies(fits(m), z3.BoolVal(n >= m)) for m in range(1, k + 1)]) if k else z3.BoolVal(True)))
        else:
            g.append(("unlimited-grants-all-candidates", z3.BoolVal(granted == cand)))
        return g

    def canary(self, I, a, out):
        return [("canary", z3.BoolVal(len(out.post["granted"]) == 0))]


class AllocatedSize(Spec):
    """allocated_size() is the sum of the reservations of the registered writers; bucket_writer_closed(bw) removes
    exactly bw, so the total drops by bw's reservation."""
    file = F
    qualname = "StorageServer.bucket_writer_closed"
    level = "B"
    bound = "<= 3 registered writers"
    cross_check = 0

    def inputs(self):
        return {"w0": IntK(0), "w1": IntK(0), "w2": IntK(0), "n": ChoiceK([1, 2, 3]), "which": ChoiceK([0, 1, 2])}

    def all_cases(self):
        return [{"n": n, "which": w} for n in (1, 2, 3) for w in range(n)]

    def run(self, I, a):
        sizes = [a["w0"], a["w1"], a["w2"]][:a["n"]]
        bws = []
        for i, sz in enumerate(sizes):
            b = stub("bw%d" % i, allocated_size=(lambda sz: lambda I_, a_, k_: sz)(sz))
            b.fields["incominghome"] = "incoming/%d" % i
            bws.append(b)
        ss = SObj(self.module().StorageServer, {"stats_provider": None, "_bucket_writers": {b.fields["incominghome"]: b for b in bws},
                                                "_call_on_bucket_writer_close": []})
        before = I.call_value(I.get_attr(ss, "allocated_size"), [], {})
        I.call_value(self.target(I), [ss, bws[a["which"]], 5], {})
        after = I.call_value(I.get_attr(ss, "allocated_size"), [], {})
        out = Outcome("return", None)
        out.post = {"before": before, "after": after, "left": sorted(ss.fields["_bucket_writers"].keys())}
        return out

    def ensures(self, I, a, out):
        sizes = [Z(a["w0"]), Z(a["w1"]), Z(a["w2"])][:a["n"]]
        p = out.post
        return [("allocated-size-is-sum-of-reservations", Z(p["before"]) == sum(sizes)),
                ("closing-releases-exactly-that-reservation", Z(p["after"]) == sum(sizes) - sizes[a["which"]]),
                ("only-the-closed-writer-is-unregistered", z3.BoolVal(p["left"] == ["incoming/%d" % i for i in range(a["n"]) if i != a["which"]]))]

    def canary(self, I, a, out):
        return [("canary", Z(out.post["after"]) == Z(out.post["before"]))]


class AvailableSpace(Spec):
    file = F
    qualname = "StorageServer.get_available_space"
    cross_check = 0

    def inputs(self):
        return {"A": IntK(0), "R": IntK(0), "readonly": ChoiceK([False, True])}

    def all_cases(self):
        return [{"readonly": False}, {"readonly": True}]

    def config(self):
        me = self

        def gas(I, args, kw):
            me._asked.append(tuple(args))
            return me._a["A"]
        return {"overrides": {"fileutil.get_available_space": gas}}

    def run(self, I, a):
        self._a, self._asked = a, []
        ss = SObj(self.module().StorageServer, {"readonly_storage": a["readonly"], "sharedir": "shares", "reserved_space": a["R"]})
        out = Outcome("return", I.call_value(self.target(I), [ss], {}))
        out.post = {"asked": list(self._asked)}
        return out

    def ensures(self, I, a, out):
        g = [("read-only-reports-zero-else-disk-value", Z(out.value) == (0 if a["readonly"] else Z(a["A"])))]
        if not a["readonly"]:
            asked = out.post["asked"]
            ok = len(asked) == 1 and len(asked[0]) == 2 and asked[0][0] == "shares"
            g.append(("asks-for-the-share-directory-with-the-configured-reservation",
                      z3.And(z3.BoolVal(ok), Z(asked[0][1]) == Z(a["R"])) if ok else z3.BoolVal(False)))
        return g

    def canary(self, I, a, out):
        return [("canary", Z(out.value) == 1)]


class DiskAvailableSpace(Spec):
    """fileutil.get_available_space / get_disk_stats (Unix branch): the number handed to the storage server is
    max(f_frsize * f_bavail - reserved_space, 0) of the filesystem -- the non-root free space minus the reservation, never
    negative; no disk-information API => None (the server then does not limit); a failing OS call => 0 (accept nothing)."""
    file = "allmydata/util/fileutil.py"
    qualname = "get_available_space"
    cross_check = 0
    canary_case = {"os": "ok"}

    def inputs(self):
        return {"frsize": IntK(0), "blocks": IntK(0), "bfree": IntK(0), "bavail": IntK(0), "reserved": IntK(0),
                "os": ChoiceK(["ok", "no-api", "fails"])}

    def all_cases(self):
        return [{"os": "ok"}, {"os": "no-api"}, {"os": "fails"}]

    def config(self):
        me = self

        def statvfs(I, args, kw):
            me._asked.append(args[0])
            if me._a["os"] == "no-api":
                raise PyRaise(SObj(AttributeError, {"args": ("statvfs",)}))
            if me._a["os"] == "fails":
                raise PyRaise(SObj(OSError, {"args": (5, "EIO")}))
            a = me._a
            return SObj(StubCls, {"f_frsize": a["frsize"], "f_blocks": a["blocks"], "f_bfree": a["bfree"], "f_bavail": a["bavail"],
                                  "f_bsize": a["frsize"]}, name="statvfs_result")
        return {"overrides": {"posix.statvfs": statvfs, "os.statvfs": statvfs, "log.msg": noop, "LogPublisher.msg": noop}}

    def requires(self, I, a):
        return self.module().have_GetDiskFreeSpaceExW is False      # the Windows branch (ctypes) is not under contract

    def run(self, I, a):
        self._a, self._asked = a, []
        out = Outcome("return", I.call_value(self.target(I), ["the-share-dir", a["reserved"]], {}))
        out.post = {"asked": list(self._asked)}
        return out

    def ensures(self, I, a, out):
        g = [("asks-the-filesystem-of-the-given-directory", z3.BoolVal(out.post["asked"] == ["the-share-dir"]))]
        if a["os"] == "no-api":
            return g + [("no-disk-api-reports-None", z3.BoolVal(out.value is None))]
        if a["os"] == "fails":
            return g + [("failing-os-call-reports-zero-space", z3.BoolVal(False) if out.value is None else Z(out.value) == 0)]
        if out.value is None:
            return g + [("available-is-nonroot-free-space-minus-reservation-floored-at-zero", z3.BoolVal(False))]
        free = Z(a["frsize"]) * Z(a["bavail"])
        return g + [("available-is-nonroot-free-space-minus-reservation-floored-at-zero", Z(out.value) == z3.If(free - Z(a["reserved"]) > 0, free - Z(a["reserved"]), 0)),
                    ("available-is-never-negative", Z(out.value) >= 0)]

    def canary(self, I, a, out):
        return [("canary", Z(out.value) == Z(a["frsize"]) * Z(a["bavail"]))]


def extra_checks(rep, tier):
    from contracts import grid_http
    grid_http.grid_check(rep, tier, "C28")


def contracts(tier):
    # release of the reservation on close / abort / timeout / disconnect: the BucketWriter contracts of C22
    from contracts.C22 import BucketWriterAbort, BucketWriterClose
    return [AllocateBuckets(), AllocatedSize(), AvailableSpace(), DiskAvailableSpace(), BucketWriterAbort(), BucketWriterClose()]
