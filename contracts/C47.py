"""C47 A successful mutable publish is recoverable -- contracts on mutable/publish.py Publish._push, _failure, _done,
_connection_problem, _got_write_answer, finish_publishing"""
import z3
from pyvc.harness import Spec, IntK, BoolK, ChoiceK, Outcome
from pyvc.values import *  # noqa
from contracts.lib import *  # noqa
from pyvc.models_ext import unwrap_key

LEVEL = "other"
MANIFEST_ENTRY = {
    "text": "Publish._push (the state machine's only way to finish): for every required_shares, every writer table with 0..4 distinct share numbers and either value of `surprised`, _done() is reached only if writers remain for at least k DISTINCT share numbers, no surprise was seen and both push phases are over; with fewer than k share numbers or a surprise, _failure() runs and nothing else. _failure fires the result Deferred with UncoordinatedWriteError when surprised, else NotEnoughServersError; _done fires it with None, once. A writer whose final write fails is removed from the table by _connection_problem -- finish_publishing wires each writer's errback to THAT writer (each of 3 writers failing in turn), and the failed answer is not treated as an acknowledgement. _got_write_answer: `surprised` is never reset; a refused test vector (wrote == False) or an unknown share with another checkstring sets it; only an accepted write adds (server, shnum) to `placed` and the servermap.",
    "note": "Deferred scheduling is modelled by a chain interpreter; `eventually` is a recording stub. The segment push phases, update_goal placement and the storage servers' test-and-set (C24) are outside these contracts. Writer counts bounded.",
    "technique": "contract-based deductive verification (pyvc VCs + z3) with a Deferred-chain model; writer tables bounded",
}
MANIFEST_ENTRY["text"] += ' Bounded end-to-end stand-in (run-time contract, never counted as proved): contracts/grid_mutable.py publishes 1..4 versions (plus a competing one) of SDMF/MDMF files on real StorageServers, composes the final disk state slot by slot from snapshots (newest/older/competing/deleted/bit-flipped/truncated/foreign), and checks reads, the MODE_READ survey, check/verify, repair with and without force, overwrite with failing servers and two concurrent writers against the ground truth on disk.'
MANIFEST_ENTRY["technique"] += "; plus bounded end-to-end run-time scenario contracts on an in-process grid of the real components (stand-in, labelled bounded)"
EXPLANATION = "State-machine and bookkeeping contracts of the real Publish methods."
TRUSTED = ["twisted Deferred callback/errback semantics as implemented by contracts.lib.fire_chain", "foolscap eventually() only schedules the call"]
ASSUMPTIONS = []
NOT_DECIDED = "push_segment / push_everything_else contents, update_goal, servermap bookkeeping."
F = "allmydata/mutable/publish.py"


def mk_writers(I, shnums, server_of=None):
    from allmydata.util.dictutil import DictOfSets
    ws = SObj(DictOfSets, {"__dictdata__": {}})
    writers = []
    for i, sh in enumerate(shnums):
        srv = (server_of or (lambda i: stub("server%d" % i, get_serverid=(lambda I_, a_, k_, i=i: b"id%d" % i), get_name=lambda I_, a_, k_: "n")))(i)
        w = stub("writer%d" % i, shnum=sh, server=srv)
        writers.append(w)
        I.call_value(I.get_attr(ws, "add"), [sh, w], {})
    return ws, writers


LOGS = {"Publish.log": lambda I, a, kw: 1, "PrefixingLogMixin.log": lambda I, a, kw: 1, "time.time": lambda I, a, kw: Opaque("now")}


class Push(Spec):
    file = F
    qualname = "Publish._push"
    level = "B"
    bound = "writer tables with 0..4 writers over share numbers {0,1,2} (duplicates included); required_shares and state symbolic"
    cross_check = 0
    raises = ()
    canary_case = {"shnums": (0, 1, 1, 2)}

    def inputs(self):
        return {"shnums": ChoiceK([()]), "k": IntK(1, 256), "surprised": BoolK()}

    def all_cases(self):
        import itertools
        cs = []
        for n in range(0, 5):
            for t in itertools.combinations_with_replacement((0, 1, 2), n):
                cs.append({"shnums": t})
        return cs

    def config(self):
        me = self
        o = dict(LOGS)
        for nm in ("_failure", "_done", "push_segment", "push_everything_else"):
            o["Publish." + nm] = (lambda I, a, kw, nm=nm: (me._calls.append(nm), nm)[1])
        return {"overrides": o}

    def run(self, I, a):
        M = self.module()
        self._calls = []
        ws, _ = mk_writers(I, a["shnums"])
        st = z3.Int("state")
        I.path.assume(z3.And(st >= 0, st <= 2))
        state = None
        for i, nm in enumerate(("PUSHING_BLOCKS_STATE", "PUSHING_EVERYTHING_ELSE_STATE", "DONE_STATE")):
            if I.path.branch(st == i):
                state = getattr(M, nm)
                break
        self._state = state
        p = SObj(M.Publish, {"writers": ws, "required_shares": a["k"], "surprised": a["surprised"], "_state": state, "_current_segment": 0})
        return I.call_value(self.target(I), [p], {})

    def ensures(self, I, a, out):
        M = self.module()
        distinct = len(set(a["shnums"]))
        k = Z(a["k"])
        sur = to_z3_bool(a["surprised"])
        bad = z3.Or(z3.IntVal(distinct) < k, sur)
        c = self._calls
        g = [("exactly-one-transition", z3.BoolVal(len(c) == 1))]
        if len(c) != 1:
            return g
        g.append(("too-few-share-numbers-or-a-surprise-means-failure", bad if c[0] == "_failure" else z3.Not(bad)))
        if c[0] == "_done":
            g.append(("success-only-with-k-distinct-share-numbers-and-no-surprise", z3.And(z3.IntVal(distinct) >= k, z3.Not(sur))))
            g.append(("success-only-after-both-push-phases", z3.BoolVal(self._state == M.DONE_STATE)))
        return g

    def canary(self, I, a, out):
        return [("canary", z3.BoolVal(self._calls != ["_done"]))]


class Failure_(Spec):
    file = F
    qualname = "Publish._failure"
    cross_check = 0
    raises = ()

    def inputs(self):
        return {"surprised": BoolK(), "last": ChoiceK([None, "oops"])}

    def all_cases(self):
        return [{"last": None}, {"last": "oops"}]

    def config(self):
        me = self
        o = dict(LOGS)
        o["eventual.eventually"] = lambda I, a, kw: me._ev.append(tuple(a))
        o["foolscap.eventual.eventually"] = o["eventual.eventually"]
        o["failure.Failure"] = lambda I, a, kw: ("Failure", a[0])
        o["twisted.python.failure.Failure"] = o["failure.Failure"]
        return {"overrides": o}

    def run(self, I, a):
        self._ev = []
        self._dd = stub("done_deferred", callback=noop)
        p = SObj(self.module().Publish, {"surprised": a["surprised"], "_last_failure": a["last"], "done_deferred": self._dd})
        return I.call_value(self.target(I), [p], {})

    def ensures(self, I, a, out):
        from allmydata.mutable.common import UncoordinatedWriteError, NotEnoughServersError
        ev = self._ev
        g = [("result-deferred-is-fired-once", z3.BoolVal(len(ev) == 1 and len(ev[0]) == 2))]
        if len(ev) == 1 and len(ev[0]) == 2 and isinstance(ev[0][1], tuple):
            exc = ev[0][1][1]
            cls = exc.cls if isinstance(exc, SObj) else type(exc)
            sur = to_z3_bool(a["surprised"])
            g.append(("uncoordinated-write-error-exactly-when-surprised", sur if cls is UncoordinatedWriteError else z3.Not(sur)))
            g.append(("otherwise-not-enough-servers", z3.BoolVal(cls in (UncoordinatedWriteError, NotEnoughServersError))))
        else:
            g.append(("fired-with-a-failure", z3.BoolVal(False)))
        return g

    def canary(self, I, a, out):
        return [("canary", z3.BoolVal(not self._ev))]


class Done(Spec):
    file = F
    qualname = "Publish._done"
    cross_check = 0
    raises = ()

    def inputs(self):
        return {"running": ChoiceK([False, True])}

    def all_cases(self):
        return [{"running": False}, {"running": True}]

    def config(self):
        me = self
        o = dict(LOGS)
        o["eventual.eventually"] = lambda I, a, kw: me._ev.append(tuple(a))
        o["foolscap.eventual.eventually"] = o["eventual.eventually"]
        return {"overrides": o}

    def run(self, I, a):
        self._ev = []
        st = stub("status", set_active=noop, set_status=noop, set_progress=noop, timings={})
        node = stub("node", set_downloader_hints=noop)
        p = SObj(self.module().Publish, {"_running": a["running"], "_status": st, "_started": 0, "_started_pushing": 0, "segment_size": 10, "required_shares": 3,
                                        "_node": node, "done_deferred": stub("done_deferred", callback=noop)})
        I.call_value(self.target(I), [p], {})
        return p

    def ensures(self, I, a, out):
        ev = self._ev
        return [("fires-success-exactly-once-per-publish", z3.BoolVal((len(ev) == 1 and ev[0][1] is None) if a["running"] else not ev)),
                ("no-longer-running", z3.BoolVal(out.value.fields["_running"] is False))]

    def canary(self, I, a, out):
        return [("canary", z3.BoolVal(not self._ev))] if a["running"] else []
    canary_case = {"running": True}


class FinishPublishingWiring(Spec):
    """the errback of writer.finish_publishing() removes THAT writer from the table; the failure is not an acknowledgement"""
    file = F
    qualname = "Publish.finish_publishing"
    level = "B"
    bound = "3 writers (share numbers 0, 1, 2 on three servers), each failing in turn or none"
    cross_check = 0
    raises = ()

    def inputs(self):
        return {"failing": ChoiceK([None, 0, 1, 2])}

    def all_cases(self):
        return [{"failing": f} for f in (None, 0, 1, 2)]

    def config(self):
        me = self
        o = dict(LOGS)
        o["rsa.der_string_from_verifying_key"] = lambda I, a, kw: b"vk"
        o["Publish._record_verinfo"] = noop
        o["Publish._got_write_answer"] = lambda I, a, kw: me._answers.append((a[1], a[2]))
        o["defer.DeferredList"] = lambda I, a, kw: ("DeferredList", a[0])
        o["twisted.internet.defer.DeferredList"] = o["defer.DeferredList"]
        return {"overrides": o}

    def run(self, I, a):
        from pyvc.models_tahoe import DStub
        self._answers = []
        ws, writers = mk_writers(I, (0, 1, 2))
        ds = []
        for w in writers:
            d = DStub("pending")
            ds.append(d)
            w.fields["put_verification_key"] = stub("x", f=noop).fields["f"]
            w.fields["finish_publishing"] = stub("x", f=(lambda I_, a_, k_, d=d: d)).fields["f"]
        st = SObj(self.module().PublishStatus, {"timings": {}, "_problems": {}, "status": "x", "sharemap": {}})
        p = SObj(self.module().Publish, {"writers": ws, "_status": st, "_pubkey": "pub", "num_outstanding": 0, "_last_failure": None})
        I.call_value(self.target(I), [p], {})
        for i, d in enumerate(ds):
            if a["failing"] == i:
                fire_chain(I, d, failure_stub(RuntimeError, "lost connection"))
            else:
                fire_chain(I, d, (True, {}))
        out = Outcome("return", p)
        out.post = {"writers": writers, "ws": ws}
        return out

    def ensures(self, I, a, out):
        ws = out.post["ws"].fields["__dictdata__"]
        left = sorted(unwrap_key(k) for k, v in ws.items() if v)
        want = [s for s in (0, 1, 2) if s != a["failing"]]
        acked = [w for (ans, w) in self._answers if ans]
        return [("exactly-the-failed-writer-is-dropped", z3.BoolVal(left == want)),
                ("only-answered-writes-are-treated-as-answers", z3.BoolVal(sorted(w.fields["shnum"] for w in acked) == want)),
                ("nothing-is-outstanding-afterwards", Z(out.value.fields["num_outstanding"]) == 0)]

    def canary(self, I, a, out):
        return [("canary", z3.BoolVal(len(self._answers) < 3))]
    canary_case = {"failing": None}


class GotWriteAnswer(Spec):
    file = F
    qualname = "Publish._got_write_answer"
    level = "B"
    bound = "read_data with the writer's own share and 0..1 further share (a number nobody writes, or the number another writer writes to this or to another server); goal/servermap membership symbolic"
    cross_check = 0
    raises = ()
    canary_case = {"extra": "other", "answer": "refused", "extra_shnum": 7, "w1_here": True}

    def inputs(self):
        return {"extra": ChoiceK(["none", "same", "other"]), "answer": ChoiceK(["none", "wrote", "refused"]), "was_surprised": BoolK(), "in_goal": BoolK(), "reachable": BoolK(),
                "extra_shnum": ChoiceK([7, 1]), "w1_here": ChoiceK([True, False])}

    def all_cases(self):
        return [{"extra": e, "answer": w, "extra_shnum": x, "w1_here": h} for e in ("none", "same", "other") for w in ("none", "wrote", "refused")
                for (x, h) in ((7, True), (1, True), (1, False))]

    def config(self):
        o = dict(LOGS)
        o["publish.get_version_from_checkstring"] = lambda I, a, kw: 99
        o["layout.get_version_from_checkstring"] = o["publish.get_version_from_checkstring"]
        o["Publish._update_status"] = noop
        return {"overrides": o}

    def run(self, I, a):
        self._added = []
        ws, writers = mk_writers(I, (0, 1), server_of=lambda i: "serverA")
        w = writers[0]
        read_data = {0: [b"mine"]}
        X = a["extra_shnum"]
        if a["extra"] == "same":
            read_data[X] = [b"CHECK"]
        elif a["extra"] == "other":
            read_data[X] = [b"OTHER"]
        goal = set()
        if a["extra"] != "none" and I.path.branch(to_z3_bool(a["in_goal"])):
            goal.add(("serverA", X))
        reach = set()
        if a["extra"] == "other" and I.path.branch(to_z3_bool(a["reachable"])):
            reach.add("serverA")
        sm = stub("servermap", get_reachable_servers=lambda I_, a_, k_: reach, version_on_server=lambda I_, a_, k_: None,
                  add_new_share=lambda I_, a_, k_: self._added.append(tuple(a_[:2])))
        st = stub("status", add_per_server_time=noop)
        w.fields["server"] = stub("serverA-obj", get_name=lambda I_, a_, k_: "A")
        srv = w.fields["server"]
        writers[1].fields["server"] = srv if a["w1_here"] else stub("serverB-obj", get_name=lambda I_, a_, k_: "B")
        if ("serverA", X) in goal:
            goal.clear()
            goal.add((srv, X))
        if reach:
            reach.clear()
            reach.add(srv)
        p = SObj(self.module().Publish, {"writers": ws, "_status": st, "_checkstring": b"CHECK", "goal": goal, "_servermap": sm, "surprised": a["was_surprised"],
                                        "bad_servers": set(), "versioninfo": ("v",), "placed": set()})
        answer = None if a["answer"] == "none" else ((a["answer"] == "wrote"), read_data)
        I.call_value(self.target(I), [p, answer, w, 0], {})
        out = Outcome("return", p)
        out.post = {"srv": srv}
        return out

    def ensures(self, I, a, out):
        p = out.value
        sur = p.fields["surprised"]
        sb = z3.BoolVal(sur) if isinstance(sur, bool) else to_z3_bool(sur)
        was = to_z3_bool(a["was_surprised"])
        placed = set((unwrap_key(x)[0], unwrap_key(x)[1]) if isinstance(unwrap_key(x), tuple) else unwrap_key(x) for x in p.fields["placed"])
        g = [("surprise-is-never-forgotten", z3.Implies(was, sb))]
        if a["answer"] == "none":
            g.append(("a-non-answer-changes-nothing", z3.And(sb == was, z3.BoolVal(not placed and not self._added))))
            return g
        ours = a["extra_shnum"] == 1 and a["w1_here"]        # a share we are ourselves writing to this very server is no surprise (#546)
        must = (a["answer"] == "refused") or (a["extra"] == "other" and not ours)
        g.append(("refused-write-or-unknown-version-sets-surprised", sb if must else (sb == was)))
        ok_placed = (a["answer"] == "wrote")
        g.append(("only-an-accepted-write-is-recorded-as-placed", z3.BoolVal((len(placed) == 1 and self._added == [(out.post["srv"], 0)]) if ok_placed else (not placed and not self._added))))
        if a["answer"] == "refused":
            g.append(("a-refusing-server-is-not-asked-again", z3.BoolVal(len(p.fields["bad_servers"]) == 1)))
        return g

    def canary(self, I, a, out):
        s = out.value.fields["surprised"]
        return [("canary", z3.Not(z3.BoolVal(s) if isinstance(s, bool) else to_z3_bool(s)))]


class ConnectionProblem(Spec):
    file = F
    qualname = "Publish._connection_problem"
    cross_check = 0
    raises = ()

    def inputs(self):
        return {"which": ChoiceK([0, 1, 2])}

    def all_cases(self):
        return [{"which": i} for i in (0, 1, 2)]

    def config(self):
        return {"overrides": dict(LOGS)}

    def run(self, I, a):
        ws, writers = mk_writers(I, (0, 1, 1))
        p = SObj(self.module().Publish, {"writers": ws, "_last_failure": None})
        f = failure_stub(RuntimeError, "x")
        I.call_value(self.target(I), [p, f, writers[a["which"]]], {})
        out = Outcome("return", p)
        out.post = {"ws": ws, "writers": writers, "f": f}
        return out

    def ensures(self, I, a, out):
        ws = out.post["ws"].fields["__dictdata__"]
        left = sorted((unwrap_key(k), len(v)) for k, v in ws.items())
        want = {0: [(1, 2)], 1: [(0, 1), (1, 1)], 2: [(0, 1), (1, 1)]}[a["which"]]
        gone = out.post["writers"][a["which"]]
        return [("the-failed-writer-no-longer-counts", z3.BoolVal(left == want and all(unwrap_key(x) is not gone for v in ws.values() for x in v))),
                ("the-failure-is-remembered", z3.BoolVal(out.value.fields["_last_failure"] is out.post["f"]))]

    def canary(self, I, a, out):
        return [("canary", z3.BoolVal(sum(len(v) for v in out.post["ws"].fields["__dictdata__"].values()) == 3))]


def extra_checks(rep, tier):
    from contracts import grid_mutable
    grid_mutable.grid_check(rep, tier, "C47")


def contracts(tier):
    return [Push(), Failure_(), Done(), FinishPublishingWiring(), GotWriteAnswer(), ConnectionProblem()]
