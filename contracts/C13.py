"""C13 One client serializes operations on a mutable node -- contracts on mutable/filenode.py MutableFileNode._do_serialized
(and MutableFileVersion._do_serialized), the whole-file entry points that must use it, and nodemaker.py (shared with C16)"""
import ast
import os
import z3
from pyvc.harness import Spec, IntK, BoolK, ChoiceK, Outcome
from pyvc.values import *  # noqa
from contracts.lib import *  # noqa
from contracts import C16

LEVEL = "other"
MANIFEST_ENTRY = {
    "text": "Serializer contract (MutableFileNode._do_serialized and MutableFileVersion._do_serialized, run under the Deferred-chain model with the operations' own Deferreds left pending, i.e. for operations of any duration): two requests queued while an earlier operation is still running are started strictly in request order; the second is not started until the first one's Deferred has fired; when the first fails, its caller receives the failure and the second is still started, because the failure is absorbed and the serializer chain is left in the success state -- the invariant the contract assumes on entry (established by defer.succeed(None) in the constructors) and proves on exit; each caller receives exactly its own operation's result. Entry points: download_best_version, overwrite, upload, modify, get_servermap of MutableFileNode and overwrite, modify, update, read of MutableFileVersion all go through _do_serialized (checked on the AST every run). One node object per capability string within a client, so that these requests meet in one serializer: NodeMaker node-cache contract of C16, re-run here.",
    "note": "Twisted's rule that a callback returning a Deferred pauses the chain until it fires is the trusted model (contracts.lib.fire_chain); foolscap eventually() is a recording stub. That directory edits built on modify() do not lose each other's changes additionally needs modify()'s read-modify-write to run inside one serialized operation, which is what the entry-point obligation states; the retry loop of _modify_and_retry is not under contract.",
    "technique": "contract-based deductive verification (pyvc VCs + z3) over a Deferred-chain model; entry points by AST check",
}
EXPLANATION = "Queue discipline of the serializer Deferred."
TRUSTED = ["twisted Deferred chain semantics as implemented by contracts.lib.fire_chain", "foolscap eventually() only schedules"]
ASSUMPTIONS = []
NOT_DECIDED = "reactor-level fairness; deadlock freedom when an operation itself calls a serialized method (documented precondition of the code)."
FN = "allmydata/mutable/filenode.py"
ENTRY = {"MutableFileNode": ("download_best_version", "overwrite", "upload", "modify", "get_servermap"), "MutableFileVersion": ("overwrite", "modify", "update", "read")}


class Serializer(Spec):
    file = FN
    cross_check = 0
    raises = ()

    def __init__(self, cls):
        self.cls_name = cls
        self.qualname = cls + "._do_serialized"

    @property
    def name(self):
        return "Serializer_" + self.cls_name

    def inputs(self):
        return {"first_fails": ChoiceK([False, True]), "prev_failed": ChoiceK([False, True])}

    def all_cases(self):
        # invariant of the serializer: its tail is always in the success state (established by defer.succeed(None) in
        # __init__, re-established by every _do_serialized: last obligation), so the earlier operation "finishes" with a
        # non-failure as far as the chain is concerned
        return [{"first_fails": f, "prev_failed": False} for f in (False, True)]

    def config(self):
        me = self
        from pyvc.models_tahoe import DStub
        return {"overrides": {"eventual.eventually": lambda I, a, kw: me._events.append(("deliver", a[0], a[1])), "foolscap.eventual.eventually": lambda I, a, kw: me._events.append(("deliver", a[0], a[1])),
                              "log.err": lambda I, a, kw: me._events.append(("log.err",)),
                              "defer.Deferred": lambda I, a, kw: me._new_deferred(), "twisted.internet.defer.Deferred": lambda I, a, kw: me._new_deferred()}}

    def _new_deferred(self):
        d = stub("callers-deferred-%d" % len(self._callers), callback="CALLBACK-%d" % len(self._callers))
        self._callers.append(d)
        return d

    def run(self, I, a):
        from pyvc.models_tahoe import DStub
        from pyvc.interp import ModelFn
        self._events, self._callers = [], []
        ser = DStub("pending")          # an earlier operation is still running
        node = SObj(getattr(self.module(), self.cls_name), {"_serializer": ser})
        op_d = [DStub("pending"), DStub("pending")]

        def mk(i):
            def op(I_, a_, k_):
                self._events.append(("start", i, tuple(a_)))
                return op_d[i]
            return ModelFn("operation%d" % i, op)
        r0 = I.call_value(self.target(I), [node, mk(0), "arg0"], {})
        r1 = I.call_value(self.target(I), [node, mk(1), "arg1"], {})
        trace = []
        trace.append(("queued", list(self._events)))
        # the earlier operation finishes (successfully or not)
        prev = failure_stub(RuntimeError, "previous operation failed") if a["prev_failed"] else "previous-result"
        res, _ = fire_chain(I, ser, prev)
        trace.append(("after-previous-finished", list(self._events), ser.state))
        # operation 0 finishes
        idx = _resume_index(ser)
        f0 = failure_stub(RuntimeError, "operation 0 failed") if a["first_fails"] else "result0"
        res, _ = fire_chain(I, ser, f0, start=idx)
        trace.append(("after-op0-finished", list(self._events), ser.state))
        idx = _resume_index(ser)
        res, _ = fire_chain(I, ser, "result1", start=idx)
        trace.append(("after-op1-finished", list(self._events), ser.state))
        out = Outcome("return", (r0, r1))
        out.post = {"trace": trace, "f0": f0, "ser": ser}
        return out

    def ensures(self, I, a, out):
        tr = {t[0]: t for t in out.post["trace"]}
        r0, r1 = out.value

        def starts(ev):
            return [e[1] for e in ev if e[0] == "start"]

        def delivered(ev):
            return [(e[1], e[2]) for e in ev if e[0] == "deliver"]
        f0 = out.post["f0"]
        g = [("nothing-starts-while-the-earlier-operation-is-running", z3.BoolVal(starts(tr["queued"][1]) == [])),
             ("each-caller-gets-its-own-deferred", z3.BoolVal(len(self._callers) == 2 and r0 is self._callers[0] and r1 is self._callers[1])),
             ("only-the-first-request-starts-when-the-earlier-operation-finishes", z3.BoolVal(starts(tr["after-previous-finished"][1]) == [0])),
             ("operations-get-their-own-arguments", z3.BoolVal([e[2] for e in tr["after-op1-finished"][1] if e[0] == "start"] == [("arg0",), ("arg1",)])),
             ("the-second-request-starts-only-after-the-first-finished-and-also-when-it-failed", z3.BoolVal(starts(tr["after-op0-finished"][1]) == [0, 1])),
             ("the-first-caller-receives-its-result-or-failure", z3.BoolVal(delivered(tr["after-op0-finished"][1])[:1] == [("CALLBACK-0", f0)])),
             ("the-second-caller-receives-its-own-result", z3.BoolVal(delivered(tr["after-op1-finished"][1]) == [("CALLBACK-0", f0), ("CALLBACK-1", "result1")])),
             ("the-serializer-ends-in-the-success-state-whatever-failed", z3.BoolVal(out.post["ser"].state == "succeeded"))]
        return g

    def canary(self, I, a, out):
        tr = {t[0]: t for t in out.post["trace"]}
        return [("canary", z3.BoolVal(len([e for e in tr["after-previous-finished"][1] if e[0] == "start"]) == 2))]
    canary_case = {"first_fails": True, "prev_failed": False}


def _resume_index(ser):
    """index of the first callback that has not run yet (fire_chain stopped on a pending inner Deferred)"""
    return getattr(ser, "_next", None) if getattr(ser, "_next", None) is not None else 0


class EntryPoints(Spec):
    file = FN
    qualname = "MutableFileNode.modify"
    cross_check = 0
    raises = ()
    canary = None

    def inputs(self):
        return {}

    def run(self, I, a):
        repo = os.environ.get("VERIF_REPO", "/repo")
        tree = ast.parse(open(os.path.join(repo, "src", FN)).read())
        res = {}
        for cls in tree.body:
            if isinstance(cls, ast.ClassDef) and cls.name in ENTRY:
                for m in cls.body:
                    if isinstance(m, ast.FunctionDef) and m.name in ENTRY[cls.name]:
                        rets = [n for n in ast.walk(m) if isinstance(n, ast.Return) and n.value is not None]
                        ok = bool(rets) and all(isinstance(r.value, ast.Call) and isinstance(r.value.func, ast.Attribute) and r.value.func.attr == "_do_serialized" for r in rets)
                        res[(cls.name, m.name)] = ok
        return res

    def ensures(self, I, a, out):
        g = []
        for cls, names in ENTRY.items():
            for n in names:
                g.append(("%s.%s-returns-only-through-the-serializer" % (cls, n), z3.BoolVal(out.value.get((cls, n)) is True)))
        return g


def contracts(tier):
    return [Serializer("MutableFileNode"), Serializer("MutableFileVersion"), EntryPoints()] + [c for c in C16.contracts(tier) if type(c).__name__ == "NodeCache"]
