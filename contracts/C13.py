"""C13 One client serializes operations on a mutable node -- contracts on mutable/filenode.py MutableFileNode._do_serialized
(and MutableFileVersion._do_serialized), the whole-file entry points that must use it, and nodemaker.py (shared with C16)"""
import ast
import os
import z3
from pyvc.harness import Spec, IntK, BoolK, ChoiceK, Outcome
from pyvc.values import *  # noqa
from contracts.lib import *  # noqa
from contracts import C16

LEVEL = "other"
MANIFEST_ENTRY = {
    "text": "Serializer contract (MutableFileNode._do_serialized and MutableFileVersion._do_serialized, run under the Deferred-chain model with the operations' own Deferreds left pending, i.e. for operations of any duration): two requests queued while an earlier operation is still running are started strictly in request order; the second is not started until the first one's Deferred has fired; when the first fails, its caller receives the failure and the second is still started, because the failure is absorbed and the serializer chain is left in the success state -- the invariant the contract assumes on entry (established by defer.succeed(None) in the constructors) and proves on exit; each caller receives exactly its own operation's result. The retry loop of modify() (MutableFileVersion._modify_and_retry) keeps the operation's Deferred unfired while a retry after an UncoordinatedWriteError is running, so the serializer cannot start the next request in the middle of a modify. Entry points: download_best_version, overwrite, upload, modify, get_servermap of MutableFileNode and overwrite, modify, update, read of MutableFileVersion all go through _do_serialized (checked on the AST every run). One node object per capability string within a client, so that these requests meet in one serializer: two create_from_cap lookups of the same string return the identical node for all 8 mutable capability kinds (SDMF and MDMF, file and directory, read-write and read-only), and never a node of another cap (NodeMaker node-cache contract of C16, re-run here).",
    "note": "Twisted's rule that a callback returning a Deferred pauses the chain until it fires is the trusted model (contracts.lib.fire_chain); foolscap eventually() is a recording stub. That directory edits built on modify() do not lose each other's changes additionally needs modify()'s read-modify-write to run inside one serialized operation, which is what the entry-point obligation states; only the first retry of _modify_and_retry is explored.",
    "technique": "contract-based deductive verification (pyvc VCs + z3) over a Deferred-chain model; entry points by AST check",
}
MANIFEST_ENTRY["text"] += " Bounded end-to-end stand-in (run-time contract, never counted as proved): contracts/grid_mutable.py issues 2..5 modify() calls and reads at once through two handles obtained from one client for the same cap on the real in-process grid and requires every update to take effect exactly once."
MANIFEST_ENTRY["technique"] += "; plus bounded end-to-end run-time scenario contracts on an in-process grid of the real components (stand-in, labelled bounded)"
EXPLANATION = "Queue discipline of the serializer Deferred."
TRUSTED = ["twisted Deferred chain semantics as implemented by contracts.lib.fire_chain", "foolscap eventually() only schedules"]
ASSUMPTIONS = []
NOT_DECIDED = "reactor-level fairness; deadlock freedom when an operation itself calls a serialized method (documented precondition of the code)."
FN = "allmydata/mutable/filenode.py"
ENTRY = {"MutableFileNode": ("download_best_version", "overwrite", "upload", "modify", "get_servermap"), "MutableFileVersion": ("overwrite", "modify", "update", "read")}


class Serializer(Spec):
    file = FN
    cross_check = 0
    raises = ()

    def __init__(self, cls):
        self.cls_name = cls
        self.qualname = cls + "._do_serialized"

    @property
    def name(self):
        return "Serializer_" + self.cls_name

    def inputs(self):
        return {"first_fails": ChoiceK([False, True]), "prev_failed": ChoiceK([False, True])}

    def all_cases(self):
        # invariant of the serializer: its tail is always in the success state (established by defer.succeed(None) in
        # __init__, re-established by every _do_serialized: last obligation), so the earlier operation "finishes" with a
        # non-failure as far as the chain is concerned
        return [{"first_fails": f, "prev_failed": False} for f in (False, True)]

    def config(self):
        me = self
        from pyvc.models_tahoe import DStub
        return {"overrides": {"eventual.eventually": lambda I, a, kw: me._events.append(("deliver", a[0], a[1])), "foolscap.eventual.eventually": lambda I, a, kw: me._events.append(("deliver", a[0], a[1])),
                              "log.err": lambda I, a, kw: me._events.append(("log.err",)),
                              "defer.Deferred": lambda I, a, kw: me._new_deferred(), "twisted.internet.defer.Deferred": lambda I, a, kw: me._new_deferred()}}

    def _new_deferred(self):
        d = stub("callers-deferred-%d" % len(self._callers), callback="CALLBACK-%d" % len(self._callers))
        self._callers.append(d)
        return d

    def run(self, I, a):
        from pyvc.models_tahoe import DStub
        from pyvc.interp import ModelFn
        self._events, self._callers = [], []
        ser = DStub("pending")          # an earlier operation is still running
        node = SObj(getattr(self.module(), self.cls_name), {"_serializer": ser})
        op_d = [DStub("pending"), DStub("pending")]

        def mk(i):
            def op(I_, a_, k_):
                self._events.append(("start", i, tuple(a_)))
                return op_d[i]
            return ModelFn("operation%d" % i, op)
        r0 = I.call_value(self.target(I), [node, mk(0), "arg0"], {})
        r1 = I.call_value(self.target(I), [node, mk(1), "arg1"], {})
        trace = []
        trace.append(("queued", list(self._events)))
        # the earlier operation finishes (successfully or not)
        prev = failure_stub(RuntimeError, "previous operation failed") if a["prev_failed"] else "previous-result"
        res, _ = fire_chain(I, ser, prev)
        trace.append(("after-previous-finished", list(self._events), ser.state))
        # operation 0 finishes
        idx = _resume_index(ser)
        f0 = failure_stub(RuntimeError, "operation 0 failed") if a["first_fails"] else "result0"
        res, _ = fire_chain(I, ser, f0, start=idx)
        trace.append(("after-op0-finished", list(self._events), ser.state))
        idx = _resume_index(ser)
        res, _ = fire_chain(I, ser, "result1", start=idx)
        trace.append(("after-op1-finished", list(self._events), ser.state))
        out = Outcome("return", (r0, r1))
        out.post = {"trace": trace, "f0": f0, "ser": ser}
        return out

    def ensures(self, I, a, out):
        tr = {t[0]: t for t in out.post["trace"]}
        r0, r1 = out.value

        def starts(ev):
            return [e[1] for e in ev if e[0] == "start"]

        def delivered(ev):
            return [(e[1], e[2]) for e in ev if e[0] == "deliver"]
        f0 = out.post["f0"]
        g = [("nothing-starts-while-the-earlier-operation-is-running", z3.BoolVal(starts(tr["queued"][1]) == [])),
             ("each-caller-gets-its-own-deferred", z3.BoolVal(len(self._callers) == 2 and r0 is self._callers[0] and r1 is self._callers[1])),
             ("only-the-first-request-starts-when-the-earlier-operation-finishes", z3.BoolVal(starts(tr["after-previous-finished"][1]) == [0])),
             ("operations-get-their-own-arguments", z3.BoolVal([e[2] for e in tr["after-op1-finished"][1] if e[0] == "start"] == [("arg0",), ("arg1",)])),
             ("the-second-request-starts-only-after-the-first-finished-and-also-when-it-failed", z3.BoolVal(starts(tr["after-op0-finished"][1]) == [0, 1])),
             ("the-first-caller-receives-its-result-or-failure", z3.BoolVal(delivered(tr["after-op0-finished"][1])[:1] == [("CALLBACK-0", f0)])),
             ("the-second-caller-receives-its-own-result", z3.BoolVal(delivered(tr["after-op1-finished"][1]) == [("CALLBACK-0", f0), ("CALLBACK-1", "result1")])),
             ("the-serializer-ends-in-the-success-state-whatever-failed", z3.BoolVal(out.post["ser"].state == "succeeded"))]
        return g

    def canary(self, I, a, out):
        tr = {t[0]: t for t in out.post["trace"]}
        return [("canary", z3.BoolVal(len([e for e in tr["after-previous-finished"][1] if e[0] == "start"]) == 2))]
    canary_case = {"first_fails": True, "prev_failed": False}


def _resume_index(ser):
    """index of the first callback that has not run yet (fire_chain stopped on a pending inner Deferred)"""
    return getattr(ser, "_next", None) if getattr(ser, "_next", None) is not None else 0


class EntryPoints(Spec):
    file = FN
    qualname = "MutableFileNode.modify"
    cross_check = 0
    raises = ()
    canary = None

    def inputs(self):
        return {}

    def run(self, I, a):
        repo = os.environ.get("VERIF_REPO", "/repo")
        tree = ast.parse(open(os.path.join(repo, "src", FN)).read())
        res = {}
        for cls in tree.body:
            if isinstance(cls, ast.ClassDef) and cls.name in ENTRY:
                for m in cls.body:
                    if isinstance(m, ast.FunctionDef) and m.name in ENTRY[cls.name]:
                        rets = [n for n in ast.walk(m) if isinstance(n, ast.Return) and n.value is not None]
                        ok = bool(rets) and all(isinstance(r.value, ast.Call) and isinstance(r.value.func, ast.Attribute) and r.value.func.attr == "_do_serialized" for r in rets)
                        res[(cls.name, m.name)] = ok
        return res

    def ensures(self, I, a, out):
        g = []
        for cls, names in ENTRY.items():
            for n in names:
                g.append(("%s.%s-returns-only-through-the-serializer" % (cls, n), z3.BoolVal(out.value.get((cls, n)) is True)))
        return g


class ModifyRetry(Spec):
    """MutableFileVersion._modify_and_retry: while a retry after an uncoordinated-write error is still running, the
    operation's Deferred has not fired -- so the serializer does not start the next request"""
    file = FN
    qualname = "MutableFileVersion._modify_and_retry"
    cross_check = 0
    raises = ()

    def inputs(self):
        return {}

    def config(self):
        me = self
        from pyvc.models_tahoe import DStub

        def maybe(I, a, kw):
            r = I.call_value(a[0], list(a[1:]), kw)
            return r if isinstance(r, DStub) else DStub("succeeded", r)
        return {"overrides": {"log.msg": lambda I, a, kw: 1, "defer.maybeDeferred": maybe, "twisted.internet.defer.maybeDeferred": maybe,
                              "eventual.eventually": lambda I, a, kw: me._events.append(("eventually", a[0])), "foolscap.eventual.eventually": lambda I, a, kw: me._events.append(("eventually", a[0]))}}

    def run(self, I, a):
        from pyvc.models_tahoe import DStub
        from pyvc.interp import ModelFn
        from allmydata.mutable.common import UncoordinatedWriteError
        self._events = []
        maps, onces = [], []

        def update_servermap(I_, a_, k_):
            d = DStub("pending")
            maps.append((d, k_.get("mode")))
            return d

        def modify_once(I_, a_, k_):
            onces.append(a_[1])
            if len(onces) == 1:
                return DStub("failed", failure_stub(UncoordinatedWriteError))
            return DStub("succeeded", "upload-results")
        v = SObj(self.module().MutableFileVersion, {})
        v.fields["_update_servermap"] = stub("x", f=update_servermap).fields["f"]
        v.fields["_modify_once"] = stub("x", f=modify_once).fields["f"]
        backoffer = ModelFn("backoffer", lambda I_, a_, k_: DStub("succeeded", None))
        d = I.call_value(self.target(I), [v, "modifier", backoffer, True], {})
        fire_chain(I, maps[0][0], None)                 # first servermap update done -> first attempt fails -> retry starts
        state_during_retry = d.state
        n_maps_during = len(maps)
        if len(maps) == 2:
            res, _ = fire_chain(I, maps[1][0], None)    # the retry's servermap update done -> second attempt succeeds
            mid = getattr(d, "_waiting_on", None)       # the back-off Deferred that was waiting for the retry
            if mid is not None and mid.state == "waiting":
                res, _ = fire_chain(I, mid, res, start=mid._next)
            if d.state == "waiting":
                fire_chain(I, d, res, start=d._next)
        out = Outcome("return", d)
        out.post = {"during": state_during_retry, "maps": maps, "onces": onces, "n_maps_during": n_maps_during}
        return out

    def ensures(self, I, a, out):
        from allmydata.mutable.common import MODE_CHECK
        p = out.post
        return [("the-retry-is-started", z3.BoolVal(p["n_maps_during"] == 2 and p["maps"][1][1] == MODE_CHECK)),
                ("the-operation-is-not-finished-while-its-retry-is-running", z3.BoolVal(p["during"] in ("waiting", "pending"))),
                ("it-finishes-with-the-retrys-result", z3.BoolVal(out.value.state == "succeeded" and out.value.value == "upload-results" and p["onces"] == [True, False]))]

    def canary(self, I, a, out):
        return [("canary", z3.BoolVal(out.post["during"] == "succeeded"))]


MUTABLE_CAPS = ("WriteableSSKFileURI", "ReadonlySSKFileURI", "WriteableMDMFFileURI", "ReadonlyMDMFFileURI",
                "DirectoryURI", "ReadonlyDirectoryURI", "MDMFDirectoryURI", "ReadonlyMDMFDirectoryURI")


def cap_string(kind):
    from allmydata import uri
    w, fp = b"w" * 16, b"f" * 32
    base = {"WriteableSSKFileURI": uri.WriteableSSKFileURI(w, fp), "WriteableMDMFFileURI": uri.WriteableMDMFFileURI(w, fp)}
    base["ReadonlySSKFileURI"] = base["WriteableSSKFileURI"].get_readonly()
    base["ReadonlyMDMFFileURI"] = base["WriteableMDMFFileURI"].get_readonly()
    base["DirectoryURI"] = uri.DirectoryURI(base["WriteableSSKFileURI"])
    base["ReadonlyDirectoryURI"] = uri.ReadonlyDirectoryURI(base["ReadonlySSKFileURI"])
    base["MDMFDirectoryURI"] = uri.MDMFDirectoryURI(base["WriteableMDMFFileURI"])
    base["ReadonlyMDMFDirectoryURI"] = uri.ReadonlyMDMFDirectoryURI(base["ReadonlyMDMFFileURI"])
    return base[kind].to_string()


class SameCapSameNode(Spec):
    """two lookups of the same mutable capability string give the SAME node object (hence one serializer)"""
    file = "allmydata/nodemaker.py"
    qualname = "NodeMaker.create_from_cap"
    level = "B"
    bound = "the 8 mutable capability kinds (SDMF/MDMF file and directory, read-write and read-only), given as write cap or as read cap, MDMF caps also with the legacy hint suffix"
    cross_check = 0
    raises = ()
    canary_case = {"kind": "WriteableMDMFFileURI", "slot": "w", "spelling": "legacy-hints"}

    def inputs(self):
        return {"kind": ChoiceK(list(MUTABLE_CAPS)), "slot": ChoiceK(["w", "r"]), "spelling": ChoiceK(["canonical", "legacy-hints"])}

    def all_cases(self):
        # MDMF caps may carry the legacy ":k:segsize" hint suffix: such a string parses but is not what to_string() prints
        return [{"kind": k, "slot": s, "spelling": sp} for k in MUTABLE_CAPS for s in ("w", "r") for sp in (("canonical", "legacy-hints") if "MDMF" in k else ("canonical",))]

    def config(self):
        me = self

        def mk_mutable(I, a, kw):
            n = stub("mutable-file-node-%d" % len(me._built), is_mutable=lambda I_, a_, k_: True, get_storage_index=lambda I_, a_, k_: b"si")
            me._built.append(n)
            return n

        def mk_dir(I, a, kw):
            n = stub("dirnode-%d" % len(me._built), is_mutable=lambda I_, a_, k_: True, get_storage_index=lambda I_, a_, k_: b"si", filenode=a[1])
            me._built.append(n)
            return n
        return {"overrides": {"NodeMaker._create_mutable": mk_mutable, "NodeMaker._create_dirnode": mk_dir}}

    def run(self, I, a):
        self._built = []
        cap = cap_string(a["kind"])
        if a["spelling"] == "legacy-hints":
            cap = cap + b":3:131073"
        nm = SObj(self.module().NodeMaker, {"_node_cache": {}, "blacklist": None})
        args = [cap, None] if a["slot"] == "w" else [None, cap]
        n1 = I.call_value(self.target(I), [nm] + args, {})
        n2 = I.call_value(self.target(I), [nm] + args, {})
        return (n1, n2)

    def ensures(self, I, a, out):
        n1, n2 = out.value
        return [("the-same-capability-string-gives-the-same-node-object", z3.BoolVal(n1 is n2 and n1 is not None)),
                ("a-mutable-node-is-built-once", z3.BoolVal(len([b for b in self._built if b is n1]) == 1))]

    def canary(self, I, a, out):
        return [("canary", z3.BoolVal(out.value[0] is not out.value[1]))]


def extra_checks(rep, tier):
    from contracts import grid_mutable
    grid_mutable.grid_check(rep, tier, "C13")


def contracts(tier):
    return [Serializer("MutableFileNode"), Serializer("MutableFileVersion"), EntryPoints(), SameCapSameNode(), ModifyRetry()] + [c for c in C16.contracts(tier) if type(c).__name__ == "NodeCache"]
