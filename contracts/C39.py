"""C39 SFTP writes are never lost to the background download -- contracts on frontends/sftpd.py OverwriteableFileConsumer
(write, overwrite, set_current_size, _update_downloaded)"""
import z3
from pyvc.harness import Spec, IntK, BoolK, BytesArrK, ChoiceK, Outcome
from pyvc.values import *  # noqa
from pyvc.models_ext2 import FileObj, PathTok
from contracts.lib import *  # noqa

LEVEL = "other"
MANIFEST_ENTRY = {
    "text": "Data-structure invariant with ghost state. O is the original file, V the contents the client should see (O with its writes and size changes applied in order). RI: download_size <= current_size; every recorded overwrite interval has start <= end and end >= downloaded; every position p < current_size is either COVERED (p < downloaded, or inside a recorded interval) and then the temporary file holds V[p], or uncovered and then p < download_size and V[p] == O[p] (the download will still supply it). Each public operation is proved to preserve RI from EVERY state satisfying it with 0, 1 or 2 recorded intervals (all integers, file contents and data symbolic): write(chunk) with chunk == O[downloaded:...] (V unchanged: client bytes take precedence over downloaded bytes arriving later), overwrite(offset, data) (V := data at offset, zero-filled gap, size grows), set_current_size(size) (truncation and zero extension). Hence, by induction over any interleaving of download chunks and client operations, once downloaded >= download_size the file equals V on [0, current_size) -- the contents finally uploaded. Reads: _update_downloaded fires the milestone for offset m only when every position below m is covered, so a read that waited for it returns V.",
    "note": "Bounded: at most 2 recorded intervals in the start state (operations may add a third). The heap is modelled as a sorted list. GeneralSFTPFile's request queue, close/upload and the read() Deferred plumbing are outside these contracts.",
    "technique": "contract-based deductive verification (pyvc VCs + z3, quantified representation invariant over a file model and ghost arrays); interval count bounded",
}
EXPLANATION = "RI preserved by write/overwrite/set_current_size; milestone soundness."
TRUSTED = ["temporary file behaves like a POSIX file (seek/write/truncate)", "heapq keeps the minimum at index 0"]
ASSUMPTIONS = ["download chunks arrive in order: the chunk passed to write() is O[downloaded : downloaded+len]"]
NOT_DECIDED = "GeneralSFTPFile request serialisation; failure of the download."
F = "allmydata/frontends/sftpd.py"
O = z3.Array("O", z3.IntSort(), z3.IntSort())
V = z3.Array("V", z3.IntSort(), z3.IntSort())
NOISY = {"PrefixingLogMixin.log": noop, "OverwriteableFileConsumer.log": noop}


def covered(p, d, ivs):
    return z3.Or([p < d] + [z3.And(s <= p, p < e) for (s, e) in ivs])


def RI(d, ds, cs, Fc, flen, ivs, Vx):
    p = z3.Int("p!ri")
    # the temporary file never extends past the current size: close() uploads the WHOLE temporary file
    basic = [d >= 0, ds >= 0, ds <= cs, flen <= cs] + [z3.And(s <= e, e >= d, s >= 0) for (s, e) in ivs]
    content = z3.ForAll([p], z3.Implies(z3.And(p >= 0, p < cs),
                                        z3.If(covered(p, d, ivs), z3.And(p < flen, z3.Select(Fc, p) == z3.Select(Vx, p)),
                                              z3.And(p < ds, z3.Select(Vx, p) == z3.Select(O, p)))))
    return basic, content


class _Op(Spec):
    file = F
    cross_check = 0
    level = "B"
    bound = "0, 1 or 2 recorded overwrite intervals in the start state (all bounds, sizes, file bytes and data symbolic)"
    raises = ()

    def inputs(self):
        d = {"n": ChoiceK([0, 1, 2]), "d": IntK(0), "ds": IntK(0), "cs": IntK(0), "file": FileK(None)}
        for i in range(2):
            d["s%d" % i] = IntK(0)
            d["e%d" % i] = IntK(0)
        d.update(self.extra_inputs())
        return d

    def all_cases(self):
        return [{"n": n} for n in (0, 1, 2)]

    def ivs(self, a):
        return [(Z(a["s%d" % i]), Z(a["e%d" % i])) for i in range(a["n"])]

    def requires(self, I, a):
        Fc, flen = as_arr(a["file"])
        basic, content = RI(Z(a["d"]), Z(a["ds"]), Z(a["cs"]), Fc, flen, self.ivs(a), V)
        order = []
        iv = self.ivs(a)
        if len(iv) == 2:        # heap order: the minimum (lexicographic) is first
            order.append(z3.Or(iv[0][0] < iv[1][0], z3.And(iv[0][0] == iv[1][0], iv[0][1] <= iv[1][1])))
        return z3.And(basic + [content] + order + [self.extra_requires(a)])

    def extra_inputs(self):
        return {}

    def extra_requires(self, a):
        return z3.BoolVal(True)

    def config(self):
        me = self
        o = dict(NOISY)
        o["OverwriteableFileConsumer.download_done"] = lambda I, a, kw: me._done.append(a[1])
        o["sftpd.eventually_callback"] = lambda I, a, kw: (lambda *x: None)
        return {"overrides": o}

    def mk(self, I, a):
        self._done = []
        put_file(I, "tmp", a["file"])
        f = FileObj("tmp", "rb+")
        ow = [(a["s%d" % i], a["e%d" % i]) for i in range(a["n"])]
        c = SObj(self.module().OverwriteableFileConsumer, {"download_size": a["ds"], "current_size": a["cs"], "f": f, "downloaded": a["d"], "milestones": [],
                                                           "overwrites": ow, "is_closed": False, "done_status": None})
        return c

    def post_state(self, I, c):
        Fc, flen = as_arr(file_post(I, "tmp"))
        ivs = [(Z(s), Z(e)) for (s, e) in c.fields["overwrites"]]
        return Z(c.fields["downloaded"]), Z(c.fields["download_size"]), Z(c.fields["current_size"]), Fc, flen, ivs

    def ri_goals(self, I, c, Vnew, tag=""):
        d, ds, cs, Fc, flen, ivs = self.post_state(I, c)
        basic, content = RI(d, ds, cs, Fc, flen, ivs, Vnew)
        return [("invariant-sizes-and-intervals-well-formed", z3.And(basic)),
                ("invariant-covered-bytes-hold-the-clients-view-and-uncovered-bytes-are-still-original", content)]

    def canary(self, I, a, out):
        c = out.value
        d, ds, cs, Fc, flen, ivs = self.post_state(I, c)
        return [("canary", d == Z(a["d"]))]


class DownloadWrite(_Op):
    qualname = "OverwriteableFileConsumer.write"
    canary_case = {"n": 1}

    def extra_inputs(self):
        return {"data": BytesArrK()}

    def extra_requires(self, a):
        b = as_sbytes(a["data"])
        d = Z(a["d"])
        return z3.And(Z(b.length) >= 1, forall_range(0, Z(b.length), lambda i: b.at(i) == z3.Select(O, d + i)))

    def run(self, I, a):
        c = self.mk(I, a)
        I.call_value(self.target(I), [c, a["data"]], {})
        return c

    def ensures(self, I, a, out):
        c = out.value
        g = self.ri_goals(I, c, V)
        d, ds, cs, Fc, flen, ivs = self.post_state(I, c)
        g.append(("download-position-never-moves-back", d >= Z(a["d"])))
        g.append(("sizes-are-not-changed-by-the-download", z3.And(cs == Z(a["cs"]), ds == Z(a["ds"]))))
        return g


class ClientOverwrite(_Op):
    qualname = "OverwriteableFileConsumer.overwrite"
    canary_case = {"n": 1}

    def extra_inputs(self):
        return {"offset": IntK(0), "data": BytesArrK()}

    def run(self, I, a):
        c = self.mk(I, a)
        I.call_value(self.target(I), [c, a["offset"], a["data"]], {})
        return c

    def vnew(self, a):
        b = as_sbytes(a["data"])
        off, n, cs = Z(a["offset"]), Z(b.length), Z(a["cs"])
        q = z3.Int("q!v")
        return z3.Lambda([q], z3.If(z3.And(q >= off, q < off + n), b.at(q - off), z3.If(z3.And(q >= cs, q < off), z3.IntVal(0), z3.Select(V, q))))

    def ensures(self, I, a, out):
        c = out.value
        b = as_sbytes(a["data"])
        g = self.ri_goals(I, c, self.vnew(a))
        d, ds, cs, Fc, flen, ivs = self.post_state(I, c)
        end = Z(a["offset"]) + Z(b.length)
        g.append(("size-grows-to-cover-the-write", cs == z3.If(end > Z(a["cs"]), end, Z(a["cs"]))))
        g.append(("download-bookkeeping-untouched", z3.And(d == Z(a["d"]), ds == Z(a["ds"]))))
        return g

    def canary(self, I, a, out):
        d, ds, cs, Fc, flen, ivs = self.post_state(I, out.value)
        return [("canary", cs == Z(a["cs"]))]


class SetCurrentSize(_Op):
    qualname = "OverwriteableFileConsumer.set_current_size"
    canary_case = {"n": 1}

    def extra_inputs(self):
        return {"size": IntK(0)}

    def run(self, I, a):
        c = self.mk(I, a)
        I.call_value(self.target(I), [c, a["size"]], {})
        return c

    def ensures(self, I, a, out):
        c = out.value
        size, cs0 = Z(a["size"]), Z(a["cs"])
        q = z3.Int("q!v")
        vnew = z3.Lambda([q], z3.If(z3.And(q >= cs0, q < size), z3.IntVal(0), z3.Select(V, q)))
        g = self.ri_goals(I, c, vnew)
        d, ds, cs, Fc, flen, ivs = self.post_state(I, c)
        g.append(("size-is-the-requested-size", cs == size))
        g.append(("download-size-never-exceeds-the-file", ds == z3.If(size < Z(a["ds"]), size, Z(a["ds"]))))
        return g

    def canary(self, I, a, out):
        d, ds, cs, Fc, flen, ivs = self.post_state(I, out.value)
        return [("canary", ds == Z(a["ds"]))]


class Milestone(Spec):
    """_update_downloaded fires the milestone for offset m only if every position below m is covered"""
    file = F
    qualname = "OverwriteableFileConsumer._update_downloaded"
    level = "B"
    bound = "0..2 recorded intervals (heap order), one or two reads waiting for the same milestone"
    cross_check = 0
    raises = ()
    canary_case = {"n": 1, "waiters": 2}

    def inputs(self):
        return {"n": ChoiceK([0, 1, 2]), "waiters": ChoiceK([1, 2]), "nd": IntK(0), "m": IntK(1), "ds": IntK(0), "s0": IntK(0), "e0": IntK(0), "s1": IntK(0), "e1": IntK(0)}

    def all_cases(self):
        return [{"n": n, "waiters": w} for n in (0, 1, 2) for w in (1, 2)]

    def requires(self, I, a):
        iv = [(Z(a["s%d" % i]), Z(a["e%d" % i])) for i in range(a["n"])]
        cs = [z3.And(s <= e) for (s, e) in iv] + [Z(a["m"]) >= 1]
        if len(iv) == 2:
            cs.append(z3.Or(iv[0][0] < iv[1][0], z3.And(iv[0][0] == iv[1][0], iv[0][1] <= iv[1][1])))
        return z3.And(cs) if cs else z3.BoolVal(True)

    def config(self):
        me = self
        o = dict(NOISY)
        o["OverwriteableFileConsumer.download_done"] = lambda I, a, kw: me._done.append(a[1])
        from pyvc.models_tahoe import DStub
        o["defer.Deferred"] = lambda I, a, kw: DStub("pending")
        o["twisted.internet.defer.Deferred"] = o["defer.Deferred"]
        o["sftpd.eventually_callback"] = lambda I, a, kw: __import__("pyvc.interp", fromlist=["ModelFn"]).ModelFn("cb", lambda I_, a_, k_: me._fired.append(a[0]))
        return {"overrides": o}

    def run(self, I, a):
        self._done, self._fired = [], []
        ow = [(a["s%d" % i], a["e%d" % i]) for i in range(a["n"])]
        c = SObj(self.module().OverwriteableFileConsumer, {"download_size": a["ds"], "downloaded": 0, "milestones": [], "_milestone_serial": 0, "overwrites": ow, "done_status": None})
        # the waiters register through the real method (several reads may wait for the same offset, e.g. two reads clipped at EOF)
        self._waiters = [I.call_value(I.get_attr(c, "when_reached_or_failed"), [a["m"]], {}) for _ in range(a["waiters"])]
        I.call_value(self.target(I), [c, a["nd"]], {})
        return c

    def ensures(self, I, a, out):
        iv = [(Z(a["s%d" % i]), Z(a["e%d" % i])) for i in range(a["n"])]
        nd, m, ds = Z(a["nd"]), Z(a["m"]), Z(a["ds"])
        p = z3.Int("p!m")
        all_cov = z3.ForAll([p], z3.Implies(z3.And(p >= 0, p < m), covered(p, nd, iv)))
        g = [("downloaded-is-recorded", Z(out.value.fields["downloaded"]) == nd)]
        g.append(("every-waiter-of-one-offset-is-woken-together-or-none-is", z3.BoolVal(len(self._fired) in (0, a["waiters"]) and all(any(f is w for w in self._waiters) for f in self._fired))))
        if self._fired:
            g.append(("a-milestone-fires-only-when-everything-below-it-is-downloaded-or-overwritten", all_cov))
        else:
            g.append(("a-milestone-reached-by-the-download-itself-fires", m > nd))
        if self._done:
            q = z3.Int("q!m")
            g.append(("download-is-declared-done-only-when-the-whole-download-range-is-covered", z3.ForAll([q], z3.Implies(z3.And(q >= 0, q < ds), covered(q, nd, iv)))))
        return g

    def canary(self, I, a, out):
        return [("canary", z3.BoolVal(not self._fired))]


def scenario_failures(rng, n):
    """native end-to-end runs: random interleavings of download chunks, overwrites and size changes against a byte-string oracle"""
    import tempfile
    from allmydata.frontends.sftpd import OverwriteableFileConsumer
    bad = []
    scripted = [[("dl", 44), ("ow", 44, b"AAAA"), ("ow", 45, b"BB"), ("dl", 5), ("dl", 99)]]       # D21: nested overwrites
    for k in range(n):
        if k < len(scripted):
            size, ops = 50, scripted[k]
        else:
            size = rng.randint(0, 40)
            ops = []
            for _ in range(rng.randint(1, 8)):
                r = rng.random()
                if r < 0.45:
                    ops.append(("dl", rng.randint(1, 12)))
                elif r < 0.85:
                    ops.append(("ow", rng.randint(0, 45), bytes(rng.choice(b"XYZ") for _ in range(rng.randint(0, 8)))))
                else:
                    ops.append(("size", rng.randint(0, 50)))
            ops.append(("dl", 100))
        orig = bytes((7 * i + 3) % 251 for i in range(size))
        c = OverwriteableFileConsumer(size, tempfile.TemporaryFile)
        want = bytearray(orig)
        pos = 0
        try:
            for op in ops:
                if op[0] == "dl":
                    chunk = orig[pos:pos + op[1]]
                    pos += len(chunk)
                    if chunk:
                        c.write(chunk)
                elif op[0] == "ow":
                    off, data = op[1], op[2]
                    if off > len(want):
                        want.extend(b"\0" * (off - len(want)))
                    want[off:off + len(data)] = data
                    c.overwrite(off, data)
                else:
                    sz = op[1]
                    if sz < len(want):
                        del want[sz:]
                    else:
                        want.extend(b"\0" * (sz - len(want)))
                    c.set_current_size(sz)
            f = c.get_file()
            f.seek(0)
            got = f.read()[:c.get_current_size()]
            ok = got == bytes(want) and c.get_current_size() == len(want)
        except Exception as e:      # noqa
            ok, got = False, repr(e).encode()
        finally:
            try:
                c.get_file().close()
            except Exception:       # noqa
                pass
        if not ok:
            bad.append({"original_size": size, "operations": [list(o[:2]) + ([o[2].hex()] if len(o) > 2 else []) for o in ops], "got": got.hex(), "want": bytes(want).hex()})
    return bad


def extra_checks(rep, tier):
    import random
    n = 400 if tier == "quick" else 20000
    bad = scenario_failures(random.Random(rep.seed * 13 + 1), n)
    name = "Scenario:final-contents-equal-the-original-with-the-clients-writes-and-size-changes-applied-in-order"
    rep.obligations += 1
    rep.bounded_obligations += 1
    rep.paths += n
    rep.sym_paths += n
    rep.bounds.append("%d native interleavings (1 scripted regression for nested overwrites + seeded random: files up to 40 bytes, up to 8 operations)" % n)
    if not bad:
        rep.discharged += 1
        rep.discharged_names.add(name)
        return
    rep.violations.append({"property": "C39", "contract": "Scenario", "obligation": name, "status": "runtime", "inputs": bad[0],
                           "native_outcome": "%d of %d interleavings fail; first: %r" % (len(bad), n, bad[0]), "confirmed_on_real_code": True})


def contracts(tier):
    return [DownloadWrite(), ClientOverwrite(), SetCurrentSize(), Milestone()]
