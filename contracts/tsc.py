"""hashutil.timing_safe_compare under contract (used by C24, C25, C30).

Earlier rounds *assumed* `timing_safe_compare(a, b) <=> a == b` (pyvc/models_tahoe.m_timing_safe_compare, still the callee
contract at every call site).  This Spec discharges that callee contract on the real body

    n = os.urandom(32); return bool(tagged_hash(n, a) == tagged_hash(n, b))

for all byte strings a, b and every nonce: the result is True when a == b (no hypothesis needed), and it is True ONLY when
a == b under collision resistance of SHA-256 instantiated at the hash applications of this one obligation (the explicit
cryptographic hypothesis of DESIGN 2.6, quantifier-free).  What remains trusted is therefore SHA-256 as an uninterpreted
collision-resistant function and `os.urandom(32)` returning some 32-byte string; the equivalence itself is no longer assumed.
"""
import z3
from pyvc.harness import Spec, StrK
from pyvc.values import *  # noqa
from pyvc.models_tahoe import hash_fn
from contracts.lib import *  # noqa

SHA = hash_fn("sha256")
_N = [0]


def _urandom(I, a, kw):
    n = a[0]
    _N[0] += 1
    t = z3.String("urandom_%d" % _N[0])
    I.path.assume(z3.Length(t) == to_z3_int(n), "os.urandom(n) returns n bytes")
    return SStr(t, True, n if isinstance(n, int) else None)


def _b(v):
    return z3.BoolVal(v) if isinstance(v, bool) else v


class TimingSafeCompare(Spec):
    file = "allmydata/util/hashutil.py"
    qualname = "timing_safe_compare"
    cross_check = 40

    def inputs(self):
        return {"a": StrK(True, rndmax=6, alphabet=["a", "b"]), "b": StrK(True, rndmax=6, alphabet=["a", "b"])}

    def config(self):
        return {"overrides": {"posix.urandom": _urandom, "os.urandom": _urandom}, "concrete_overrides": {}}

    def native(self, a):
        import allmydata.util.hashutil as hu
        return native_outcome(lambda: hu.timing_safe_compare(a["a"], a["b"]))

    def ensures(self, I, a, out):
        if I is None:
            return [("equal-inputs-compare-equal", z3.BoolVal((not (a["a"] == a["b"])) or out.value is True)),
                    ("compares-equal-only-for-equal-inputs", z3.BoolVal((out.value is not True) or a["a"] == a["b"])),
                    ("result-is-a-bool", z3.BoolVal(isinstance(out.value, bool)))]
        r = _b(out.value)
        ta, tb = as_sstr(a["a"]).term, as_sstr(a["b"]).term
        return [("equal-inputs-compare-equal", z3.Implies(ta == tb, r)),
                ("compares-equal-only-for-equal-inputs", z3.Implies(r, ta == tb))]

    def hypotheses(self, I, a, ob):
        apps = applications_of(SHA, list(ob.hyps) + [ob.goal])
        facts = [z3.Length(x) == 32 for x in apps]                           # SHA-256 digests are 32 bytes (instances)
        if ob.name.endswith("compares-equal-only-for-equal-inputs"):
            facts += injectivity_instances(SHA, list(ob.hyps) + [ob.goal])   # collision resistance, instantiated (both SHA layers)
        return facts

    def canary(self, I, a, out):
        r = _b(out.value)
        return [("canary", r)]

    def same_result(self, n, s):
        return True
