"""C10 Mutable reads return only published versions -- contracts on mutable/retrieve.py Retrieve._validate_block and
mutable/servermap.py ServermapUpdater (_got_signature_one_share, _try_to_set_pubkey, _try_to_validate_privkey)"""
import z3
from pyvc.harness import Spec, IntK, BoolK, BlobK, ChoiceK, Outcome
from pyvc.values import *  # noqa
from contracts.lib import *  # noqa
from contracts import C35

LEVEL = "other"
MANIFEST_ENTRY = {
    "text": "Check-before-use contracts at the four gates of a mutable read, hashes and RSA uninterpreted, Merkle trees by their own contract (C35, re-run here). (1) Public key: _try_to_set_pubkey installs a key only if ssk_pubkey_fingerprint_hash(key) equals the fingerprint in the capability, otherwise CorruptShareError. (2) Signature: _got_signature_one_share records a share's version in the servermap only if rsa.verify_signature(node pubkey, signature, signed prefix) succeeded for it, or the IDENTICAL version tuple (sequence number, root hash, salt, segment size, data length, k, N, prefix, offsets) was verified earlier in this update -- a version that merely shares sequence number and root hash is verified again; BadSignature becomes CorruptShareError and nothing is recorded. (3) Blocks: Retrieve._validate_block returns {shnum: (block, salt)} only after block_hash_tree.set_hashes(leaves={segnum: block_hash(salt+block or block)}) AND share_hash_tree.set_hashes(hashes, leaves={shnum: block tree root}) both returned normally -- whether or not further block hashes were needed -- and every refusal becomes CorruptShareError. A share whose hash chain cannot even be parsed is reported as a bad share (BadShareError), which the retrieve loop tolerates by using another share, not as a raw struct.error that aborts the read (MDMFSlotReadProxy.get_sharehashes). (4) Private key: _try_to_validate_privkey installs a key only if ssk_writekey_hash(decrypted key) equals the write key of the capability.",
    "note": "That the signed root hash is the root the share hash tree was seeded with (Retrieve._setup_download) and the order in which the gates are chained by Deferreds are not under contract. RSA and SHA-256d are assumed secure; what is proved is that no share data, version or key is used before its check passed.",
    "technique": "contract-based deductive verification (pyvc VCs + z3) with callee contracts for hash trees and uninterpreted crypto",
}
MANIFEST_ENTRY["text"] += ' Bounded end-to-end stand-in (run-time contract, never counted as proved): contracts/grid_mutable.py publishes 1..4 versions (plus a competing one) of SDMF/MDMF files on real StorageServers, composes the final disk state slot by slot from snapshots (newest/older/competing/deleted/bit-flipped/truncated/foreign), and checks reads, the MODE_READ survey, check/verify, repair with and without force, overwrite with failing servers and two concurrent writers against the ground truth on disk.'
MANIFEST_ENTRY["technique"] += "; plus bounded end-to-end run-time scenario contracts on an in-process grid of the real components (stand-in, labelled bounded)"
EXPLANATION = "Nothing from a storage server is believed before the corresponding check returned normally."
TRUSTED = ["RSA signature verification (cryptography library)", "SHA-256d collision resistance", "IncompleteHashTree per C35"]
ASSUMPTIONS = []
NOT_DECIDED = "Deferred wiring of the gates; _setup_download seeding; 'k intact shares suffice' (availability, see C03-like reasoning)."
RT = "allmydata/mutable/retrieve.py"
SM = "allmydata/mutable/servermap.py"
HB = z3.Function("block_hash_m", z3.StringSort(), SHash.SORT)
LOG = {"Retrieve.log": lambda I, a, kw: 1, "ServermapUpdater.log": lambda I, a, kw: 1, "time.time": lambda I, a, kw: 0, "log.msg": lambda I, a, kw: 1}


class ValidateBlock(Spec):
    file = RT
    qualname = "Retrieve._validate_block"
    cross_check = 0
    canary_case = {"mdmf": True, "needed": False}

    @property
    def raises(self):
        from allmydata.mutable.common import CorruptShareError
        return (CorruptShareError,)

    def inputs(self):
        return {"mdmf": ChoiceK([False, True]), "needed": ChoiceK([False, True]), "block": BlobK(), "salt": BlobK(), "segnum": IntK(0)}

    def all_cases(self):
        return [{"mdmf": m, "needed": n} for m in (False, True) for n in (False, True)]

    def config(self):
        me = self
        import allmydata.hashtree as HT

        def set_hashes(I, a, kw):
            t = a[0]
            entry = ["bht" if t is me._bht else "sht", a[1] if len(a) > 1 else kw.get("hashes"), kw.get("leaves", a[2] if len(a) > 2 else None), "pending"]
            me._log.append(entry)
            c = I.path.choose(4)
            if c:
                cls = (HT.BadHashError, HT.NotEnoughHashesError, IndexError)[c - 1]
                entry[3] = cls.__name__
                raise PyRaise(cls("refused"), cls)
            entry[3] = "ok"
        o = dict(LOG)
        o.update({"IncompleteHashTree.set_hashes": set_hashes, "IncompleteHashTree.needed_hashes": lambda I, a, kw: ([1] if me._a["needed"] else []),
                  "hashutil.block_hash": lambda I, a, kw: SHash(HB(as_sstr(a[0]).term)),
                  "cputhreadpool.defer_to_thread": lambda I, a, kw: I.call_value(a[0], list(a[1:]), kw), "retrieve.defer_to_thread": lambda I, a, kw: I.call_value(a[0], list(a[1:]), kw),
                  "Retrieve._set_current_status": noop})
        return {"overrides": o, "on_yield": lambda I, val, n, env: val}

    def run(self, I, a):
        import allmydata.hashtree as HT
        M = self.module()
        self._a, self._log = a, []
        self._root = SHash(z3.Const("block_tree_root", SHash.SORT))
        self._bht = SObj(HT.IncompleteHashTree, {"__list__": [self._root] + [None] * 6})
        self._sht = SObj(HT.IncompleteHashTree, {"__list__": [None] * 7})
        st = stub("status", add_fetch_timing=noop)
        reader = stub("reader", shnum=4)
        r = SObj(M.Retrieve, {"_block_hash_trees": {4: self._bht}, "share_hash_tree": self._sht, "_version": (M.MDMF_VERSION if a["mdmf"] else M.SDMF_VERSION), "_status": st})
        self._sharehashes = {1: b"s" * 32}
        try:
            return Outcome("return", I.call_value(self.target(I), [r, ((a["block"], a["salt"]), [b"b" * 32], self._sharehashes), a["segnum"], reader, "server", 0], {}))
        except PyRaise as pr:
            return Outcome("raise", exc=pr.exc, exc_cls=pr.cls)

    def ensures(self, I, a, out):
        from pyvc.models_ext import unwrap_key
        log = self._log
        if out.kind == "raise":
            return [("a-share-is-declared-corrupt-only-after-a-hash-tree-refused", z3.BoolVal(any(e[3] not in ("ok", "pending") for e in log)))]
        leaf = [e for e in log if e[0] == "bht" and isinstance(e[2], dict) and e[2]]
        sh = [e for e in log if e[0] == "sht"]
        want = z3.Concat(as_sstr(a["salt"]).term, as_sstr(a["block"]).term) if a["mdmf"] else as_sstr(a["block"]).term
        g = [("every-hash-tree-call-succeeded", z3.BoolVal(all(e[3] == "ok" for e in log))),
             ("the-block-hash-is-checked-against-the-block-hash-tree-even-when-no-further-hashes-are-needed", z3.BoolVal(len(leaf) == 1 and len(leaf[0][2]) == 1))]
        if len(leaf) == 1 and len(leaf[0][2]) == 1:
            (k, h), = leaf[0][2].items()
            g += [("the-leaf-is-this-segment", Z(unwrap_key(k)) == Z(a["segnum"])),
                  ("the-hash-covers-the-salt-for-MDMF-and-the-block", (h.term == HB(want)) if isinstance(h, SHash) else z3.BoolVal(False))]
        g.append(("the-share-hash-chain-is-checked-with-the-block-tree-root-as-this-shares-leaf", z3.BoolVal(len(sh) == 1 and sh[0][1] is self._sharehashes and isinstance(sh[0][2], dict) and
                                                                                                        [unwrap_key(x) for x in sh[0][2].keys()] == [4] and list(sh[0][2].values())[0] is self._root)))
        if a["needed"]:
            firsth = [i for i, e in enumerate(log) if e[0] == "bht" and e[1]]
            firstl = [i for i, e in enumerate(log) if e[0] == "bht" and e[2]]
            g.append(("needed-block-hashes-are-submitted-no-later-than-the-leaf", z3.BoolVal(bool(firsth) and bool(firstl) and firsth[0] <= firstl[0])))
        ok = isinstance(out.value, dict) and list(out.value.keys()) == [4]
        g.append(("result-is-the-validated-block-and-salt", z3.BoolVal(ok and out.value[4][0] is a["block"] and out.value[4][1] is a["salt"])))
        return g

    def canary(self, I, a, out):
        return [("canary", z3.BoolVal(out.kind != "return"))]


def mk_verinfo(seq, root, k, prefix):
    return (seq, root, b"salt" * 4, 1000, 5000, k, 10, prefix, {"signature": 100, "share_hash_chain": 200, "block_hash_tree": 300, "share_data": 400, "enc_privkey": 500, "EOF": 600})


class SignatureGate(Spec):
    file = SM
    qualname = "ServermapUpdater._got_signature_one_share"
    level = "B"
    bound = "known-valid set: empty / the identical version / a version with the same (seqnum, root hash) but another k and prefix / an unrelated version"
    cross_check = 0
    canary_case = {"known": "none", "bad_share": False}

    @property
    def raises(self):
        from allmydata.mutable.common import CorruptShareError
        return (CorruptShareError,)

    def inputs(self):
        return {"known": ChoiceK(["none", "same", "same-seq-root", "other"]), "bad_share": ChoiceK([False, True])}

    def all_cases(self):
        return [{"known": k, "bad_share": b} for k in ("none", "same", "same-seq-root", "other") for b in (False, True)]

    def config(self):
        me = self
        from allmydata.crypto.error import BadSignature

        def verify(I, a, kw):
            me._verified.append(tuple(a))
            if me._phase == 2 and I.path.choose(2):
                raise PyRaise(BadSignature("bad"), BadSignature)
        o = dict(LOG)
        o.update({"rsa.verify_signature": verify, "base32.b2a": lambda I, a, kw: b"abcdefgh"})
        return {"overrides": o}

    def run(self, I, a):
        M = self.module()
        self._verified, self._added = [], []
        vi = mk_verinfo(7, b"R" * 32, 3, b"prefix-7-R-k3")
        up = SObj(M.ServermapUpdater, {"_running": True})
        hashable = I.call_value(I.get_attr(up, "_make_verinfo_hashable"), [vi], {})
        server = stub("server", get_name=lambda I_, a_, k_: "srv")
        sm = stub("servermap", get_bad_shares=lambda I_, a_, k_: ({(server, 2): "x"} if a["bad_share"] else {}), add_new_share=lambda I_, a_, k_: self._added.append(tuple(a_[:3])))
        node = stub("node", get_pubkey=lambda I_, a_, k_: "PUBKEY")
        up.fields.update({"_valid_versions": set(), "_node": node, "_servermap": sm, "_servers_with_shares": set()})
        # phase 1: an earlier share of this update whose signature verified (the real method builds its own cache)
        self._phase = 1
        earlier = {"same": vi, "same-seq-root": mk_verinfo(7, b"R" * 32, 5, b"prefix-7-R-k5"), "other": mk_verinfo(6, b"Q" * 32, 3, b"prefix-6")}.get(a["known"])
        if earlier is not None:
            I.call_value(self.target(I), [up, (None, (True, earlier), (True, b"SIG0"), None, None), 1, server, None], {})
        self._phase = 2
        self._verified, self._added = [], []
        self._hashable, self._server = hashable, server
        try:
            out = Outcome("return", I.call_value(self.target(I), [up, (None, (True, vi), (True, b"SIG"), None, None), 2, server, None], {}))
        except PyRaise as pr:
            out = Outcome("raise", exc=pr.exc, exc_cls=pr.cls)
        out.post = {"up": up}
        return out

    def ensures(self, I, a, out):
        ver = self._verified
        checked = len(ver) == 1 and ver[0] == ("PUBKEY", b"SIG", b"prefix-7-R-k3")
        trusted_before = a["known"] == "same"
        if out.kind == "raise":
            return [("corrupt-only-after-the-signature-check-failed", z3.BoolVal(checked)),
                    ("a-share-with-a-bad-signature-is-not-recorded", z3.BoolVal(not self._added))]
        g = [("a-version-is-believed-only-if-its-signature-over-its-own-prefix-verified-or-the-identical-version-did-before", z3.BoolVal(checked or trusted_before)),
             ("the-signature-is-checked-with-the-nodes-public-key-over-the-signed-prefix", z3.BoolVal(checked or not ver)),
             ("the-share-is-recorded-unless-it-was-marked-bad", z3.BoolVal(self._added == ([] if a["bad_share"] else [(self._server, 2, self._hashable)])))]
        return g

    def canary(self, I, a, out):
        return [("canary", z3.BoolVal(not self._added))] if out.kind == "return" else []


class PubkeyGate(Spec):
    file = SM
    qualname = "ServermapUpdater._try_to_set_pubkey"
    cross_check = 0

    @property
    def raises(self):
        from allmydata.mutable.common import CorruptShareError
        return (CorruptShareError,)

    def inputs(self):
        return {"pubkey_s": BlobK(), "matches": BoolK(), "have": ChoiceK([False, True])}

    def all_cases(self):
        return [{"have": False}, {"have": True}]

    def config(self):
        FP = z3.Function("ssk_pubkey_fingerprint_hash", z3.StringSort(), z3.StringSort())
        self._FP = FP
        o = dict(LOG)
        o["hashutil.ssk_pubkey_fingerprint_hash"] = lambda I, a, kw: SStr(FP(as_sstr(a[0]).term), True, 32)
        o["ServermapUpdater._deserialize_pubkey"] = lambda I, a, kw: ("PUBKEY-OF", a[1])
        return {"overrides": o}

    def run(self, I, a):
        self._pop = []
        fp_ok = I.path.branch(to_z3_bool(a["matches"]))
        self._fp_ok = fp_ok
        other = SStr(z3.String("cap_fingerprint"), True, 32)
        if not fp_ok:
            I.path.assume(other.term != self._FP(as_sstr(a["pubkey_s"]).term))
        fp = SStr(self._FP(as_sstr(a["pubkey_s"]).term), True, 32) if fp_ok else other
        state = {"pub": "OLDKEY" if a["have"] else None}

        def populate(I_, a_, k_):
            self._pop.append(a_[0])
            state["pub"] = a_[0]
        node = stub("node", get_pubkey=lambda I_, a_, k_: state["pub"], get_fingerprint=lambda I_, a_, k_: fp, _populate_pubkey=populate)
        up = SObj(self.module().ServermapUpdater, {"_node": node})
        try:
            return Outcome("return", I.call_value(self.target(I), [up, a["pubkey_s"], "server", 1, None], {}))
        except PyRaise as pr:
            return Outcome("raise", exc=pr.exc, exc_cls=pr.cls)

    def ensures(self, I, a, out):
        if out.kind == "raise":
            return [("a-key-is-refused-only-when-its-fingerprint-differs-from-the-capability", z3.BoolVal(not self._fp_ok and not a["have"])),
                    ("a-refused-key-is-not-installed", z3.BoolVal(not self._pop))]
        if a["have"]:
            return [("an-already-validated-key-is-kept", z3.BoolVal(not self._pop))]
        return [("a-key-is-installed-only-if-its-fingerprint-is-the-one-in-the-capability", z3.BoolVal(self._fp_ok)),
                ("the-installed-key-is-the-fingerprinted-one", z3.BoolVal(len(self._pop) == 1 and self._pop[0][1] is a["pubkey_s"]))]

    def canary(self, I, a, out):
        return [("canary", z3.BoolVal(not self._pop))] if (out.kind == "return" and not a["have"]) else []
    canary_case = {"have": False}


class PrivkeyGate(Spec):
    file = SM
    qualname = "ServermapUpdater._try_to_validate_privkey"
    cross_check = 0
    raises = ()

    def inputs(self):
        return {"enc": BlobK(), "matches": BoolK()}

    def config(self):
        DEC = z3.Function("decrypt_privkey", z3.StringSort(), z3.StringSort(), z3.StringSort())
        WK = z3.Function("ssk_writekey_hash", z3.StringSort(), z3.StringSort())
        self._DEC, self._WK = DEC, WK
        o = dict(LOG)
        o["servermap.decrypt_privkey"] = lambda I, a, kw: SStr(DEC(as_sstr(a[0]).term, as_sstr(a[1]).term), True)
        o["common.decrypt_privkey"] = o["servermap.decrypt_privkey"]
        o["hashutil.ssk_writekey_hash"] = lambda I, a, kw: SStr(WK(as_sstr(a[0]).term), True, 16)
        o["rsa.create_signing_keypair_from_string"] = lambda I, a, kw: (("PRIVKEY-OF", a[0]), "pub")
        return {"overrides": o}

    def run(self, I, a):
        self._pop = []
        wk = SStr(z3.String("node_writekey"), True, 16)
        derived = self._WK(self._DEC(wk.term, as_sstr(a["enc"]).term))
        ok = I.path.branch(to_z3_bool(a["matches"]))
        self._ok = ok
        I.path.assume((derived == wk.term) if ok else (derived != wk.term))
        node = stub("node", get_writekey=lambda I_, a_, k_: wk, _populate_encprivkey=lambda I_, a_, k_: self._pop.append(("enc", a_[0])),
                    _populate_privkey=lambda I_, a_, k_: self._pop.append(("priv", a_[0])))
        st = stub("status", set_privkey_from=noop)
        server = stub("server", get_name=lambda I_, a_, k_: "srv")
        up = SObj(self.module().ServermapUpdater, {"_node": node, "_need_privkey": True, "_status": st})
        I.call_value(self.target(I), [up, a["enc"], server, 1, None], {})
        return up

    def ensures(self, I, a, out):
        if not self._ok:
            return [("a-private-key-that-does-not-hash-to-the-write-key-is-ignored", z3.BoolVal(not self._pop and out.value.fields["_need_privkey"] is True))]
        return [("a-private-key-is-installed-only-if-it-hashes-to-the-write-key", z3.BoolVal(self._ok)),
                ("the-validated-key-is-installed", z3.BoolVal(len(self._pop) == 2 and out.value.fields["_need_privkey"] is False))]

    def canary(self, I, a, out):
        return [("canary", z3.BoolVal(not self._pop))] if self._ok else []


class ShareHashesOrBadShare(Spec):
    """MDMFSlotReadProxy.get_sharehashes: a share hash chain that cannot be parsed (truncated inside an entry) makes the
    share a BadShareError -- which Retrieve tolerates by trying another share -- never a raw struct.error"""
    file = "allmydata/mutable/layout.py"
    qualname = "MDMFSlotReadProxy.get_sharehashes"
    cross_check = 0
    raises = ()
    canary_case = {"chain_len": 35}

    def inputs(self):
        return {"chain_len": ChoiceK([0, 34, 35, 67, 68, 33])}

    def all_cases(self):
        return [{"chain_len": n} for n in (0, 34, 35, 67, 68, 33)]

    def run(self, I, a):
        from pyvc.models_tahoe import DStub
        d0 = DStub("pending")
        chain = bytes((i * 7 + 1) % 256 for i in range(a["chain_len"]))
        p = SObj(self.module().MDMFSlotReadProxy, {"shnum": 2, "_version_number": 1, "_offsets": {"share_hash_chain": 100, "signature": 100 + a["chain_len"], "block_hash_tree": 100 + a["chain_len"]}})
        p.fields["_maybe_fetch_offsets_and_header"] = stub("x", f=lambda I_, a_, k_: d0).fields["f"]
        p.fields["_read"] = stub("x", f=lambda I_, a_, k_: DStub("succeeded", {2: [chain]})).fields["f"]
        d = I.call_value(self.target(I), [p], {})
        res, _ = fire_chain(I, d0, None)
        return res

    def ensures(self, I, a, out):
        from allmydata.mutable.common import BadShareError
        import struct
        whole = a["chain_len"] % 34 == 0
        r = out.value
        if whole:
            return [("a-well-formed-chain-is-returned-as-a-map", z3.BoolVal(isinstance(r, dict) and len(r) == a["chain_len"] // 34))]
        cls = getattr(r, "exc_cls", None)
        return [("an-unparseable-chain-is-a-bad-share-not-a-crash", z3.BoolVal(is_failure(r) and isinstance(cls, type) and issubclass(cls, BadShareError) and not issubclass(cls, struct.error)))]

    def canary(self, I, a, out):
        return [("canary", z3.BoolVal(not is_failure(out.value)))]


class MarkBadShare(Spec):
    """Retrieve._mark_bad_share(server, shnum, reader, f): exactly the (shnum, server) pair of the failed reader leaves
    remaining_sharemap; other shares of the same server and the same share number on other servers stay usable"""
    file = RT
    qualname = "Retrieve._mark_bad_share"
    cross_check = 0
    raises = ()
    canary_case = {"layout": 0, "bad": 0}
    LAYOUTS = [
        [(0, "A"), (3, "A"), (1, "B"), (4, "B")],             # two shares per server
        [(0, "A"), (0, "B"), (1, "B")],                       # the same share number on two servers
        [(0, "A"), (1, "B"), (2, "C")],                       # one share per server
        [(0, "A"), (1, "A"), (2, "A")],                       # everything on one server
    ]

    def inputs(self):
        return {"layout": ChoiceK([0, 1, 2, 3]), "bad": ChoiceK([0, 1, 2])}

    def all_cases(self):
        return [{"layout": li, "bad": b} for li in range(4) for b in range(len(self.LAYOUTS[li])) if b < 3]

    def config(self):
        o = dict(LOG)
        o["Retrieve.notify_server_corruption"] = lambda I, a, kw: self._notified.append((a[1], a[2]))
        return {"overrides": o}

    def run(self, I, a):
        from allmydata.util.dictutil import DictOfSets
        self._notified = []
        layout = self.LAYOUTS[a["layout"]]
        servers = dict((nm, stub("server" + nm, get_name=(lambda I_, a_, k_, nm=nm: "name" + nm))) for nm in "ABC")
        rsm = SObj(DictOfSets, {"__dictdata__": {}})
        readers = []
        for (sh, nm) in layout:
            I.call_value(I.get_attr(rsm, "add"), [sh, servers[nm]], {})
            readers.append(stub("reader%d%s" % (sh, nm), shnum=sh, server=servers[nm]))
        bad_sh, bad_nm = layout[a["bad"]]
        self._marked = []
        smap = stub("servermap", mark_bad_share=lambda I_, a_, k_: self._marked.append((a_[0], a_[1])))
        status = stub("status", add_problem=noop)
        r = SObj(self.module().Retrieve, {"remaining_sharemap": rsm, "_active_readers": list(readers), "_bad_shares": set(), "servermap": smap, "_status": status,
                                          "verinfo": (1, b"r", b"s", 9, 9, 3, 10, b"prefix", ()), "_last_failure": None})
        from allmydata.mutable.common import CorruptShareError
        f = failure_stub(CorruptShareError, "server", bad_sh, "block hash tree failure")
        I.call_value(self.target(I), [r, servers[bad_nm], bad_sh, readers[a["bad"]], f], {})
        self._servers, self._readers, self._r, self._rsm = servers, readers, r, rsm
        return r

    def ensures(self, I, a, out):
        layout = self.LAYOUTS[a["layout"]]
        bad = layout[a["bad"]]
        data = self._rsm.fields["__dictdata__"]
        left = set()
        for sh, members in data.items():
            for srv in members:
                for nm, s_ in self._servers.items():
                    if s_ is getattr(srv, "v", srv):
                        left.add((sh, nm))
        want = set(layout) - {bad}
        return [("exactly-the-failed-share-leaves-the-remaining-share-map", z3.BoolVal(left == want)),
                ("the-failed-reader-is-no-longer-active-and-the-others-are", z3.BoolVal(list(self._r.fields["_active_readers"]) == [r_ for i, r_ in enumerate(self._readers) if i != a["bad"]])),
                ("the-share-is-recorded-bad-in-the-servermap", z3.BoolVal(self._marked == [(self._servers[bad[1]], bad[0])])),
                ("the-server-is-told-about-the-corrupt-share", z3.BoolVal(self._notified == [(self._servers[bad[1]], bad[0])]))]


class DownloadRetry(Spec):
    """MutableFileNode._download_best_version: when the first attempt (MODE_READ survey) runs out of shares, the one retry
    surveys in a mode that asks every server -- for a read-only node as well -- and its result is the read's result"""
    file = "allmydata/mutable/filenode.py"
    qualname = "MutableFileNode._download_best_version"
    cross_check = 0
    raises = ()
    canary_case = {"readonly": True}

    def inputs(self):
        return {"readonly": ChoiceK([False, True])}

    def all_cases(self):
        return [{"readonly": False}, {"readonly": True}]

    def config(self):
        me = self

        def make_version(I, a, kw):
            from pyvc.models_tahoe import DStub
            from allmydata.interfaces import NotEnoughSharesError
            n = len(me._versions)
            ro = len(a) < 8
            dl = (lambda I_, a_, k_: DStub("failed", failure_stub(NotEnoughSharesError, "ran out of servers"))) if n == 0 else (lambda I_, a_, k_: DStub("succeeded", b"contents"))
            v = stub("version%d" % n, download_to_data=dl, is_readonly=lambda I_, a_, k_: ro, set_downloader_hints=noop, get_size=lambda I_, a_, k_: 8)
            me._versions.append((v, ro, a[1]))
            return v
        return {"overrides": {"log.msg": lambda I, a, kw: 1, "filenode.MutableFileVersion": make_version}}

    def run(self, I, a):
        from pyvc.models_tahoe import DStub
        self._versions = []
        surveys = []

        def get_version(I_, a_, k_):
            d = DStub("pending")
            surveys.append((d, a_[0]))
            return d
        ro = a["readonly"]
        node = SObj(self.module().MutableFileNode, {"_secret_holder": "sh", "_writekey": (None if ro else b"w"), "_readkey": b"r", "_storage_index": b"si", "_storage_broker": "sb", "_history": None,
                                                   "_downloader_hints": {}, "_most_recent_size": None})
        node.fields["_get_version_from_servermap"] = stub("x", f=get_version).fields["f"]
        node.fields["is_readonly"] = stub("x", f=lambda I_, a_, k_: ro).fields["f"]
        d = I.call_value(self.target(I), [node], {})

        def smap(tag):
            return stub("servermap-" + tag, recoverable_versions=lambda I_, a_, k_: {"verinfo"}, make_versionmap=lambda I_, a_, k_: {"verinfo": set()})
        maps = [smap("first"), smap("second")]
        fire_chain(I, surveys[0][0], (maps[0], "verinfo"))
        during = d.state
        if len(surveys) == 2:
            res, _ = fire_chain(I, surveys[1][0], (maps[1], "verinfo"))
            if d.state == "waiting":
                fire_chain(I, d, res, start=d._next)
        out = Outcome("return", d)
        out.post = {"surveys": surveys, "during": during, "maps": maps}
        return out

    def ensures(self, I, a, out):
        from allmydata.mutable.common import MODE_READ, MODE_WRITE, MODE_CHECK, MODE_REPAIR
        sv, d = out.post["surveys"], out.value
        return [("the-first-attempt-surveys-in-MODE_READ", z3.BoolVal(len(sv) >= 1 and sv[0][1] == MODE_READ)),
                ("running-out-of-shares-starts-one-retry", z3.BoolVal(len(sv) == 2 and out.post["during"] in ("waiting", "pending"))),
                # MODE_WRITE does not qualify: its survey stops at the first gap in the permuted server list (D33)
                ("the-retry-surveys-in-a-mode-that-asks-every-server", z3.BoolVal(len(sv) == 2 and sv[1][1] in (MODE_CHECK, MODE_REPAIR))),
                ("the-retry-reads-through-the-new-survey", z3.BoolVal(len(self._versions) == 2 and self._versions[1][2] is out.post["maps"][1])),
                ("the-read-ends-with-the-retrys-result", z3.BoolVal(d.state == "succeeded" and d.value == b"contents"))]

    def canary(self, I, a, out):
        return [("canary", z3.BoolVal(len(out.post["surveys"]) == 1))]


def unsigned_offsets_probe(rep):
    """directed run-time contract (bounded): 1-of-3 SDMF and MDMF files, the most significant byte of the first / second / last
    entry of ONE share's offset table damaged, on each of the three servers; two intact shares remain, so the read must succeed.
    Failures of exactly this shape are known finding D32 (DESIGN 9.4); anything else is a violation."""
    import json
    import os
    import subprocess
    import sys
    from pyvc.runner import load_known_findings
    name = "UnsignedOffsets:a-share-with-a-damaged-offset-table-does-not-stop-a-read-that-k-intact-shares-can-serve"
    r = subprocess.run([sys.executable, "-m", "contracts.grid_mutable_offsets"], capture_output=True, text=True, timeout=600, cwd="/verif", env=dict(os.environ))
    line = [ln for ln in r.stdout.splitlines() if ln.startswith("{")]
    rep.obligations += 1
    rep.bounded_obligations += 1
    if not line:
        rep.undecided.append({"spec": "UnsignedOffsets", "why": "probe produced no report: " + (r.stderr or "")[-300:]})
        return
    res = json.loads(line[-1])
    rep.paths += res["cases"]
    rep.sym_paths += res["cases"]
    rep.bounds.append("unsigned offset table: %d directed cases (SDMF/MDMF 1-of-3, 3 offset-table bytes x 3 servers), real grid" % res["cases"])
    bad = res["failures"]
    if not bad:
        rep.discharged += 1
        rep.discharged_names.add(name)
        return
    expected_shape = all(set(b) == {"format", "offset_table_byte", "server", "outcome"} and b["outcome"] in ("NotEnoughSharesError", "UnrecoverableFileError") for b in bad)
    known = [f for f in load_known_findings() if f.get("id") == "D32" and f.get("status") == "known"]
    if expected_shape and known:
        if not any(k_["id"] == "D32" for k_ in rep.known):
            rep.known.append(known[0])
        rep.obligations -= 1
        rep.bounded_obligations -= 1
        return
    rep.violations.append({"property": "C10", "contract": "UnsignedOffsets", "obligation": name, "status": "runtime", "inputs": bad[0],
                           "native_outcome": "%d of %d directed cases fail; first: %r" % (len(bad), res["cases"], bad[0]), "confirmed_on_real_code": True})


def extra_checks(rep, tier):
    from contracts import grid_mutable
    grid_mutable.grid_check(rep, tier, "C10")
    unsigned_offsets_probe(rep)


def contracts(tier):
    return [ValidateBlock(), SignatureGate(), PubkeyGate(), PrivkeyGate(), ShareHashesOrBadShare(), MarkBadShare(), DownloadRetry()] + C35.contracts(tier)
