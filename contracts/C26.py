"""C26 Garbage collection deletes exactly the expired shares -- contract on LeaseCheckingCrawler.process_share"""
import z3
from pyvc.harness import Spec, IntK, ChoiceK, Outcome
from pyvc.values import *  # noqa
from pyvc.models_ext2 import PathTok
from contracts.lib import *  # noqa

LEVEL = "other"
MANIFEST_ENTRY = {
    "text": "process_share is executed symbolically for every policy configuration (age without/with override, cutoff date, every share-type filter, enabled/disabled) on shares with 0..3 leases (thorough: 0..5) whose expiry times, the override, the cutoff and every clock reading are unconstrained integers: the leases cancelled are exactly those expired under the documented policy (up to the clock advancing between reads), nothing is cancelled when expiration is disabled or the share type is not selected, and the share is reported as deletable only when every lease was cancelled. Bounded number of leases, hence level 'other'.",
    "note": "Bound: number of leases per share (the decision per lease does not depend on other leases). time.time() values are integers with monotone reads (floats not modelled). LeaseInfo's renewal-time heuristic (expiry - 31 days) is part of the code under contract. The crawl-cycle clause ('within one cycle') is C27's; client.py configuration parsing is not under contract.",
    "technique": "contract-based deductive verification (pyvc VCs + z3), number of leases bounded",
}
EXPLANATION = "All times and policy values symbolic; lease count bounded."
TRUSTED = ["time.time() is monotone (values modelled as integers)", "ProcessShare stubs shares.get_share_file by a share object with the modelled leases; the dispatch itself (mutable iff the file starts with a mutable magic) is under contract: GetShareFile; the container constructors are C22/C23"]
ASSUMPTIONS = ["termination not proved"]
NOT_DECIDED = "configuration parsing in client.py; deletion of the share file by the last cancel_lease is ShareFile/MutableShareFile.cancel_lease (not under contract here)."
DAY31 = 31 * 24 * 60 * 60
TYPESETS = ((), ("immutable",), ("mutable",), ("mutable", "immutable"))


class ProcessShare(Spec):
    file = "allmydata/storage/expirer.py"
    qualname = "LeaseCheckingCrawler.process_share"
    level = "B"
    cross_check = 150
    maxleases = 3
    canary_case = {"policy": "cutoff", "enabled": True, "types": ("mutable", "immutable"), "nleases": 2, "sharetype": "immutable"}

    @property
    def bound(self):
        return "0..%d leases per share; all times and policy values symbolic" % self.maxleases

    def inputs(self):
        d = {"policy": ChoiceK(["age", "age-override", "cutoff"]), "enabled": ChoiceK([False, True]), "types": ChoiceK(TYPESETS),
             "nleases": ChoiceK(range(self.maxleases + 1)), "sharetype": ChoiceK(["immutable", "mutable"]),
             "override": IntK(), "cutoff": IntK()}
        d["t0"] = IntK(rnd=lambda r: r.randint(10 ** 9, 2 * 10 ** 9))
        for i in range(self.maxleases):
            d["exp%d" % i] = IntK(rnd=lambda r: r.randint(10 ** 9 - 10 ** 7, 2 * 10 ** 9 + 10 ** 7))
            d["dt%d" % i] = IntK(0, rnd=lambda r: r.choice([0, 0, 1, r.randint(0, 1000)]))
        return d

    def clock(self, a):
        ts = [Z(a["t0"])]
        for i in range(self.maxleases):
            ts.append(ts[-1] + Z(a["dt%d" % i]))
        return ts

    def all_cases(self):
        return [{"policy": p, "enabled": e, "types": t, "nleases": n, "sharetype": st}
                for p in ("age", "age-override", "cutoff") for e in (False, True) for t in TYPESETS
                for n in range(self.maxleases + 1) for st in (("immutable", "mutable") if t in (("immutable",), ("mutable",)) else ("immutable",))]

    def config(self):
        me = self
        ov = {"shares.get_share_file": lambda I, a, kw: me._sf, "LeaseCheckingCrawler.stat": lambda I, a, kw: stub("stat", st_size=10, st_blocks=1),
              "LeaseCheckingCrawler.add_lease_age_to_histogram": noop, "LeaseCheckingCrawler.increment": noop,
              "LeaseCheckingCrawler.increment_space": noop}
        return {"overrides": ov, "concrete_overrides": ov}

    def native(self, a):
        import time as _time
        import allmydata.storage.expirer as E
        import allmydata.storage.lease as L
        from allmydata.storage.lease import LeaseInfo

        def f():
            ts = [int(z3.simplify(t).as_long()) for t in self.clock(a)]
            it = iter(ts)

            class FakeTime(object):
                @staticmethod
                def time():
                    return next(it)
            leases = [LeaseInfo(1, b"r" * 32, ("cancel-%d" % i), a["exp%d" % i], b"n" * 20) for i in range(a["nleases"])]
            cancelled = []

            class SF(object):
                sharetype = a["sharetype"]

                def get_leases(s):
                    return list(leases)

                def cancel_lease(s, c):
                    cancelled.append(c)
            cr = object.__new__(E.LeaseCheckingCrawler)
            cr.mode = "cutoff-date" if a["policy"] == "cutoff" else "age"
            cr.override_lease_duration = a["override"] if a["policy"] == "age-override" else None
            cr.cutoff_date = a["cutoff"] if a["policy"] == "cutoff" else None
            cr.sharetypes_to_expire, cr.expiration_enabled = a["types"], a["enabled"]
            cr.state = {"cycle-to-date": {"leases-per-share-histogram": {}, "lease-age-histogram": {}, "space-recovered": {}}}
            cr.stat = lambda fn: type("S", (), {"st_size": 10, "st_blocks": 1})()
            cr.add_lease_age_to_histogram = lambda age: None
            cr.increment = lambda *x: None
            cr.increment_space = lambda *x: None
            saved = (E.get_share_file, E.time, L.time)
            E.get_share_file, E.time, L.time = (lambda fn: SF()), FakeTime, FakeTime
            try:
                wk = cr.process_share("x")
            finally:
                E.get_share_file, E.time, L.time = saved
            return wk, cancelled, ts[:1 + a["nleases"]]
        out = native_outcome(f)
        if out.kind == "return":
            wk, cancelled, ts = out.value
            out.value = wk
            out.post = {"cancelled": cancelled, "clock": ts}
        return out

    def same_result(self, n, s):
        from pyvc.runner import plainify
        return list(n.value) == list(plainify(s.value)) and n.post["cancelled"] == s.post["cancelled"]

    def run(self, I, a):
        I.cfg["clock_values"] = [norm_int(t) for t in self.clock(a)]
        import allmydata.storage.lease as L
        leases = [SObj(L.LeaseInfo, {"_expiration_time": a["exp%d" % i], "cancel_secret": "cancel-%d" % i}) for i in range(a["nleases"])]
        cancelled = []
        self._sf = stub("sharefile", get_leases=lambda I_, a_, k_: list(leases), cancel_lease=lambda I_, a_, k_: cancelled.append(a_[0]))
        self._sf.fields["sharetype"] = a["sharetype"]
        mode = "cutoff-date" if a["policy"] == "cutoff" else "age"
        cr = SObj(self.module().LeaseCheckingCrawler, {"mode": mode, "override_lease_duration": a["override"] if a["policy"] == "age-override" else None,
                                                       "cutoff_date": a["cutoff"] if a["policy"] == "cutoff" else None,
                                                       "sharetypes_to_expire": a["types"], "expiration_enabled": a["enabled"],
                                                       "state": {"cycle-to-date": {"leases-per-share-histogram": {}}}})
        wk = I.call_value(self.target(I), [cr, "sharefile-name"], {})
        out = Outcome("return", wk)
        out.post = {"cancelled": list(cancelled), "clock": list(I.ghost.get("clock", []))}
        return out

    def ensures(self, I, a, out):
        wk, cancelled, clock = out.value, out.post["cancelled"], out.post["clock"]
        t0, t1 = clock[0], clock[-1]
        type_on = a["sharetype"] in a["types"]

        def expired_at(i, t):
            exp = Z(a["exp%d" % i])
            renewal = exp - DAY31
            if a["policy"] == "cutoff":
                return renewal < Z(a["cutoff"])
            dur = Z(a["override"]) if a["policy"] == "age-override" else (exp - renewal)
            return renewal + dur < t
        g = [("cancels-use-each-lease's-own-cancel-secret-in-order", z3.BoolVal(all(c in ["cancel-%d" % i for i in range(a["nleases"])] for c in cancelled)
                                                                                 and cancelled == sorted(cancelled) and len(set(cancelled)) == len(cancelled)))]
        if not a["enabled"]:
            g.append(("disabled-expiration-cancels-nothing", z3.BoolVal(cancelled == [])))
        if not type_on:
            g.append(("unselected-share-type-cancels-nothing", z3.BoolVal(cancelled == [])))
        for i in range(a["nleases"]):
            c = ("cancel-%d" % i) in cancelled
            if c:
                g.append(("cancelled-lease-%d-is-expired-under-policy" % i, z3.And(z3.BoolVal(type_on and a["enabled"]), expired_at(i, t1))))
            elif a["enabled"] and type_on:
                g.append(("kept-lease-%d-is-not-expired-under-policy" % i, z3.Not(expired_at(i, t0))))
        all_cancelled = len(cancelled) == a["nleases"]
        g.append(("share-reported-deletable-only-if-every-lease-was-cancelled", z3.Implies(Z(wk[2]) == 0, z3.BoolVal(all_cancelled and a["enabled"]))))
        if a["enabled"] and a["nleases"] > 0:
            g.append(("share-with-every-lease-cancelled-is-reported-deletable", z3.Implies(z3.BoolVal(all_cancelled), Z(wk[2]) == 0)))
        return g

    def canary(self, I, a, out):
        return [("canary", z3.BoolVal(len(out.post["cancelled"]) == 0))]


class ClientExpiryConfig(Spec):
    """client._Client.get_anonymous_storage_server: the [storage]expire.* settings reach StorageServer unchanged:
    the share-type filter is the collection of WHOLE type names selected by expire.immutable / expire.mutable."""
    file = "allmydata/client.py"
    qualname = "_Client.get_anonymous_storage_server"
    level = "B"
    bound = "exhaustive over expire.immutable x expire.mutable x expire.enabled x mode (finite configuration space; exhaustive)"
    cross_check = 0
    canary_case = {"imm": True, "mut": False, "enabled": True, "mode": "age"}

    def inputs(self):
        return {"imm": ChoiceK([False, True]), "mut": ChoiceK([False, True]), "enabled": ChoiceK([False, True]),
                "mode": ChoiceK(["age", "cutoff-date"])}

    def all_cases(self):
        return [{"imm": i, "mut": m, "enabled": e, "mode": md} for i in (False, True) for m in (False, True)
                for e in (False, True) for md in ("age", "cutoff-date")]

    def config(self):
        me = self

        def new_ss(I, a, kw):
            me._kw = dict(kw)
            return stub("ss", setServiceParent=noop)
        ov = {"server.StorageServer": new_ss, "abbreviate.parse_abbreviated_size": lambda I, a, kw: None,
              "time_format.parse_duration": lambda I, a, kw: ("duration", a[0]), "time_format.parse_date": lambda I, a, kw: ("date", a[0])}
        return {"overrides": ov}

    def run(self, I, a):
        def get_config(I_, args, kw):
            key = args[1]
            vals = {"expire.immutable": a["imm"], "expire.mutable": a["mut"], "expire.enabled": a["enabled"], "expire.mode": a["mode"],
                    "expire.override_lease_duration": "2 days", "expire.cutoff_date": "2020-01-01", "readonly": False,
                    "reserved_space": None, "debug_discard": False, "storage_dir": "storage"}
            return vals[key]

        def no_service(I_, args, kw):
            raise PyRaise(SObj(KeyError, {"args": ()}))
        cfg = stub("config", get_config=get_config, get_config_path=lambda I_, a_, k_: "/storedir")
        cl = SObj(self.module()._Client, {"config": cfg, "getServiceNamed": ModelFn_("getServiceNamed", no_service),
                                          "get_config": ModelFn_("get_config", get_config), "nodeid": b"n" * 20, "stats_provider": None,
                                          "STOREDIR": "storage"})
        I.call_value(self.target(I), [cl], {})
        out = Outcome("return", None)
        out.post = dict(self._kw)
        return out

    def ensures(self, I, a, out):
        kw = out.post
        st = kw.get("expiration_sharetypes")
        want = [n for n, on in (("immutable", a["imm"]), ("mutable", a["mut"])) if on]
        return [("sharetypes-is-a-collection-of-whole-type-names", z3.BoolVal(isinstance(st, (tuple, list, set, frozenset)) and sorted(st) == sorted(want))),
                ("membership-test-selects-exactly-the-configured-types", z3.BoolVal(all((t in st) == (t in want) for t in ("immutable", "mutable")) if st is not None else False)),
                ("enabled-and-mode-passed-through", z3.BoolVal(kw.get("expiration_enabled") == a["enabled"] and kw.get("expiration_mode") == a["mode"])),
                ("override-duration-is-the-parsed-setting", z3.BoolVal(kw.get("expiration_override_lease_duration") == ("duration", "2 days"))),
                ("cutoff-date-parsed-only-in-cutoff-mode", z3.BoolVal(kw.get("expiration_cutoff_date") == (("date", "2020-01-01") if a["mode"] == "cutoff-date" else None)))]

    def canary(self, I, a, out):
        return [("canary", z3.BoolVal("mutable" in out.post["expiration_sharetypes"]))]


def ModelFn_(name, fn):
    from pyvc.interp import ModelFn
    return ModelFn(name, fn)


class ResumedHistogram(Spec):
    """LeaseCheckingCrawler.add_initial_state (run by load_state) followed by add_lease_age_to_histogram: a cycle resumed
    from the JSON state file -- where the cycle-to-date histogram is a list of [minage, maxage, count] -- goes on counting
    exactly where it stopped; the first lease examined after a restart does not kill the slice"""
    file = "allmydata/storage/expirer.py"
    qualname = "LeaseCheckingCrawler.add_initial_state"
    cross_check = 0
    raises = ()
    canary_case = {"saved": 1, "age": 0}
    SAVED = [{}, {(0, 86400): 2}, {(0, 86400): 1, (172800, 259200): 5}]

    def inputs(self):
        return {"saved": ChoiceK([0, 1, 2]), "age": ChoiceK([0, 86399, 86400, 200000]), "form": ChoiceK(["json", "memory", "absent"])}

    def all_cases(self):
        return [{"saved": sv, "age": ag, "form": f} for sv in range(3) for ag in (0, 86399, 86400, 200000) for f in ("json", "memory", "absent")]

    canary_case = {"saved": 1, "age": 0, "form": "json"}

    def config(self):
        return {"overrides": {"log.msg": lambda I, a, kw: 1}}

    def run(self, I, a):
        import json
        before = dict(self.SAVED[a["saved"]])
        ctd = {"corrupt-shares": [], "leases-per-share-histogram": {}}
        if a["form"] == "json":
            ctd["lease-age-histogram"] = json.loads(json.dumps([[k_[0], k_[1], v] for k_, v in sorted(before.items())]))
        elif a["form"] == "memory":
            ctd["lease-age-histogram"] = dict(before)
        else:
            before = {}
        state = {"cycle-to-date": ctd} if a["form"] != "absent" else {}
        cr = SObj(self.module().LeaseCheckingCrawler, {"state": state})
        I.call_value(self.target(I), [cr], {})
        I.call_value(I.get_attr(cr, "add_lease_age_to_histogram"), [a["age"]], {})
        out = Outcome("return", cr)
        out.post = {"before": before, "listed": I.call_value(I.get_attr(cr, "convert_lease_age_histogram"), [cr.fields["state"]["cycle-to-date"]["lease-age-histogram"]], {})}
        return out

    def ensures(self, I, a, out):
        before = out.post["before"]
        h = out.value.fields["state"]["cycle-to-date"]["lease-age-histogram"]
        b = (a["age"] // 86400) * 86400
        want = dict(before)
        want[(b, b + 86400)] = want.get((b, b + 86400), 0) + 1
        got = dict((tuple(getattr(k_, "v", k_)) if not isinstance(k_, tuple) else k_, v) for k_, v in h.items()) if isinstance(h, dict) else None
        listed = sorted(tuple(x) for x in out.post["listed"])
        return [("the-resumed-histogram-is-the-saved-one-plus-this-lease", z3.BoolVal(got == want)),
                ("and-it-is-saved-again-in-the-same-list-form", z3.BoolVal(listed == sorted((k_[0], k_[1], v) for k_, v in want.items())))]

    def canary(self, I, a, out):
        return [("canary", z3.BoolVal(out.post["listed"] == []))]


def extra_checks(rep, tier):
    # the cut-off date of cutoff mode is parsed by time_format.parse_date: it must mean UTC on every host (bounded run-time contract of C48)
    from contracts import C48
    C48.timezone_check(rep, "C26")


def _gen_container(rng):
    from allmydata.storage.mutable_schema import ALL_SCHEMAS
    magics = [sc._magic for sc in ALL_SCHEMAS]
    k = rng.randrange(6)
    body = bytes(rng.randrange(256) for _ in range(rng.randint(0, 60)))
    if k == 0:
        return body
    m = rng.choice(magics)
    if k == 1:
        return m + body
    if k == 2:
        return m[:rng.randint(0, len(m) - 1)]                    # truncated magic
    if k == 3:
        i = rng.randrange(len(m))
        return m[:i] + bytes([m[i] ^ 1]) + m[i + 1:] + body      # one byte off
    return m + body if k == 4 else b"\x00\x00\x00\x02" + body


class GetShareFile(Spec):
    """storage/shares.get_share_file(filename), the dispatch the expirer relies on before it looks at leases: for every
    file content, a MutableShareFile is returned exactly when the file starts with the magic string of one of the mutable
    container schemas, otherwise an immutable ShareFile -- always for the file that was asked about."""
    file = "allmydata/storage/shares.py"
    qualname = "get_share_file"
    cross_check = 60
    raises = ()

    def inputs(self):
        return {"file0": FileK(_gen_container, maxlen_model=200)}

    def config(self):
        mk = lambda kind: (lambda I, a, kw: (kind, a[0] if not isinstance(a[0], type) else a[1]))
        ov = {"mutable.MutableShareFile": mk("mutable"), "immutable.ShareFile": mk("immutable"),
              "shares.MutableShareFile": mk("mutable"), "shares.ShareFile": mk("immutable")}
        return {"overrides": ov, "concrete_overrides": ov}

    def run(self, I, a):
        put_file(I, "home", a["file0"])
        return I.call_value(self.target(I), [PathTok("home")], {})

    def native(self, a):
        import os
        from allmydata.storage.shares import get_share_file
        from allmydata.storage.mutable import MutableShareFile
        with TempDir() as d:
            p = os.path.join(d, "share")
            with open(p, "wb") as fh:
                fh.write(a["file0"])

            def f():
                try:
                    sf = get_share_file(p)
                except Exception:
                    # the constructors validate more than the dispatch does (C22/C23); which one was chosen is what matters here
                    import traceback
                    tb = traceback.format_exc()
                    return ("mutable" if "/mutable.py" in tb else "immutable", "home")
                return ("mutable" if isinstance(sf, MutableShareFile) else "immutable", "home" if sf.home == p else sf.home)
            return native_outcome(f)

    def is_mutable(self, a):
        from allmydata.storage.mutable_schema import ALL_SCHEMAS
        c, n = as_arr(a["file0"])
        alts = []
        for sc in ALL_SCHEMAS:
            m = sc._magic
            alts.append(z3.And(n >= len(m), *[z3.Select(c, i) == m[i] for i in range(len(m))]))
        return z3.Or(alts)

    def ensures(self, I, a, out):
        kind, path = out.value
        if I is None:
            from allmydata.storage.mutable_schema import ALL_SCHEMAS
            want = any(a["file0"][:len(sc._magic)] == sc._magic for sc in ALL_SCHEMAS)
            return [("mutable-container-exactly-when-the-file-starts-with-a-mutable-magic", z3.BoolVal((kind == "mutable") == want)),
                    ("container-is-opened-on-the-file-asked-about", z3.BoolVal(path == "home"))]
        isp = isinstance(path, PathTok) and path.name == "home"
        return [("mutable-container-exactly-when-the-file-starts-with-a-mutable-magic", self.is_mutable(a) if kind == "mutable" else z3.Not(self.is_mutable(a))),
                ("container-is-opened-on-the-file-asked-about", z3.BoolVal(bool(isp)))]

    def canary(self, I, a, out):
        return [("canary", z3.BoolVal(out.value[0] == "immutable"))]

    def same_result(self, n, s):
        return n.value[0] == s.value[0]


def contracts(tier):
    s = ProcessShare()
    if tier == "thorough":
        s.maxleases = 5
    return [s, ClientExpiryConfig(), ResumedHistogram(), GetShareFile()]
