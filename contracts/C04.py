"""C04 Random-access and concurrent immutable reads -- contracts on immutable/downloader/node.py (DownloadNode.read,
_extract_requests, _cancel_request), immutable/downloader/segmentation.py (Segmentation._fetch_next, _got_segment),
immutable/filenode.py DecryptingConsumer, immutable/literal.py LiteralFileNode.read"""
import z3
from pyvc.harness import Spec, IntK, BoolK, BytesArrK, ChoiceK, Outcome
from pyvc.values import *  # noqa
from contracts.lib import *  # noqa

LEVEL = "other"
MANIFEST_ENTRY = {
    "text": "DownloadNode.read: for every offset >= 0, size (None or >= 0) and file size, the range handed to a fresh Segmentation is exactly [offset, min(offset+size, filesize)), and when that is empty (offset at or past the end, or size 0) nothing is requested and the read finishes at once. Segmentation._got_segment (one step of a read, all integers and the segment bytes symbolic, the file a ghost array): the bytes written to the consumer are exactly file[offset : offset+n] with n = min(size, segment_end - offset) > 0, offset/size advance by n (so delivered ++ remaining == requested, by induction over steps), and a segment that does not contain the next wanted byte is refused with WrongSegmentError instead of being sliced. _fetch_next asks for the segment that contains the next wanted byte (segment sizes 1, 3, 4096, 131072) and completes the read when size reaches 0. Concurrency bookkeeping: _extract_requests retires exactly the requests for the delivered segment number and keeps every other reader's; _cancel_request removes only the cancelled reader's request, and when it stops the active segment it starts the next one so that the remaining readers are served. LiteralFileNode.read delivers data[offset:offset+size]. DecryptingConsumer positions AES-CTR at block offset//16 and skips offset%16 keystream bytes (bounded run-time check over 2,000 offsets up to 2**70).",
    "note": "Pause/resume and the reactor interleaving of several Segmentations are not modelled (each step contract holds in every interleaving because a Segmentation owns its offset/size); SegmentFetcher/ShareFinder (which shares deliver the segment) are C02/C03 territory.",
    "technique": "contract-based deductive verification (pyvc VCs + z3, ghost file array); DecryptingConsumer by bounded run-time contract",
}
MANIFEST_ENTRY["text"] += " Bounded end-to-end stand-in (run-time contract, never counted as proved): contracts/immutable_grid.py encodes seeded files with the real Encoder, serves the shares from in-memory servers with per-share faults (missing, bit-flipped, truncated, header-truncated, another file's, another encoding's, dead or dying server, slow server) and checks every ImmutableFileNode.read (whole, ranged, concurrent, paused, next to a cancelled one, after failed reads) against the plaintext."
MANIFEST_ENTRY["technique"] += "; plus bounded end-to-end run-time scenario contracts on an in-process grid of the real components (stand-in, labelled bounded)"
EXPLANATION = "Range arithmetic and request-queue frames of the real reader code."
TRUSTED = ["AES-CTR (cryptography library) counts blocks from the big-endian IV"]
ASSUMPTIONS = []
NOT_DECIDED = "producer pause/resume timing; the download of a segment itself."
ND = "allmydata/immutable/downloader/node.py"
SG = "allmydata/immutable/downloader/segmentation.py"
LOG = {"log.msg": lambda I, a, kw: 1, "time.time": lambda I, a, kw: 0}


class NodeRead(Spec):
    file = ND
    qualname = "DownloadNode.read"
    cross_check = 0
    raises = ()
    canary_case = {"size_none": False}

    def inputs(self):
        return {"size_none": ChoiceK([False, True]), "offset": IntK(0), "size": IntK(0), "filesize": IntK(0)}

    def all_cases(self):
        return [{"size_none": False}, {"size_none": True}]

    def config(self):
        me = self
        from pyvc.models_tahoe import DStub

        def seg(I, a, kw):
            me._segs.append(tuple(a))
            return stub("segmentation", start=lambda I_, a_, k_: (me._started.append(1), DStub("pending"))[1])
        o = dict(LOG)
        o.update({"node.Segmentation": seg, "segmentation.Segmentation": seg, "node.now": lambda I, a, kw: 0, "base32.b2a": lambda I, a, kw: b"abcdefghij"})
        return {"overrides": o}

    def run(self, I, a):
        self._segs, self._started = [], []
        from allmydata.uri import CHKFileVerifierURI
        vcap = SObj(CHKFileVerifierURI, {"storage_index": b"s" * 16, "uri_extension_hash": b"h" * 32, "needed_shares": 3, "total_shares": 10, "size": a["filesize"]})
        ev = stub("read_ev", finished=noop)
        ds = stub("download_status", add_read_event=lambda I_, a_, k_: ev)
        node = SObj(self.module().DownloadNode, {"_verifycap": vcap, "_download_status": ds, "_lp": None, "_history": None})
        self._consumer = stub("consumer")
        self._consumer.cls = object
        return I.call_value(self.target(I), [node, self._consumer, a["offset"], None if a["size_none"] else a["size"]], {})

    def ensures(self, I, a, out):
        from pyvc.models_tahoe import DStub
        off, fs = Z(a["offset"]), Z(a["filesize"])
        size = fs if a["size_none"] else Z(a["size"])
        end = z3.If(off + size < fs, off + size, fs)
        empty = end <= off
        if not self._segs:
            return [("nothing-is-fetched-only-for-an-empty-range", empty),
                    ("an-empty-read-finishes-at-once", z3.BoolVal(isinstance(out.value, DStub) and out.value.state == "succeeded" and out.value.value is self._consumer))]
        s = self._segs[0]
        return [("one-segmentation-per-read", z3.BoolVal(len(self._segs) == 1 and len(self._started) == 1)),
                ("a-non-empty-range-is-fetched", z3.Not(empty)),
                ("range-starts-at-the-offset", Z(s[1]) == off),
                ("range-is-clipped-at-end-of-file", Z(s[1]) + Z(s[2]) == end),
                ("data-goes-to-the-callers-consumer", z3.BoolVal(s[3] is self._consumer))]

    def canary(self, I, a, out):
        if not self._segs:
            return []
        return [("canary", Z(self._segs[0][2]) == Z(a["size"]))]


class GotSegment(Spec):
    file = SG
    qualname = "Segmentation._got_segment"
    cross_check = 0

    @property
    def raises(self):
        from allmydata.immutable.downloader.common import WrongSegmentError
        return (WrongSegmentError,)

    def inputs(self):
        return {"segment": BytesArrK(), "segment_start": IntK(0), "offset": IntK(0), "size": IntK(0)}

    def config(self):
        o = dict(LOG)
        o["Segmentation._maybe_fetch_next"] = lambda I, a, kw: self._next.append(1)
        return {"overrides": o}

    def run(self, I, a):
        self._written, self._next = [], []
        cons = stub("consumer", write=lambda I_, a_, k_: self._written.append(a_[0]))
        ev = stub("read_ev", update=noop)
        node = stub("node", _si_prefix="abc")
        sg = SObj(self.module().Segmentation, {"_node": node, "_offset": a["offset"], "_size": a["size"], "_consumer": cons, "_read_ev": ev, "_lp": None,
                                              "_cancel_segment_request": "c"})
        try:
            out = Outcome("return", I.call_value(self.target(I), [sg, (a["segment_start"], a["segment"], 0.1), 7], {}))
        except PyRaise as pr:
            out = Outcome("raise", exc=pr.exc, exc_cls=pr.cls)
        out.post = {"sg": sg}
        return out

    def ensures(self, I, a, out):
        seg = as_sbytes(a["segment"])
        st, n, off, size = Z(a["segment_start"]), Z(seg.length), Z(a["offset"]), Z(a["size"])
        contains_next = z3.And(st <= off, off < st + n, size > 0)
        if out.kind == "raise":
            return [("a-segment-is-refused-only-if-it-lacks-the-next-wanted-byte", z3.Not(contains_next))]
        sg = out.post["sg"]
        g = [("a-segment-is-used-only-if-it-holds-the-next-wanted-byte", contains_next),
             ("exactly-one-write", z3.BoolVal(len(self._written) == 1))]
        if len(self._written) == 1:
            w = as_sbytes(self._written[0])
            want_len = z3.If(size < st + n - off, size, st + n - off)
            # ghost file: file[st + i] == segment[i]; the write must be file[off : off + want_len]
            g += [("delivers-up-to-the-end-of-the-segment-or-of-the-request", Z(w.length) == want_len),
                  ("delivered-bytes-are-the-file-bytes-at-the-wanted-offset", forall_range(0, want_len, lambda i: w.at(i) == seg.at(off - st + i))),
                  ("offset-advances-by-what-was-delivered", Z(sg.fields["_offset"]) == off + want_len),
                  ("remaining-size-shrinks-by-what-was-delivered", Z(sg.fields["_size"]) == size - want_len),
                  ("the-next-segment-is-considered", z3.BoolVal(len(self._next) == 1))]
        return g

    def canary(self, I, a, out):
        if out.kind != "return" or not self._written:
            return []
        return [("canary", Z(as_sbytes(self._written[0]).length) == Z(a["size"]))]


class FetchNext(Spec):
    file = SG
    qualname = "Segmentation._fetch_next"
    cross_check = 0
    raises = ()
    canary_case = {"segsize": 4096, "known": True}

    def inputs(self):
        return {"segsize": ChoiceK([1, 3, 4096, 131072]), "known": ChoiceK([False, True]), "offset": IntK(0), "size": IntK(0)}

    def all_cases(self):
        return [{"segsize": s, "known": k} for s in (1, 3, 4096, 131072) for k in (False, True)]

    def config(self):
        return {"overrides": dict(LOG)}

    def run(self, I, a):
        from pyvc.models_tahoe import DStub
        self._req, self._done = [], []
        self._d = DStub("pending")
        node = stub("node", segment_size=(a["segsize"] if a["known"] else None), guessed_segment_size=a["segsize"],
                    get_segment=lambda I_, a_, k_: (self._req.append(a_[0]), (self._d, "cancel-handle"))[1])
        dd = stub("deferred", callback=lambda I_, a_, k_: self._done.append(a_[0]))
        cons = stub("consumer")
        sg = SObj(self.module().Segmentation, {"_node": node, "_offset": a["offset"], "_size": a["size"], "_consumer": cons, "_deferred": dd, "_lp": None,
                                              "_alive": True, "_hungry": True, "_active_segnum": None, "_cancel_segment_request": None})
        I.call_value(self.target(I), [sg], {})
        out = Outcome("return", sg)
        out.post = {"cons": cons}
        return out

    def ensures(self, I, a, out):
        sg = out.value
        off, size, ss = Z(a["offset"]), Z(a["size"]), a["segsize"]
        if not self._req:
            return [("no-request-only-when-the-read-is-complete", size == 0),
                    ("a-complete-read-fires-its-deferred-with-the-consumer", z3.BoolVal(self._done == [out.post["cons"]] and sg.fields["_alive"] is False))]
        sn = Z(self._req[0])
        kinds = [k for (k, fn, ar, kw) in self._d.callbacks]
        return [("a-request-is-made-only-while-bytes-are-wanted", size > 0),
                ("the-requested-segment-contains-the-next-wanted-byte", z3.And(sn * ss <= off, off < (sn + 1) * ss)),
                ("the-request-is-remembered-for-cancellation", z3.BoolVal(sg.fields["_cancel_segment_request"] == "cancel-handle" and len(self._req) == 1)),
                ("a-wrong-guess-may-be-retried-only-when-the-size-was-a-guess", z3.BoolVal(kinds.count("addErrback") == (1 if a["known"] else 2)))]

    def canary(self, I, a, out):
        if not self._req:
            return []
        return [("canary", Z(self._req[0]) == 0)]


def mk_requests(spec):
    reqs = []
    for i, sn in enumerate(spec):
        c = stub("cancel%d" % i)
        reqs.append((sn, "d%d" % i, c, "ev%d" % i, None))
    return reqs


class ExtractRequests(Spec):
    file = ND
    qualname = "DownloadNode._extract_requests"
    level = "B"
    bound = "request queues of up to 4 readers over segment numbers {0,1,2}"
    cross_check = 0
    raises = ()

    def inputs(self):
        return {"queue": ChoiceK([()]), "segnum": ChoiceK([0, 1, 2])}

    def all_cases(self):
        import itertools
        return [{"queue": q, "segnum": s} for n in range(5) for q in itertools.product((0, 1, 2), repeat=n) for s in (0, 1, 2)][::3]

    def run(self, I, a):
        self._reqs = mk_requests(a["queue"])
        node = SObj(self.module().DownloadNode, {"_segment_requests": list(self._reqs)})
        out = Outcome("return", I.call_value(self.target(I), [node, a["segnum"]], {}))
        out.post = {"node": node}
        return out

    def ensures(self, I, a, out):
        left = out.post["node"].fields["_segment_requests"]
        want_ret = [(d, c, ev) for (sn, d, c, ev, lp) in self._reqs if sn == a["segnum"]]
        want_left = [t for t in self._reqs if t[0] != a["segnum"]]
        return [("exactly-the-requests-for-this-segment-are-retired", z3.BoolVal([tuple(x) for x in out.value] == want_ret)),
                ("every-other-readers-request-stays-queued-in-order", z3.BoolVal(list(left) == want_left))]

    def canary(self, I, a, out):
        return [("canary", z3.BoolVal(len(out.post["node"].fields["_segment_requests"]) == len(self._reqs)))]
    canary_case = {"queue": (0, 1, 0), "segnum": 0}


class CancelRequest(Spec):
    file = ND
    qualname = "DownloadNode._cancel_request"
    level = "B"
    bound = "request queues of 1..4 readers over segment numbers {0,1,2}; active segment any of them or none"
    cross_check = 0
    raises = ()
    canary_case = {"queue": (0, 1), "who": 0, "active": 0}

    def inputs(self):
        return {"queue": ChoiceK([()]), "who": ChoiceK([0]), "active": ChoiceK([None, 0, 1, 2])}

    def all_cases(self):
        import itertools
        out = []
        for n in range(1, 5):
            for q in itertools.product((0, 1, 2), repeat=n):
                for who in range(n):
                    for act in (None, 0, 1, 2):
                        out.append({"queue": q, "who": who, "active": act})
        return out[::5]

    def config(self):
        return {"overrides": {"DownloadNode._start_new_segment": lambda I, a, kw: self._started.append(1)}}

    def run(self, I, a):
        self._started, self._stopped = [], []
        self._reqs = mk_requests(a["queue"])
        active = None
        if a["active"] is not None:
            active = stub("fetcher", segnum=a["active"], stop=lambda I_, a_, k_: self._stopped.append(1))
        node = SObj(self.module().DownloadNode, {"_segment_requests": list(self._reqs), "_active_segment": active})
        I.call_value(self.target(I), [node, self._reqs[a["who"]][2]], {})
        out = Outcome("return", node)
        return out

    def ensures(self, I, a, out):
        node = out.value
        left = list(node.fields["_segment_requests"])
        want_left = [t for i, t in enumerate(self._reqs) if i != a["who"]]
        still_wanted = a["active"] is not None and any(t[0] == a["active"] for t in want_left)
        g = [("only-the-cancelled-readers-request-is-removed", z3.BoolVal(left == want_left))]
        if a["active"] is None:
            g.append(("nothing-to-stop", z3.BoolVal(not self._stopped and not self._started)))
        elif still_wanted:
            g.append(("a-segment-another-reader-waits-for-keeps-downloading", z3.BoolVal(not self._stopped and node.fields["_active_segment"] is not None)))
        else:
            g.append(("an-unwanted-active-segment-is-stopped", z3.BoolVal(self._stopped == [1] and node.fields["_active_segment"] is None)))
            g.append(("the-remaining-readers-are-served-next", z3.BoolVal(self._started == [1])))
        return g

    def canary(self, I, a, out):
        return [("canary", z3.BoolVal(len(out.value.fields["_segment_requests"]) == len(self._reqs)))]


class LiteralRead(Spec):
    file = "allmydata/immutable/literal.py"
    qualname = "LiteralFileNode.read"
    cross_check = 0
    raises = ()
    canary_case = {"size_none": False}

    def inputs(self):
        return {"size_none": ChoiceK([False, True]), "data": BytesArrK(maxlen=55), "offset": IntK(0), "size": IntK(0)}

    def all_cases(self):
        return [{"size_none": False}, {"size_none": True}]

    def config(self):
        from pyvc.models_tahoe import DStub
        me = self

        def bytesio(I, a, kw):
            me._fed.append(a[0])
            return "filelike"
        return {"overrides": {"_io.BytesIO": bytesio, "io.BytesIO": bytesio, "basic.FileSender": lambda I, a, kw: stub("sender", beginFileTransfer=lambda I_, a_, k_: DStub("pending"))}}

    def run(self, I, a):
        self._fed = []
        u = stub("uri", data=a["data"])
        n = SObj(self.module().LiteralFileNode, {"u": u})
        return I.call_value(self.target(I), [n, "consumer", a["offset"], None if a["size_none"] else a["size"]], {})

    def ensures(self, I, a, out):
        d = as_sbytes(a["data"])
        n, off = Z(d.length), Z(a["offset"])
        end = n if a["size_none"] else z3.If(off + Z(a["size"]) < n, off + Z(a["size"]), n)
        want_len = z3.If(end > off, end - off, 0)
        g = [("one-transfer", z3.BoolVal(len(self._fed) == 1))]
        if len(self._fed) == 1:
            w = as_sbytes(self._fed[0])
            g += [("length-is-the-range-clipped-at-end-of-file", Z(w.length) == want_len),
                  ("bytes-are-the-slice-of-the-literal-data", forall_range(0, want_len, lambda i: w.at(i) == d.at(off + i)))]
        return g

    def canary(self, I, a, out):
        return [("canary", Z(as_sbytes(self._fed[0]).length) == Z(a["size"]))]


def decrypting_consumer_failures(offsets):
    import allmydata.immutable.filenode as FN
    bad = []
    real_create, real_decrypt = FN.aes.create_decryptor, FN.aes.decrypt_data
    seen = {}
    try:
        FN.aes.create_decryptor = lambda key, iv=None: seen.__setitem__("iv", iv) or "dec"
        FN.aes.decrypt_data = lambda dec, data: seen.__setitem__("skipped", seen.get("skipped", 0) + len(data)) or b""
        for off in offsets:
            seen.clear()
            try:
                FN.DecryptingConsumer(None, b"k" * 16, off)
                iv = seen.get("iv")
                ok = isinstance(iv, bytes) and len(iv) == 16 and int.from_bytes(iv, "big") == off // 16 and seen.get("skipped", 0) == off % 16
            except Exception as e:      # noqa
                ok, iv = False, repr(e)
            if not ok:
                bad.append({"offset": off, "iv": iv.hex() if isinstance(iv, bytes) else iv, "skipped": seen.get("skipped", 0)})
    finally:
        FN.aes.create_decryptor, FN.aes.decrypt_data = real_create, real_decrypt
    return bad


class ResumeProducing(Spec):
    """Segmentation.resumeProducing / pauseProducing: resuming makes the read hungry and schedules the *guarded* step --
    whatever it schedules starts a segment request only if the read is alive, hungry and has no request in flight
    ("cancelling or pausing one read does not disturb the others": a second request in flight makes the read fail)"""
    file = SG
    qualname = "Segmentation.resumeProducing"
    cross_check = 0
    raises = ()
    canary_case = {"alive": True, "active": None, "paused_again": False}

    def inputs(self):
        return {"alive": ChoiceK([False, True]), "active": ChoiceK([None, 0, 3]), "paused_again": ChoiceK([False, True])}

    def all_cases(self):
        return [{"alive": al, "active": ac, "paused_again": pa} for al in (False, True) for ac in (None, 0, 3) for pa in (False, True)]

    def config(self):
        me = self
        o = dict(LOG)
        o["eventual.eventually"] = lambda I, a, kw: me._scheduled.append((a[0], list(a[1:])))
        o["foolscap.eventual.eventually"] = o["eventual.eventually"]
        o["segmentation.now"] = lambda I, a, kw: 0
        return {"overrides": o}

    def run(self, I, a):
        self._scheduled, self._fetches = [], []
        ev = stub("read_ev", update=noop)
        sg = SObj(self.module().Segmentation, {"_alive": a["alive"], "_hungry": False, "_active_segnum": a["active"], "_start_pause": None, "_read_ev": ev, "_lp": None})
        sg.fields["_fetch_next"] = stub("x", f=lambda I_, a_, k_: self._fetches.append(1)).fields["f"]
        I.call_value(self.target(I), [sg], {})
        hungry_after = sg.fields["_hungry"]
        if a["paused_again"]:
            I.call_value(I.get_attr(sg, "pauseProducing"), [], {})
        for fn, args in list(self._scheduled):
            I.call_value(fn, args, {})
        out = Outcome("return", sg)
        out.post = {"hungry_after": hungry_after}
        return out

    def ensures(self, I, a, out):
        may = a["alive"] and a["active"] is None and not a["paused_again"]
        return [("resuming-makes-the-read-hungry", z3.BoolVal(out.post["hungry_after"] is True)),
                ("one-step-is-scheduled-for-a-later-turn-none-runs-now", z3.BoolVal(len(self._scheduled) == 1)),
                ("the-scheduled-step-requests-a-segment-only-if-alive-hungry-and-nothing-is-in-flight", z3.BoolVal(len(self._fetches) == (1 if may else 0)))]

    def canary(self, I, a, out):
        return [("canary", z3.BoolVal(len(self._fetches) == 0))]


def extra_checks(rep, tier):
    from contracts import immutable_grid
    immutable_grid.grid_check(rep, tier, "C04")
    aes_check(rep, tier)


def aes_check(rep, tier):
    import random
    rng = random.Random(rep.seed * 17 + 4)
    offsets = list(range(0, 600)) + [2 ** k + d for k in range(4, 71) for d in (-1, 0, 1, 15, 16, 17)] + [rng.randrange(2 ** 70) for _ in range(1000 if tier == "quick" else 20000)]
    bad = decrypting_consumer_failures(offsets)
    name = "DecryptingConsumer:AES-CTR-is-positioned-at-block-offset//16-and-skips-offset%16-bytes"
    rep.obligations += 1
    rep.bounded_obligations += 1
    rep.paths += len(offsets)
    rep.sym_paths += len(offsets)
    rep.bounds.append("DecryptingConsumer: %d offsets (0..599, around every power of two up to 2**70, seeded random below 2**70)" % len(offsets))
    if not bad:
        rep.discharged += 1
        rep.discharged_names.add(name)
        return
    rep.violations.append({"property": "C04", "contract": "DecryptingConsumer", "obligation": name, "status": "runtime", "inputs": bad[0],
                           "native_outcome": "%d of %d offsets fail; first: %r" % (len(bad), len(offsets), bad[0]), "confirmed_on_real_code": True})


def contracts(tier):
    return [NodeRead(), GotSegment(), FetchNext(), ExtractRequests(), CancelRequest(), LiteralRead(), ResumeProducing()]
