"""C34 Introducer announcements are authentic and fresh -- contracts on introducer/common.unsign_from_foolscap and IntroducerClient"""
import z3
from pyvc.harness import Spec, IntK, StrK, ChoiceK, Outcome
from pyvc.interp import ModelFn
from pyvc.values import *  # noqa
from contracts.lib import *  # noqa
from pyvc.models_str import UTF8_DECODE

LEVEL = "other"
MANIFEST_ENTRY = {
    "text": "unsign_from_foolscap is proved for all message/signature/key strings: it returns only if the Ed25519 signature over THAT message verifies under the claimed key, returns that key and the JSON of that same message -- also on a second call after an arbitrary first call (module-level state cannot vouch for a different message). _process_announcement is executed over the enumerated shapes of stored/new announcements with symbolic sequence numbers: a stored announcement with a seqnum is replaced only by an integer seqnum that is strictly greater; identical announcements and uninteresting services change nothing; subscribers are notified exactly when the stored map changed. got_announcements: a rejected announcement never stops the rest of the batch.",
    "note": "Ed25519 verification is an uninterpreted predicate VALID(key, sig, msg); base32/JSON decoding are uninterpreted functions. Announcement dictionaries are shape-bounded (presence/type of seqnum, nickname), hence level 'other'.",
    "technique": "contract-based deductive verification (pyvc VCs + z3); announcement shapes enumerated",
}
EXPLANATION = "Signature gate as a dominance property over an uninterpreted verification predicate; sequence rule over dictionary shapes."
TRUSTED = ["ed25519.verify_signature raises BadSignature iff the signature is invalid (uninterpreted predicate)", "json/base32 decoding are functions of their input"]
ASSUMPTIONS = []
NOT_DECIDED = "introducer server side, foolscap transport, subscriber delivery order."
SS = z3.StringSort()
KEY = z3.Function("ed25519_key_from_string", SS, SS)
A2B = z3.Function("base32_a2b", SS, SS)
VALID = z3.Function("ed25519_valid", SS, SS, SS, z3.BoolSort())
JSON = z3.Function("json_loads", SS, SS)


def T(v):
    return as_sstr(v).term


def crypto_overrides(log):
    from allmydata.crypto.error import BadSignature

    def vk(I, a, kw):
        return SStr(KEY(T(a[0])), True)

    def verify(I, a, kw):
        ok = VALID(T(a[0]), T(a[1]), T(a[2]))
        log.append(("verify", a[0], a[1], a[2]))
        if not I.path.branch(ok):
            raise PyRaise(SObj(BadSignature, {"args": ()}))
        return None
    return {"ed25519.verifying_key_from_string": vk, "ed25519.verify_signature": verify,
            "base32.a2b": lambda I, a, kw: SStr(A2B(T(a[0])), True),
            "jsonbytes.loads": lambda I, a, kw: ("json", a[0]), "json.loads": lambda I, a, kw: ("json", a[0])}


class Unsign(Spec):
    file = "allmydata/introducer/common.py"
    qualname = "unsign_from_foolscap"
    cross_check = 0

    @property
    def raises(self):
        from allmydata.crypto.error import BadSignature
        from allmydata.introducer.common import UnknownKeyError
        return (BadSignature, UnknownKeyError, ValueError)

    def inputs(self):
        return {"msg": StrK(True), "sig": StrK(True), "key": StrK(True), "msg0": StrK(True), "sig0": StrK(True), "key0": StrK(True),
                "history": ChoiceK(["fresh", "after-another-call"])}

    def all_cases(self):
        return [{"history": "fresh"}, {"history": "after-another-call"}]

    def config(self):
        self._log = []
        return {"overrides": crypto_overrides(self._log), "ascii_only_strings": True}

    def run(self, I, a):
        if a["history"] == "after-another-call":
            try:
                I.call_value(self.target(I), [(a["msg0"], a["sig0"], a["key0"])], {})
            except PyRaise:
                pass
            del self._log[:]
        r = I.call_value(self.target(I), [(a["msg"], a["sig"], a["key"])], {})
        out = Outcome("return", r)
        out.post = {"log": list(self._log)}
        return out

    def ensures(self, I, a, out):
        if out.kind == "raise":
            return []
        (ann, key_vs) = out.value
        msg, sig, key = T(a["msg"]), T(a["sig"]), T(a["key"])
        sigbody = z3.SubString(sig, 3, z3.Length(sig) - 3)
        g = [("accepted-only-if-the-signature-over-this-message-verifies-under-the-claimed-key",
              VALID(KEY(z3.Concat(z3.StringVal("pub-"), key)), A2B(sigbody), msg)),
             ("attributed-to-the-claimed-key", T(key_vs) == key),
             ("announcement-is-the-json-of-the-verified-message", z3.BoolVal(False) if not (isinstance(ann, tuple) and ann[0] == "json")
              else z3.Or(T(ann[1]) == msg, T(ann[1]) == UTF8_DECODE(msg))),
             ("only-v0-signatures-and-keys", z3.And(z3.PrefixOf(z3.StringVal("v0-"), sig), z3.PrefixOf(z3.StringVal("v0-"), key)))]
        return g

    def canary(self, I, a, out):
        return [("canary", T(out.value[1]) == T(a["sig"]))]


ANN_SHAPES = ["int", "nonint", "absent"]


class ProcessAnnouncement(Spec):
    file = "allmydata/introducer/client.py"
    qualname = "IntroducerClient._process_announcement"
    level = "B"
    bound = "stored entry absent / present with or without seqnum; new announcement seqnum int / non-int / absent; identical or different content; subscribed or not"
    cross_check = 0
    canary_case = {"stored": "seqnum", "new": "int", "same_content": False, "subscribed": True}

    def inputs(self):
        return {"stored": ChoiceK(["absent", "seqnum", "noseqnum"]), "new": ChoiceK(ANN_SHAPES), "same_content": ChoiceK([False, True]),
                "subscribed": ChoiceK([True, False]), "old_seq": IntK(), "new_seq": IntK()}

    def all_cases(self):
        return [{"stored": s, "new": n, "same_content": c, "subscribed": sub} for s in ("absent", "seqnum", "noseqnum") for n in ANN_SHAPES
                for c in (False, True) for sub in (True, False)]

    def mk_ann(self, shape, seq, extra):
        d = {"service-name": "storage", "nickname": "nick", "payload": extra}
        if shape == "int":
            d["seqnum"] = seq
        elif shape == "nonint":
            d["seqnum"] = "7"
        return d

    def run(self, I, a):
        notified = []
        saved = []
        obs = stub("observers", notify=lambda I_, a_, k_: notified.append((a_[0], a_[1])))
        old = None
        inbound = {}
        idx = ("storage", b"v0-key")
        if a["stored"] != "absent":
            old = self.mk_ann("int" if a["stored"] == "seqnum" else "absent", a["old_seq"], "old-payload")
            inbound[idx] = (old, b"v0-key", 100)
        if a["same_content"] and old is not None:
            ann = dict(old)
        else:
            ann = self.mk_ann(a["new"], a["new_seq"], "new-payload")
        cl = SObj(self.module().IntroducerClient, {"_debug_counts": {k: 0 for k in ("inbound_announcement", "wrong_service", "duplicate_announcement", "update", "new_announcement")},
                                                   "_local_subscribers": ({"storage": obs} if a["subscribed"] else {}), "_inbound_announcements": inbound})
        cl.fields["log"] = ModelFn("log", lambda I_, a_, k_: None)
        cl.fields["_save_announcements"] = ModelFn("save", lambda I_, a_, k_: saved.append(1))
        I.cfg["clock_values"] = [z3.Int("now")]
        I.call_value(self.target(I), [cl, ann, b"v0-key"], {})
        out = Outcome("return", None)
        out.post = {"inbound": inbound, "old": old, "ann": ann, "notified": notified, "idx": idx, "saved": saved}
        return out

    def ensures(self, I, a, out):
        p = out.post
        cur = p["inbound"].get(p["idx"])
        replaced = cur is not None and cur[0] is p["ann"]
        identical = a["same_content"] and p["old"] is not None
        g = [("subscribers-notified-exactly-when-the-stored-announcement-changed", z3.BoolVal((len(p["notified"]) == 1) == replaced and len(p["notified"]) <= 1)),
             ("stored-map-persisted-exactly-when-changed", z3.BoolVal((len(p["saved"]) == 1) == replaced))]
        if not a["subscribed"] or identical:
            g.append(("uninteresting-or-identical-announcement-changes-nothing", z3.BoolVal(not replaced)))
        if replaced and a["stored"] == "seqnum":
            g.append(("replaces-a-sequenced-announcement-only-with-a-strictly-greater-integer-seqnum",
                      z3.And(z3.BoolVal(a["new"] == "int"), Z(a["new_seq"]) > Z(a["old_seq"]))))
        if (not replaced) and a["subscribed"] and not identical and a["stored"] == "seqnum" and a["new"] == "int":
            g.append(("a-newer-announcement-is-not-dropped", Z(a["new_seq"]) <= Z(a["old_seq"])))
        if a["subscribed"] and not identical and a["stored"] in ("absent", "noseqnum"):
            g.append(("first-or-unsequenced-entry-is-replaced", z3.BoolVal(replaced)))
        return g

    def canary(self, I, a, out):
        return [("canary", z3.BoolVal(len(out.post["notified"]) == 0))]


REJECTS = ["ok", "BadSignature", "UnknownKeyError", "ValueError", "AssertionError"]


class GotAnnouncements(Spec):
    file = "allmydata/introducer/client.py"
    qualname = "IntroducerClient.got_announcements"
    level = "B"
    bound = "batches of 2 announcements; the first is accepted or rejected in each of the ways unsign_from_foolscap can reject"
    cross_check = 5
    canary_case = {"first": "ok"}

    def inputs(self):
        return {"first": ChoiceK(REJECTS)}

    def all_cases(self):
        return [{"first": r} for r in REJECTS]

    def config(self):
        me = self

        def unsign(I, args, kw):
            ann_t = args[0]
            if ann_t == "first" and me._a["first"] != "ok":
                from allmydata.crypto.error import BadSignature
                from allmydata.introducer.common import UnknownKeyError
                cls = {"BadSignature": BadSignature, "UnknownKeyError": UnknownKeyError, "ValueError": ValueError, "AssertionError": AssertionError}[me._a["first"]]
                raise PyRaise(SObj(cls, {"args": ()}))
            return ({"service-name": "storage", "id": ann_t}, b"v0-key-" + ann_t.encode())
        ov = {"common.unsign_from_foolscap": unsign, "client.unsign_from_foolscap": unsign}
        return {"overrides": ov, "concrete_overrides": ov}

    def run(self, I, a):
        self._a = a
        processed = []
        cl = SObj(self.module().IntroducerClient, {"_debug_counts": {"inbound_message": 0}})
        cl.fields["log"] = ModelFn("log", lambda I_, a_, k_: None)
        cl.fields["_process_announcement"] = ModelFn("process", lambda I_, a_, k_: processed.append(a_[0]["id"]))
        try:
            I.call_value(self.target(I), [cl, ["first", "second"], None], {})
            out = Outcome("return", None)
        except PyRaise as pr:
            out = Outcome("raise", exc=pr.exc, exc_cls=pr.cls)
        out.post = {"processed": processed}
        return out

    raises = (Exception,)

    def native(self, a):
        import allmydata.introducer.client as C
        from allmydata.crypto.error import BadSignature
        from allmydata.introducer.common import UnknownKeyError
        processed = []

        def unsign(ann_t):
            if ann_t == "first" and a["first"] != "ok":
                raise {"BadSignature": BadSignature, "UnknownKeyError": UnknownKeyError, "ValueError": ValueError, "AssertionError": AssertionError}[a["first"]]()
            return ({"service-name": "storage", "id": ann_t}, b"v0-key-" + ann_t.encode())
        cl = object.__new__(C.IntroducerClient)
        cl._debug_counts = {"inbound_message": 0}
        cl.log = lambda *x, **k: None
        cl._process_announcement = lambda ann, key_s: processed.append(ann["id"])
        saved = C.unsign_from_foolscap
        C.unsign_from_foolscap = unsign
        try:
            out = native_outcome(lambda: cl.got_announcements(["first", "second"], None))
        finally:
            C.unsign_from_foolscap = saved
        out.post = {"processed": processed}
        return out

    def same_result(self, n, s):
        return n.post["processed"] == s.post["processed"]

    def ensures(self, I, a, out):
        want = ["second"] if a["first"] != "ok" else ["first", "second"]
        return [("a-rejected-announcement-does-not-stop-the-rest-of-the-batch", z3.BoolVal(out.kind == "return" and out.post["processed"] == want))]

    def canary(self, I, a, out):
        return [("canary", z3.BoolVal(out.post["processed"] == []))]


def key_identity_failures():
    """native run-time contract with the real ed25519 code: an announcement is attributed to ONE key identity -- any other
    spelling of the key field (whitespace, case, padding, doubled prefix) is rejected or mapped to the canonical string, so the
    per-key freshness rule cannot be side-stepped by re-presenting an old announcement under a "new" key"""
    from allmydata.crypto import ed25519
    from allmydata.introducer.common import sign_to_foolscap, unsign_from_foolscap
    bad, n = [], 0
    for i in range(6):
        sk, vk = ed25519.create_signing_keypair()
        ann_t = sign_to_foolscap({"service-name": "storage", "seqnum": i, "nickname": "n%d" % i}, sk)
        (msg, sig, key) = ann_t
        (ann, key_vs) = unsign_from_foolscap(ann_t)
        n += 1
        if key_vs != key:
            bad.append({"variant": "genuine", "returned_key": repr(key_vs)})
        for name, variant in (("trailing-space", key + b" "), ("trailing-newline", key + b"\n"), ("trailing-tab", key + b"\t"), ("leading-space-after-prefix", b"v0- " + key[3:]),
                              ("upper-case", b"v0-" + key[3:].upper()), ("padded", key + b"="), ("trailing-crlf", key + b"\r\n")):
            n += 1
            try:
                (ann2, key2) = unsign_from_foolscap((msg, sig, variant))
            except Exception:       # noqa
                continue
            if key2 != key:
                bad.append({"variant": name, "presented_key": repr(variant[-12:]), "attributed_to": repr(key2[-12:])})
    return bad, n


def extra_checks(rep, tier):
    bad, n = key_identity_failures()
    name = "KeyIdentity:an-accepted-announcement-is-attributed-to-the-canonical-string-of-the-key-that-signed-it"
    rep.obligations += 1
    rep.bounded_obligations += 1
    rep.paths += n
    rep.sym_paths += n
    rep.bounds.append("key identity: 6 fresh ed25519 keys x (genuine + 7 respellings of the key field), real sign/unsign (%d announcements, native)" % n)
    if not bad:
        rep.discharged += 1
        rep.discharged_names.add(name)
        return
    rep.violations.append({"property": "C34", "contract": "KeyIdentity", "obligation": name, "status": "runtime", "inputs": bad[0],
                           "native_outcome": "%d of %d announcements are accepted under a non-canonical key identity; first: %r" % (len(bad), n, bad[0]), "confirmed_on_real_code": True})


def contracts(tier):
    return [Unsign(), ProcessAnnouncement(), GotAnnouncements()]
