"""C02 Immutable downloads never return wrong bytes -- contracts on immutable/downloader/node.py (validate_and_store_UEB,
_parse_and_store_UEB, _check_ciphertext_hash), immutable/downloader/share.py (Share._satisfy_data_block,
CommonShare.check_block), hashtree.py (C35) and downloader/segmentation.py (C04)"""
import z3
from pyvc.harness import Spec, IntK, BoolK, BlobK, StrK, ChoiceK, Outcome
from pyvc.values import *  # noqa
from contracts.lib import *  # noqa
from contracts import C04, C35

LEVEL = "other"
MANIFEST_ENTRY = {
    "text": "Check-before-use contracts at every gate between a storage server's bytes and the reader, with the hash functions uninterpreted and the Merkle trees replaced by their own contract (C35, re-run here: a tree accepts a leaf only if it chains to the root it was seeded with, and a rejection leaves it unchanged). (1) validate_and_store_UEB parses and adopts a URI extension block only if uri_extension_hash(UEB) equals the hash in the capability, otherwise BadHashError and no state change. (2) _parse_and_store_UEB seeds the share hash tree and the ciphertext hash tree with the roots from that authenticated UEB and takes k and N from the capability, never from the UEB. (3) CommonShare.check_block accepts a block only through block_hash_tree.set_hashes(leaves={segnum: block_hash(block)}). (4) Share._satisfy_data_block notifies observers COMPLETE with a block only after check_block returned normally; on BadHashError / NotEnoughHashesError they get CORRUPT and no data. (5) _check_ciphertext_hash releases (offset, segment) only after ciphertext_hash_tree.set_hashes(leaves={segnum: crypttext_segment_hash(segment)}) accepted it, with offset = segnum * segment_size; otherwise BadCiphertextHashError. (6) DecryptingConsumer positions AES-CTR at block offset//16 and skips offset%16 bytes (bounded run-time contract of C04, re-run here), and Segmentation._got_segment (C04) writes to the consumer only the bytes of the released segment that start at the next wanted offset, so whatever was delivered before an error is a correct prefix.",
    "note": "Each gate is a function contract; that the gates are wired in this order (Share loop, SegmentFetcher, DownloadNode.fetch_failed/_got_segment callbacks) is a property of Deferred/observer plumbing that is not under contract (see C03). SHA-256d collision resistance is assumed. Offset-table sanity checks (_satisfy_offsets) are not under contract.",
    "technique": "contract-based deductive verification (pyvc VCs + z3) with callee contracts for the hash trees and uninterpreted hashes",
}
MANIFEST_ENTRY["text"] += " Bounded end-to-end stand-in (run-time contract, never counted as proved): contracts/immutable_grid.py encodes seeded files with the real Encoder, serves the shares from in-memory servers with per-share faults (missing, bit-flipped, truncated, header-truncated, another file's, another encoding's, dead or dying server, slow server) and checks every ImmutableFileNode.read (whole, ranged, concurrent, paused, next to a cancelled one, after failed reads) against the plaintext."
MANIFEST_ENTRY["technique"] += "; plus bounded end-to-end run-time scenario contracts on an in-process grid of the real components (stand-in, labelled bounded)"
EXPLANATION = "No data crosses a gate unless the corresponding hash check returned normally."
TRUSTED = ["SHA-256d collision resistance", "IncompleteHashTree per C35"]
ASSUMPTIONS = []
NOT_DECIDED = "the wiring of the gates (Share._loop, SegmentFetcher), _satisfy_offsets."
ND = "allmydata/immutable/downloader/node.py"
SH = "allmydata/immutable/downloader/share.py"
HU = z3.Function("uri_extension_hash", z3.StringSort(), SHash.SORT)
HB = z3.Function("block_hash", z3.StringSort(), SHash.SORT)
HC = z3.Function("crypttext_segment_hash", z3.StringSort(), SHash.SORT)
LOG = {"log.msg": lambda I, a, kw: 1, "node.now": lambda I, a, kw: 0, "share.now": lambda I, a, kw: 0, "failure.Failure": lambda I, a, kw: "failure", "node.Failure": lambda I, a, kw: "failure", "share.Failure": lambda I, a, kw: "failure"}


def tree_stub(name, log, I_choose=True):
    """callee contract of IncompleteHashTree.set_hashes: accepts, or raises BadHashError / NotEnoughHashesError (free choice)"""
    import allmydata.hashtree as HT

    def set_hashes(I, a, kw):
        entry = [name, a[0] if a else kw.get("hashes"), kw.get("leaves", a[1] if len(a) > 1 else None), "pending"]
        log.append(entry)
        c = I.path.choose(3)
        if c == 1:
            entry[3] = "BadHashError"
            raise PyRaise(HT.BadHashError("bad"), HT.BadHashError)
        if c == 2:
            entry[3] = "NotEnoughHashesError"
            raise PyRaise(HT.NotEnoughHashesError("few"), HT.NotEnoughHashesError)
        entry[3] = "ok"
    return stub(name, set_hashes=set_hashes)


class ValidateUEB(Spec):
    file = ND
    qualname = "DownloadNode.validate_and_store_UEB"
    cross_check = 0

    @property
    def raises(self):
        from allmydata.hashtree import BadHashError
        return (BadHashError,)

    def inputs(self):
        return {"ueb": BlobK(), "cap_hash_matches": BoolK()}

    def config(self):
        me = self
        o = dict(LOG)
        o["hashutil.uri_extension_hash"] = lambda I, a, kw: SHash(HU(as_sstr(a[0]).term))
        o["DownloadNode._parse_and_store_UEB"] = lambda I, a, kw: me._parsed.append(a[1])
        return {"overrides": o}

    def run(self, I, a):
        self._parsed, self._upd = [], []
        other = SHash(z3.Const("other_hash", SHash.SORT))
        caph = SHash(HU(as_sstr(a["ueb"]).term)) if I.path.branch(to_z3_bool(a["cap_hash_matches"])) else other
        self._same = caph is not other
        if not self._same:
            I.path.assume(other.term != HU(as_sstr(a["ueb"]).term))
        from allmydata.uri import CHKFileVerifierURI
        vcap = SObj(CHKFileVerifierURI, {"uri_extension_hash": caph, "needed_shares": 3, "total_shares": 10, "size": 100, "storage_index": b"s" * 16})
        sf = stub("sharefinder", update_num_segments=lambda I_, a_, k_: self._upd.append(1))
        n = SObj(self.module().DownloadNode, {"_verifycap": vcap, "_lp": None, "have_UEB": False, "_sharefinder": sf})
        try:
            out = Outcome("return", I.call_value(self.target(I), [n, a["ueb"]], {}))
        except PyRaise as pr:
            out = Outcome("raise", exc=pr.exc, exc_cls=pr.cls)
        out.post = {"n": n}
        return out

    def ensures(self, I, a, out):
        n = out.post["n"]
        if out.kind == "raise":
            return [("a-UEB-is-refused-only-if-its-hash-differs-from-the-capability", z3.BoolVal(not self._same)),
                    ("a-refused-UEB-leaves-no-trace", z3.BoolVal(not self._parsed and n.fields["have_UEB"] is False and not self._upd))]
        return [("a-UEB-is-adopted-only-if-its-hash-is-the-one-in-the-capability", z3.BoolVal(self._same)),
                ("the-adopted-UEB-is-the-one-that-was-hashed", z3.BoolVal(len(self._parsed) == 1 and self._parsed[0] is a["ueb"] and n.fields["have_UEB"] is True))]

    def canary(self, I, a, out):
        return [("canary", z3.BoolVal(not self._parsed))] if out.kind == "return" else []


class ParseUEBRoots(Spec):
    file = ND
    qualname = "DownloadNode._parse_and_store_UEB"
    cross_check = 0
    raises = ()
    no_normal_path_ok = False

    def inputs(self):
        return {"segsize": IntK(1), "k_ueb": IntK(1, 256), "n_ueb": IntK(1, 256), "guess_right": ChoiceK([False, True])}

    def all_cases(self):
        return [{"guess_right": False}, {"guess_right": True}]

    def config(self):
        me = self
        o = dict(LOG)
        o["uri.unpack_extension"] = lambda I, a, kw: me._d
        o["uri.unpack_extension_readable"] = lambda I, a, kw: {}
        o["DownloadNode._calculate_sizes"] = lambda I, a, kw: (me._calc.append(a[1]), {"tail_segment_size": 1, "tail_segment_padded": 3, "num_segments": 4, "block_size": 5, "tail_block_size": 1})[1]
        o["node.IncompleteHashTree"] = lambda I, a, kw: (me._newtrees.append(a[0]), me._ctree)[1]
        o["hashtree.IncompleteHashTree"] = o["node.IncompleteHashTree"]
        o["node.CRSDecoder"] = lambda I, a, kw: stub("codec", set_params=lambda I_, a_, k_: me._codec.append(tuple(a_)))
        o["codec.CRSDecoder"] = o["node.CRSDecoder"]
        return {"overrides": o}

    def run(self, I, a):
        self._log, self._calc, self._newtrees, self._codec = [], [], [], []
        self._ctree = tree_stub("ciphertext_hash_tree", self._log)
        stree = tree_stub("share_hash_tree", self._log)
        self._d = {"segment_size": a["segsize"], "needed_shares": a["k_ueb"], "total_shares": a["n_ueb"], "crypttext_root_hash": b"C" * 32, "share_root_hash": b"S" * 32, "size": 999}
        from allmydata.uri import CHKFileVerifierURI
        vcap = SObj(CHKFileVerifierURI, {"uri_extension_hash": b"h" * 32, "needed_shares": 3, "total_shares": 10, "size": 100, "storage_index": b"s" * 16})
        obs = stub("observers", fire=noop)
        # a guess made before the UEB arrived: right (4 segments, as _calculate_sizes will say) or wrong
        guessed = 4 if a["guess_right"] else 1
        n = SObj(self.module().DownloadNode, {"_verifycap": vcap, "_lp": None, "_segsize_observers": obs, "share_hash_tree": stree, "guessed_segment_size": 7, "guessed_num_segments": guessed,
                                             "ciphertext_hash_tree": tree_stub("guessed_ciphertext_hash_tree", self._log), "ciphertext_hash_tree_leaves": guessed, "num_segments": None})
        try:
            out = Outcome("return", I.call_value(self.target(I), [n, b"ueb-bytes"], {}))
        except PyRaise as pr:
            out = Outcome("raise", exc=pr.exc, exc_cls=pr.cls)
        out.post = {"n": n}
        return out

    @property
    def raises(self):
        from allmydata.hashtree import BadHashError, NotEnoughHashesError
        return (BadHashError, NotEnoughHashesError)

    def ensures(self, I, a, out):
        log = self._log
        roots = {e[0]: e[1] for e in log if isinstance(e[1], dict) and 0 in e[1]}
        ct = roots.get("ciphertext_hash_tree") or roots.get("guessed_ciphertext_hash_tree")
        g = [("ciphertext-tree-is-seeded-with-the-root-from-the-UEB-whether-or-not-the-segment-guess-was-right", z3.BoolVal(ct == {0: b"C" * 32})),
             ("encoding-parameters-come-from-the-capability-not-the-UEB", z3.BoolVal(len(self._codec) == 1 and self._codec[0][1:] == (3, 10)))]
        if out.kind == "return":
            g.append(("share-hash-tree-is-seeded-with-the-root-from-the-UEB", z3.BoolVal(roots.get("share_hash_tree") == {0: b"S" * 32})))
            g.append(("segment-size-is-the-UEBs", Z(out.post["n"].fields["segment_size"]) == Z(a["segsize"])))
        return g

    def canary(self, I, a, out):
        return [("canary", z3.BoolVal(len(self._log) < 2))] if out.kind == "return" else []


class CheckBlock(Spec):
    file = SH
    qualname = "CommonShare.check_block"
    cross_check = 0

    @property
    def raises(self):
        from allmydata.hashtree import BadHashError, NotEnoughHashesError
        return (BadHashError, NotEnoughHashesError)

    def inputs(self):
        return {"block": BlobK(), "segnum": IntK(0)}

    def config(self):
        o = dict(LOG)
        o["hashutil.block_hash"] = lambda I, a, kw: SHash(HB(as_sstr(a[0]).term))
        return {"overrides": o}

    def run(self, I, a):
        self._log = []
        cs = SObj(self.module().CommonShare, {"_block_hash_tree": tree_stub("block_hash_tree", self._log), "_block_hash_tree_is_authoritative": True})
        try:
            return Outcome("return", I.call_value(self.target(I), [cs, a["segnum"], a["block"]], {}))
        except PyRaise as pr:
            return Outcome("raise", exc=pr.exc, exc_cls=pr.cls)

    def ensures(self, I, a, out):
        from pyvc.models_ext import unwrap_key
        log = self._log
        ok = len(log) == 1 and isinstance(log[0][2], dict) and len(log[0][2]) == 1
        g = [("exactly-one-leaf-is-submitted-to-the-block-hash-tree", z3.BoolVal(ok))]
        if ok:
            (k, h), = log[0][2].items()
            g += [("the-leaf-is-this-segment-number", Z(unwrap_key(k)) == Z(a["segnum"])),
                  ("the-hash-is-the-block-hash-of-this-block", (h.term == HB(as_sstr(a["block"]).term)) if isinstance(h, SHash) else z3.BoolVal(False)),
                  ("a-block-is-accepted-exactly-when-the-tree-accepts-its-hash", z3.BoolVal((log[0][3] == "ok") == (out.kind == "return")))]
        return g

    def canary(self, I, a, out):
        return [("canary", z3.BoolVal(out.kind != "return"))]


class SatisfyDataBlock(Spec):
    file = SH
    qualname = "Share._satisfy_data_block"
    cross_check = 0
    raises = ()
    canary_case = {"have": True, "tail": False}

    def inputs(self):
        return {"have": ChoiceK([False, True]), "tail": ChoiceK([False, True]), "block": BlobK(), "segnum": IntK(0, 3), "dataoff": IntK(0), "bs": IntK(1), "tbs": IntK(1)}

    def all_cases(self):
        return [{"have": h, "tail": t} for h in (False, True) for t in (False, True)]

    def requires(self, I, a):
        return z3.And((Z(a["segnum"]) == 3) if a["tail"] else (Z(a["segnum"]) < 3), as_sstr(a["block"]).known_len >= 1)

    def config(self):
        me = self
        import allmydata.hashtree as HT
        o = dict(LOG)
        o["share.DataSpans"] = lambda I, a, kw: "fresh-dataspans"
        o["spans.DataSpans"] = o["share.DataSpans"]
        o["Share._signal_corruption"] = lambda I, a, kw: me._events.append(("advise-corrupt", a[2], a[3]))

        def check_block(I, a, kw):
            me._events.append(("check", a[0], a[1]))
            c = I.path.choose(3)
            if c == 1:
                raise PyRaise(HT.BadHashError("bad"), HT.BadHashError)
            if c == 2:
                raise PyRaise(HT.NotEnoughHashesError("few"), HT.NotEnoughHashesError)
            me._events.append(("check-ok",))
        me._check_block = check_block
        return {"overrides": o}

    def run(self, I, a):
        self._events = []
        M = self.module()

        def pop(I_, a_, k_):
            self._events.append(("pop", a_[0], a_[1]))
            return a["block"] if a["have"] else None
        rec = stub("received", pop=pop)
        node = stub("node", num_segments=4, block_size=a["bs"], tail_block_size=a["tbs"])
        obs = [stub("observer%d" % i, notify=(lambda I_, a_, k_, i=i: self._events.append(("notify", i, k_.get("state"), k_.get("block"))))) for i in range(2)]
        cs = stub("commonshare", check_block=self._check_block)
        sh = SObj(M.Share, {"_node": node, "actual_offsets": {"data": a["dataoff"]}, "_received": rec, "_requested_blocks": [(a["segnum"], "x"), (9, "y")], "_commonshare": cs,
                            "_lp": None, "had_corruption": False, "_shnum": 1})
        out = Outcome("return", I.call_value(self.target(I), [sh, a["segnum"], obs], {}))
        out.post = {"sh": sh}
        return out

    def ensures(self, I, a, out):
        M = self.module()
        ev = self._events
        sh = out.post["sh"]
        pops = [e for e in ev if e[0] == "pop"]
        g = [("the-block-is-read-at-its-place-in-the-share", z3.And(z3.BoolVal(len(pops) == 1), Z(pops[0][1]) == Z(a["dataoff"]) + Z(a["segnum"]) * Z(a["bs"]),
                                                                Z(pops[0][2]) == (Z(a["tbs"]) if a["tail"] else Z(a["bs"]))))]
        notes = [e for e in ev if e[0] == "notify"]
        if not a["have"]:
            return g + [("without-data-nobody-is-notified", z3.BoolVal(not notes and out.value is False))]
        checked_ok = ("check-ok",) in ev
        complete = [e for e in notes if e[2] == M.COMPLETE]
        g += [("the-block-is-checked-before-anyone-is-told", z3.BoolVal(len([e for e in ev if e[0] == "check"]) == 1 and ev.index([e for e in ev if e[0] == "check"][0]) < min([ev.index(e) for e in notes] or [10 ** 6]))),
              ("COMPLETE-with-data-only-after-a-successful-check", z3.BoolVal(bool(complete) == checked_ok and all(e[3] is a["block"] for e in complete))),
              ("a-failed-check-delivers-CORRUPT-and-no-data", z3.BoolVal(checked_ok or (len(notes) == 2 and all(e[2] == M.CORRUPT and e[3] is None for e in notes) and sh.fields["had_corruption"] is True))),
              ("every-observer-hears-the-verdict", z3.BoolVal(sorted(e[1] for e in notes) == [0, 1])),
              ("the-request-is-retired", z3.BoolVal(sh.fields["_requested_blocks"] == [(9, "y")] and out.value is True))]
        return g

    def canary(self, I, a, out):
        return [("canary", z3.BoolVal(("check-ok",) not in self._events))]


class CheckCiphertextHash(Spec):
    file = ND
    qualname = "DownloadNode._check_ciphertext_hash"
    cross_check = 0

    @property
    def raises(self):
        from allmydata.immutable.downloader.common import BadCiphertextHashError
        return (BadCiphertextHashError,)

    def inputs(self):
        return {"segment": BlobK(), "segnum": IntK(0), "segsize": IntK(1)}

    def config(self):
        o = dict(LOG)
        o["hashutil.crypttext_segment_hash"] = lambda I, a, kw: SHash(HC(as_sstr(a[0]).term))
        return {"overrides": o}

    def run(self, I, a):
        self._log = []
        ds = stub("download_status", add_misc_event=noop)
        n = SObj(self.module().DownloadNode, {"_active_segment": stub("fetcher", segnum=a["segnum"]), "segment_size": a["segsize"], "ciphertext_hash_tree": tree_stub("ciphertext_hash_tree", self._log),
                                             "_download_status": ds, "_si_prefix": "abc", "_lp": None})
        try:
            return Outcome("return", I.call_value(self.target(I), [n, (a["segment"], 0.5), a["segnum"]], {}))
        except PyRaise as pr:
            return Outcome("raise", exc=pr.exc, exc_cls=pr.cls)

    def ensures(self, I, a, out):
        from pyvc.models_ext import unwrap_key
        log = self._log
        ok = len(log) == 1 and isinstance(log[0][2], dict) and len(log[0][2]) == 1
        g = [("exactly-one-leaf-is-submitted-to-the-ciphertext-hash-tree", z3.BoolVal(ok))]
        if ok:
            (k, h), = log[0][2].items()
            g += [("the-leaf-is-this-segment-number", Z(unwrap_key(k)) == Z(a["segnum"])),
                  ("the-hash-is-the-ciphertext-hash-of-this-segment", (h.term == HC(as_sstr(a["segment"]).term)) if isinstance(h, SHash) else z3.BoolVal(False)),
                  ("a-segment-is-released-exactly-when-the-tree-accepts-its-hash", z3.BoolVal((log[0][3] == "ok") == (out.kind == "return")))]
        if out.kind == "return":
            off, seg, dt = out.value
            g += [("the-released-segment-is-the-checked-one", z3.BoolVal(seg is a["segment"])), ("its-offset-is-segnum-times-segment-size", Z(off) == Z(a["segnum"]) * Z(a["segsize"]))]
        return g

    def canary(self, I, a, out):
        return [("canary", z3.BoolVal(out.kind != "return"))]


def extra_checks(rep, tier):
    # wrong plaintext is wrong bytes too: the AES-CTR positioning contract of C04 is re-run under this property
    n0 = len(rep.violations)
    C04.aes_check(rep, tier)
    for v in rep.violations[n0:]:
        v["property"] = "C02"
    from contracts import immutable_grid
    immutable_grid.grid_check(rep, tier, "C02")


def contracts(tier):
    return [ValidateUEB(), ParseUEBRoots(), CheckBlock(), SatisfyDataBlock(), CheckCiphertextHash(), C04.GotSegment()] + C35.contracts(tier)
