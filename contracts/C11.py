"""C11 Mutable version ordering and rollback resistance -- contracts on mutable/servermap.py ServerMap and Publish seqnum choice"""
import itertools
import z3
from pyvc.harness import Spec, IntK, ChoiceK, Outcome
from pyvc.values import *  # noqa
from contracts.lib import *  # noqa

LEVEL = "other"
MANIFEST_ENTRY = {
    "text": "ServerMap's version queries are executed on every placement of up to 3 located shares over the grid {(s0,0),(s1,0),(s1,1),(s2,2)} and two versions whose sequence numbers, k and N are unconstrained integers: recoverable/unrecoverable partition by distinct share numbers >= k, best_recoverable_version = the recoverable version with the highest (seqnum, root hash), highest_seqnum = max over ALL located versions (0 if none), unrecoverable_newer_versions = exactly the unrecoverable versions newer than every recoverable one, needs_merge <=> two recoverable versions share a seqnum; and Publish picks new seqnum = highest_seqnum()+1.",
    "note": "Shape-bounded (<= 3 located shares, 2 versions; all numbers symbolic), hence level 'other'. ServermapUpdater._check_for_done's MODE_READ stopping rule is under contract (one decision step); the query scheduling around it is not.",
    "technique": "contract-based deductive verification (pyvc VCs + z3) over enumerated servermap shapes",
}
MANIFEST_ENTRY["text"] += ' Bounded end-to-end stand-in (run-time contract, never counted as proved): contracts/grid_mutable.py publishes 1..4 versions (plus a competing one) of SDMF/MDMF files on real StorageServers, composes the final disk state slot by slot from snapshots (newest/older/competing/deleted/bit-flipped/truncated/foreign), and checks reads, the MODE_READ survey, check/verify, repair with and without force, overwrite with failing servers and two concurrent writers against the ground truth on disk.'
MANIFEST_ENTRY["technique"] += "; plus bounded end-to-end run-time scenario contracts on an in-process grid of the real components (stand-in, labelled bounded)"
EXPLANATION = "Enumerated share placements, symbolic sequence numbers and thresholds."
TRUSTED = []
ASSUMPTIONS = []
NOT_DECIDED = "ServermapUpdater._check_for_done query scheduling; replaying servers."
F = "allmydata/mutable/servermap.py"
GRID = [("s0", 0), ("s1", 0), ("s1", 1), ("s2", 2)]


def placements(maxshares=3):
    out = []
    for m in range(0, maxshares + 1):
        for keys in itertools.combinations(range(len(GRID)), m):
            for vers in itertools.product("AB", repeat=m):
                out.append(tuple(zip(keys, vers)))
    return out


def verinfo(a, v):
    return (a["seq" + v], v.encode(), b"IV", 1000, a["len" + v], a["k" + v], a["N"], b"prefix" + v.encode(), ())


class _SM(Spec):
    file = F
    level = "B"
    bound = "<= 3 located shares on the grid {(s0,0),(s1,0),(s1,1),(s2,2)}, 2 versions; seqnums, k, N symbolic"
    cross_check = 0
    method = None

    @property
    def qualname(self):
        return "ServerMap." + self.method

    def inputs(self):
        return {"placement": ChoiceK([()]), "seqA": IntK(0), "seqB": IntK(0), "kA": IntK(1), "kB": IntK(1), "N": IntK(1), "lenA": IntK(0), "lenB": IntK(0)}

    def all_cases(self):
        return [{"placement": p} for p in placements()]

    def mk(self, I, a):
        known = {}
        for (ki, v) in a["placement"]:
            known[GRID[ki]] = (verinfo(a, v), 1234)
        return SObj(self.module().ServerMap, {"_known_shares": known})

    def stats(self, a):
        """per version: (present, number of distinct share numbers)"""
        st = {}
        for v in "AB":
            shnums = set(GRID[ki][1] for (ki, vv) in a["placement"] if vv == v)
            st[v] = (any(vv == v for _, vv in a["placement"]), len(shnums))
        return st

    def rec(self, a, v):
        present, n = self.stats(a)[v]
        return z3.And(z3.BoolVal(present), n >= Z(a["k" + v]))

    def unrec(self, a, v):
        present, n = self.stats(a)[v]
        return z3.And(z3.BoolVal(present), n < Z(a["k" + v]))

    def run(self, I, a):
        return I.call_value(self.target(I), [self.mk(I, a)], {})

    def has(self, coll, a, v):
        """is verinfo of version v in the returned collection (concrete membership by root hash)"""
        from pyvc.models_ext import unwrap_key
        return any(isinstance(unwrap_key(x), tuple) and unwrap_key(x)[1] == v.encode() for x in coll)


class Recoverable(_SM):
    method = "recoverable_versions"

    def ensures(self, I, a, out):
        return [("version-%s-recoverable-iff-k-distinct-shares" % v, z3.BoolVal(self.has(out.value, a, v)) == self.rec(a, v)) for v in "AB"]

    def canary(self, I, a, out):
        return [("canary", z3.BoolVal(len(out.value) == 0))]

    canary_case = {"placement": ((0, "A"), (2, "A"))}


class Unrecoverable(_SM):
    method = "unrecoverable_versions"

    def ensures(self, I, a, out):
        return [("version-%s-unrecoverable-iff-fewer-than-k-distinct-shares" % v, z3.BoolVal(self.has(out.value, a, v)) == self.unrec(a, v)) for v in "AB"]


class SharesAvailable(_SM):
    method = "shares_available"

    def ensures(self, I, a, out):
        g = []
        from pyvc.models_ext import unwrap_key
        d = {unwrap_key(k)[1]: v for k, v in out.value.items()}
        for v in "AB":
            present, n = self.stats(a)[v]
            g.append(("version-%s-listed-iff-located" % v, z3.BoolVal((v.encode() in d) == present)))
            if v.encode() in d:
                cnt, k, N = d[v.encode()]
                g.append(("version-%s-count-is-DISTINCT-share-numbers" % v, z3.And(Z(cnt) == n, Z(k) == Z(a["k" + v]), Z(N) == Z(a["N"]))))
        return g


class Best(_SM):
    method = "best_recoverable_version"

    def ensures(self, I, a, out):
        rA, rB = self.rec(a, "A"), self.rec(a, "B")
        sA, sB = Z(a["seqA"]), Z(a["seqB"])
        r = out.value
        if r is None:
            return [("none-only-if-nothing-is-recoverable", z3.Not(z3.Or(rA, rB)))]
        which = "A" if r[1] == b"A" else "B"
        other = "B" if which == "A" else "A"
        # (seqnum, root_hash) order; root hashes are b"A" < b"B"
        beats = (Z(a["seq" + which]) > Z(a["seq" + other])) if which == "A" else (Z(a["seq" + which]) >= Z(a["seq" + other]))
        return [("best-version-is-recoverable", self.rec(a, which)),
                ("best-version-has-the-highest-seqnum-among-recoverable", z3.Implies(self.rec(a, other), beats))]

    def canary(self, I, a, out):
        return [("canary", z3.BoolVal(out.value is None))]

    canary_case = {"placement": ((0, "A"), (2, "A"))}


class HighestSeqnum(_SM):
    method = "highest_seqnum"

    def ensures(self, I, a, out):
        st = self.stats(a)
        cands = [z3.IntVal(0)] + [Z(a["seq" + v]) for v in "AB" if st[v][0]]
        m = cands[0]
        for c in cands[1:]:
            m = z3.If(c > m, c, m)
        return [("highest-seqnum-is-max-over-ALL-located-versions", Z(out.value) == m)]

    def canary(self, I, a, out):
        return [("canary", Z(out.value) == 0)]

    canary_case = {"placement": ((0, "A"),)}


class UnrecoverableNewer(_SM):
    method = "unrecoverable_newer_versions"

    def ensures(self, I, a, out):
        from pyvc.models_ext import unwrap_key
        got = set(unwrap_key(k)[1] for k in out.value.keys())
        g = []
        for v, o in (("A", "B"), ("B", "A")):
            want = z3.And(self.unrec(a, v), z3.Implies(self.rec(a, o), Z(a["seq" + v]) > Z(a["seq" + o])))
            g.append(("version-%s-reported-iff-unrecoverable-and-newer-than-every-recoverable" % v, z3.BoolVal(v.encode() in got) == want))
        return g


class NeedsMerge(_SM):
    method = "needs_merge"

    def ensures(self, I, a, out):
        r = out.value
        r = z3.BoolVal(r) if isinstance(r, bool) else r
        return [("needs-merge-iff-two-recoverable-versions-share-a-seqnum", r == z3.And(self.rec(a, "A"), self.rec(a, "B"), Z(a["seqA"]) == Z(a["seqB"])))]


class ReadKeepsQuerying(_SM):
    """ServermapUpdater._check_for_done in MODE_READ, enough servers queried, more servers available: the survey ends only
    when some version is recoverable and no located unrecoverable version is newer than the best recoverable one;
    otherwise more queries are sent."""
    method = "_check_for_done"
    canary_case = {"placement": ((0, "A"), (2, "A"))}

    @property
    def qualname(self):
        return "ServermapUpdater._check_for_done"

    def run(self, I, a):
        mod = self.module()
        calls = []
        upd = SObj(mod.ServermapUpdater, {"mode": mod.MODE_READ, "_running": True, "_must_query": set(), "_queries_outstanding": set(),
                                          "extra_servers": ["another-server"], "_need_privkey": False, "_queries_completed": 10,
                                          "num_servers_to_query": 5, "_servermap": self.mk(I, a)})
        upd.fields["log"] = ModelFn_("log", lambda I_, a_, k_: None)
        upd.fields["_done"] = ModelFn_("_done", lambda I_, a_, k_: calls.append("done"))
        upd.fields["_send_more_queries"] = ModelFn_("_send_more_queries", lambda I_, a_, k_: calls.append("more"))
        I.call_value(self.target(I), [upd, None], {})
        out = Outcome("return", None)
        out.post = {"calls": calls}
        return out

    def ensures(self, I, a, out):
        calls = out.post["calls"]
        rA, rB, uA, uB = self.rec(a, "A"), self.rec(a, "B"), self.unrec(a, "A"), self.unrec(a, "B")
        sA, sB = Z(a["seqA"]), Z(a["seqB"])
        some_rec = z3.Or(rA, rB)
        newer_unrec = z3.Or(z3.And(uA, rB, sA > sB), z3.And(uB, rA, sB > sA))
        may_stop = z3.And(some_rec, z3.Not(newer_unrec))
        return [("exactly-one-decision", z3.BoolVal(calls in (["done"], ["more"]))),
                ("stops-only-with-a-recoverable-version-and-no-newer-unrecoverable-one", z3.BoolVal(calls == ["done"]) == may_stop)]

    def canary(self, I, a, out):
        return [("canary", z3.BoolVal(out.post["calls"] == ["more"]))]


def ModelFn_(name, fn):
    from pyvc.interp import ModelFn
    return ModelFn(name, fn)


class PublishSeqnum(Spec):
    """Publish.publish / Publish.update choose _new_seqnum = servermap.highest_seqnum() + 1 (structural data-flow check on the
    two assignment sites: the only assignments to _new_seqnum in mutable/publish.py)."""
    file = "allmydata/mutable/publish.py"
    qualname = "Publish.publish"
    cross_check = 0

    def inputs(self):
        return {"h": IntK(0)}

    def run(self, I, a):
        import ast
        from pyvc.interp import parse_file
        tree, src = parse_file(self.path())
        sites = []
        for node in ast.walk(tree):
            if isinstance(node, ast.Assign):
                for t in node.targets:
                    if isinstance(t, ast.Attribute) and t.attr == "_new_seqnum":
                        guard = None
                        par = getattr(node, "_parent", None)
                        if isinstance(par, ast.If) and node in par.orelse:
                            guard = "else of: if " + ast.unparse(par.test)
                        sites.append((ast.unparse(node.value).replace(" ", ""), guard))
        return sites

    def ensures(self, I, a, out):
        sites = out.value
        plus1 = [x for x in sites if x[0] == "self._servermap.highest_seqnum()+1"]
        fresh = [x for x in sites if x == ("1", "else of: if self._servermap")]      # brand-new file: nothing was observed
        ok = len(plus1) >= 2 and len(plus1) + len(fresh) == len(sites)
        return [("every-assignment-of-the-new-seqnum-is-highest_seqnum()+1", z3.BoolVal(ok))]


def extra_checks(rep, tier):
    from contracts import grid_mutable
    grid_mutable.grid_check(rep, tier, "C11")


def contracts(tier):
    return [Recoverable(), Unrecoverable(), SharesAvailable(), Best(), HighestSeqnum(), UnrecoverableNewer(), NeedsMerge(), ReadKeepsQuerying(), PublishSeqnum()]
