"""C40 Web API byte-range downloads follow RFC 7233 -- contracts on web/filenode.py FileDownloader.render / parse_range_header"""
import z3
from pyvc.harness import Spec, IntK, StrK, ChoiceK, Outcome
from pyvc.values import *  # noqa
from contracts.lib import *  # noqa

LEVEL = "other"
MANIFEST_ENTRY = {
    "text": "render() is proved for every file size and every parsed (first,last): 206 with Content-Range 'bytes max(0,first)-min(size-1,last)/size', Content-Length last'-first'+1 and a read of exactly that range; 416 when first >= size; no status, full length and a whole-file read when the header is absent or unparseable; HEAD gives the same status and headers with an empty body and no read. parse_range_header is checked on header shapes (bytes=F-L, bytes=F-, bytes=-L, two ranges, other unit, and concrete garbage) with symbolic digit strings and file size -- a shape bound, hence level 'other'.",
    "note": "Request/response objects are recording stubs; static.getTypeAndEncoding is opaque. int() leniencies ('+5', ' 5', '1_0') are outside the digit-string shapes and not claimed. Reading of literal/immutable/mutable files themselves is C04/C09.",
    "technique": "contract-based deductive verification (pyvc VCs + z3 strings); header shapes bounded",
}
EXPLANATION = "render() unbounded over integers; header parsing over enumerated shapes with symbolic numerals."
TRUSTED = ["twisted request API as recorded by the stub"]
ASSUMPTIONS = []
NOT_DECIDED = "multipart/byteranges (only the first range is served, by design); int() leniencies."
F = "allmydata/web/filenode.py"


def mk_req(method, rangeheader, log):
    return stub("req", setHeader=lambda I, a, kw: log.append(("header", a[0], a[1])), setResponseCode=lambda I, a, kw: log.append(("code", a[0])),
                getHeader=lambda I, a, kw: rangeheader if a[0] == "range" else None, method=method, args={}, fields=None)


class Render(Spec):
    file = F
    qualname = "FileDownloader.render"
    canary_case = {"method": b"GET", "hdr": "parsed", "empty": False}
    cross_check = 60

    @property
    def raises(self):
        from allmydata.web.common import WebError
        return (WebError,)

    def inputs(self):
        return {"size": IntK(0, rnd=lambda r: r.randint(0, 300)), "first": IntK(rnd=lambda r: r.randint(-20, 320)), "last": IntK(rnd=lambda r: r.randint(-20, 320)),
                "method": ChoiceK([b"GET", b"HEAD"]), "hdr": ChoiceK(["absent", "unparseable", "parsed"]), "empty": ChoiceK([False, True])}

    def all_cases(self):
        return [{"method": m, "hdr": h, "empty": e} for m in (b"GET", b"HEAD") for h in ("absent", "unparseable", "parsed") for e in (False, True)]

    def requires(self, I, a):
        # last >= first is what parse_range_header guarantees (see ParseRange); empty files are a separate case
        f, l, sz = Z(a["first"]), Z(a["last"]), Z(a["size"])
        shape = z3.Or(z3.And(f >= 0, l >= 0), z3.And(f < sz, l == sz - 1))      # byte-range-spec | suffix-byte-range-spec
        return z3.And(l >= f, shape, (sz == 0) if a["empty"] else (sz >= 1))

    def native(self, a):
        from allmydata.web.filenode import FileDownloader
        from allmydata.web.common import WebError
        import types
        log, reads = [], []

        class Req(object):
            method = a["method"]
            args = {}
            fields = None
            startedWriting = False

            def setHeader(s, k, v):
                log.append(("header", k, v))

            def setResponseCode(s, c):
                log.append(("code", c))

            def getHeader(s, k):
                return None if (a["hdr"] == "absent" or k != "range") else "bytes=whatever"

        class D(object):
            def addCallback(s, *x, **k):
                return s
            addErrback = addBoth = addCallbacks = addCallback
        fd = object.__new__(FileDownloader)
        fd.filename = "f.txt"
        fd.filenode = types.SimpleNamespace(get_size=lambda: a["size"], read=lambda req, first, size: (reads.append((req, first, size)), D())[1])
        fd.parse_range_header = lambda h: None if a["hdr"] == "unparseable" else [(a["first"], a["last"]), (0, 0)]
        import inspect
        real = inspect.unwrap(FileDownloader.render)
        out = native_outcome(lambda: real(fd, Req()))
        if out.kind == "raise" and isinstance(out.exc, WebError):
            e = out.exc
            out.exc = types.SimpleNamespace(fields={"code": e.code})
        out.post = {"log": log, "reads": reads}
        return out

    def same_result(self, n, s):
        return True

    def config(self):
        me = self

        def prh(I, args, kw):
            return None if me._a["hdr"] == "unparseable" else [(me._a["first"], me._a["last"]), (0, 0)]
        return {"overrides": {"static.getTypeAndEncoding": lambda I, a, kw: ("text/plain", None), "common.get_arg": lambda I, a, kw: b"False",
                              "FileDownloader.parse_range_header": prh}}

    def run(self, I, a):
        self._a = a
        log, reads = [], []
        req = mk_req(a["method"], None if a["hdr"] == "absent" else "bytes=whatever", log)
        node = stub("filenode", get_size=lambda I_, a_, k_: a["size"],
                    read=lambda I_, a_, k_: (reads.append(tuple(a_)), stub("deferred", addCallback=noop, addErrback=noop, addBoth=noop, addCallbacks=noop))[1])
        fd = SObj(self.module().FileDownloader, {"filenode": node, "filename": "f.txt"})
        try:
            out = Outcome("return", I.call_value(self.target(I), [fd, req], {}))
        except PyRaise as pr:
            out = Outcome("raise", exc=pr.exc, exc_cls=pr.cls)
        out.post = {"log": log, "reads": reads, "req": req}
        return out

    def ensures(self, I, a, out):
        log, reads = out.post["log"], out.post["reads"]
        size, first, last = Z(a["size"]), Z(a["first"]), Z(a["last"])
        codes = [e[1] for e in log if e[0] == "code"]
        hdr = {e[1]: e[2] for e in log if e[0] == "header"}
        if out.kind == "raise":
            return [("416-only-for-a-parsed-range-starting-at-or-beyond-the-end", z3.And(z3.BoolVal(a["hdr"] == "parsed"), first >= size)),
                    ("error-status-is-416", z3.BoolVal(out.exc.fields.get("code") == 416)),
                    ("nothing-read-on-416", z3.BoolVal(not reads))]
        g = []
        if a["hdr"] != "parsed":
            g += [("no-range-means-plain-200-and-full-length", z3.And(z3.BoolVal(not codes and "content-range" not in hdr), as_sstr(hdr["content-length"]).term == z3.IntToStr(size)))]
            if a["method"] == b"GET":
                g.append(("no-range-reads-the-whole-file", z3.BoolVal(len(reads) == 1 and reads[0][1] == 0 and reads[0][2] is None)))
        else:
            f2 = z3.If(first > 0, first, 0)
            l2 = z3.If(last < size - 1, last, size - 1)
            want_cr = z3.Concat(z3.StringVal("bytes "), z3.IntToStr(f2), z3.StringVal("-"), z3.IntToStr(l2), z3.StringVal("/"), z3.IntToStr(size))
            sfx = "-on-an-empty-file" if a["empty"] else ""
            g += [("range-not-past-the-end", first < size),
                  ("206-carries-a-non-empty-byte-range" + sfx, f2 <= l2),
                  ("206-partial-content", z3.BoolVal(codes == [206])),
                  ("content-range-is-the-clipped-range-over-the-size" + sfx, as_sstr(hdr.get("content-range", "")).term == want_cr),
                  ("content-length-is-the-clipped-length" + sfx, as_sstr(hdr["content-length"]).term == z3.IntToStr(l2 - f2 + 1))]
            if a["method"] == b"GET":
                g.append(("reads-exactly-the-clipped-range", z3.And(z3.BoolVal(len(reads) == 1), Z(reads[0][1]) == f2, Z(reads[0][2]) == l2 - f2 + 1) if len(reads) == 1 and reads[0][2] is not None else z3.BoolVal(False)))
        g.append(("accept-ranges-advertised", z3.BoolVal(hdr.get("accept-ranges") == "bytes")))
        if a["method"] == b"HEAD":
            g.append(("HEAD-has-empty-body-and-reads-nothing", z3.BoolVal(out.value == b"" and not reads)))
        return g

    def canary(self, I, a, out):
        return [("canary", Z(out.post["reads"][0][1]) == Z(a["first"]))]


SHAPES = ["F-L", "F-", "-L", "F-L,F2-L2", "unit", "garbage"]
GARBAGE = ["bytes=", "bytes=,", "bytes= , ", "bytes=,,,", "bytes", "", "bytes=a-b", "bytes=5", "bytes=--5", "bits=0-1"]
DIG = z3.Plus(z3.Range("0", "9"))


class ParseRange(Spec):
    file = F
    qualname = "FileDownloader.parse_range_header"
    level = "B"
    bound = "header shapes bytes=F-L | bytes=F- | bytes=-L | bytes=F-L,F2-L2 | <other unit>=F-L | 10 concrete garbage headers; F, L arbitrary ASCII digit strings, any size"
    cross_check = 60
    timeout_s = 40
    canary_case = {"shape": "F-L", "garbage": None}

    def inputs(self):
        dk = lambda: StrK(False, alphabet="0123456789", rndmax=4)
        return {"size": IntK(0, rnd=lambda r: r.randint(0, 300)), "F": dk(), "L": dk(), "F2": dk(), "L2": dk(), "shape": ChoiceK(SHAPES), "garbage": ChoiceK(GARBAGE)}

    def all_cases(self):
        return [{"shape": s, "garbage": None} for s in SHAPES[:-1]] + [{"shape": "garbage", "garbage": g} for g in GARBAGE]

    def requires(self, I, a):
        if I is None:
            return z3.BoolVal(all(a[k] != "" for k in ("F", "L", "F2", "L2")))
        return z3.And([z3.InRe(as_sstr(a[k]).term, DIG) for k in ("F", "L", "F2", "L2")])

    def header(self, a):
        sh = a["shape"]
        if sh == "garbage":
            return a["garbage"]
        parts = {"F-L": ["bytes=", a["F"], "-", a["L"]], "F-": ["bytes=", a["F"], "-"], "-L": ["bytes=-", a["L"]],
                 "F-L,F2-L2": ["bytes=", a["F"], "-", a["L"], ",", a["F2"], "-", a["L2"]], "unit": ["items=", a["F"], "-", a["L"]]}[sh]
        if all(isinstance(p, str) for p in parts):
            return "".join(parts)
        return SStr(z3.Concat(*[as_sstr(p).term for p in parts]), False)

    def config(self):
        d = "0123456789"
        return {"ascii_only_strings": True, "atoms": {"F": (d, 1), "L": (d, 1), "F2": (d, 1), "L2": (d, 1)}}

    def run(self, I, a):
        node = stub("filenode", get_size=lambda I_, a_, k_: a["size"])
        fd = SObj(self.module().FileDownloader, {"filenode": node})
        return I.call_value(self.target(I), [fd, self.header(a)], {})

    def native(self, a):
        from allmydata.web.filenode import FileDownloader
        import types
        fd = object.__new__(FileDownloader)
        fd.filenode = types.SimpleNamespace(get_size=lambda: a["size"])
        return native_outcome(lambda: fd.parse_range_header(self.header(a)))

    def num(self, a, k):
        v = a[k]
        return int(v) if isinstance(v, str) else z3.StrToInt(as_sstr(v).term)

    def ensures(self, I, a, out):
        r = out.value
        size = Z(a["size"])
        sh = a["shape"]
        if sh in ("garbage", "unit"):
            return [("unparseable-header-is-ignored", z3.BoolVal(r is None))]
        F_, L_ = Z(self.num(a, "F")), Z(self.num(a, "L"))
        if sh in ("F-L", "F-L,F2-L2"):
            first, last = F_, L_
        elif sh == "F-":
            first, last = F_, size - 1
        else:
            first, last = size - L_, size - 1
        ok = last >= first
        if sh == "F-L,F2-L2":
            ok = z3.And(ok, Z(self.num(a, "L2")) >= Z(self.num(a, "F2")))
        if r is None:
            return [("ignored-only-when-a-range-is-unsatisfiable-by-syntax", z3.Not(ok))]
        g = [("accepted-only-well-formed-ranges", ok), ("one-tuple-per-range", z3.BoolVal(len(r) == (2 if sh == "F-L,F2-L2" else 1)))]
        g.append(("first-range-has-the-RFC-meaning", z3.And(Z(r[0][0]) == first, Z(r[0][1]) == last)))
        return g

    def canary(self, I, a, out):
        return [("canary", z3.BoolVal(out.value is None))]

    def same_result(self, n, s):
        from pyvc.runner import plain_equal
        return plain_equal(n.value, s.value)


def contracts(tier):
    return [Render(), ParseRange()]
