"""C32 Servers are ordered consistently and upload permission is enforced -- contracts on storage_client.py"""
import itertools
import z3
from pyvc.harness import Spec, IntK, BoolK, StrK, ChoiceK, Outcome
from pyvc.interp import ModelFn
from pyvc.values import *  # noqa
from contracts.lib import *  # noqa

LEVEL = "other"
MANIFEST_ENTRY = {
    "text": "get_servers_for_psi is executed for up to 3 connected servers (every preferred subset, symbolic permutation hashes and upload-permission flags, both for_upload settings): the result is exactly the connected (and, for uploads, permitted) servers, preferred ones first, each group ascending by hash(storage index + the server's seed) -- a function of the inputs only, whatever order the server set is iterated in. _parse_announcement: the permutation seed is the announced 'permutation-seed-base32' whenever present, else the v0- public key, else a hash of the id (so every client derives the same seed). upload_permitted (both server classes) is the grid-manager verifier's answer, True only without a verifier; _make_storage_server hands the verifier built from the configured keys and the server's certificates to BOTH server classes.",
    "note": "Shape-bounded (<= 3 servers), hence level 'other'. SHA-1 ordering is modelled by an uninterpreted injective integer-valued hash. The verifier itself is C33.",
    "technique": "contract-based deductive verification (pyvc VCs + z3); number of servers bounded",
}
EXPLANATION = "Sort order and filtering of the server list; seed precedence; verifier plumbing."
TRUSTED = ["sha1 modelled as an uninterpreted hash with a total order on digests"]
ASSUMPTIONS = ["distinct servers have distinct permutation hashes"]
NOT_DECIDED = "Publish.update_goal / Tahoe2ServerSelector consumption of the list."
F = "allmydata/storage_client.py"


class ServersForPsi(Spec):
    file = F
    qualname = "StorageFarmBroker.get_servers_for_psi"
    level = "B"
    bound = "<= 3 connected servers; every preferred subset; hashes and permission flags symbolic"
    cross_check = 0
    canary_case = {"n": 3, "pref": (True, False, False), "for_upload": True, "order": (2, 0, 1)}

    def inputs(self):
        return {"n": ChoiceK([0, 1, 2, 3]), "pref": ChoiceK([()]), "for_upload": ChoiceK([False, True]), "order": ChoiceK([()]),
                "h0": IntK(), "h1": IntK(), "h2": IntK(), "p0": BoolK(), "p1": BoolK(), "p2": BoolK()}

    def all_cases(self):
        cs = []
        for n in range(4):
            for pref in itertools.product((False, True), repeat=n):
                for fu in (False, True):
                    for order in ([tuple(range(n))] if n < 2 else [tuple(range(n)), tuple(reversed(range(n)))]):
                        cs.append({"n": n, "pref": pref, "for_upload": fu, "order": order})
        return cs

    def requires(self, I, a):
        hs = [Z(a["h%d" % i]) for i in range(a["n"])]
        return z3.Distinct(hs) if len(hs) > 1 else True

    def config(self):
        me = self
        return {"overrides": {"hashutil.permute_server_hash": lambda I, args, kw: me._a["h%d" % int(args[1][-1:])]}}

    def run(self, I, a):
        self._a = a
        servers = []
        for i in range(a["n"]):
            s = stub("srv%d" % i, get_longname=(lambda i: lambda I_, a_, k_: "name%d" % i)(i), upload_permitted=(lambda i: lambda I_, a_, k_: a["p%d" % i])(i),
                     get_permutation_seed=(lambda i: lambda I_, a_, k_: b"seed%d" % i)(i))
            s.fields["idx"] = i
            servers.append(s)
        pref_names = ["name%d" % i for i in range(a["n"]) if a["pref"][i]]
        scc = stub("storage_client_config")
        scc.fields["preferred_peers"] = pref_names
        br = SObj(self.module().StorageFarmBroker, {"permute_peers": True, "storage_client_config": scc})
        br.fields["get_connected_servers"] = ModelFn("gcs", lambda I_, a_, k_: [servers[i] for i in a["order"]])
        r = I.call_value(self.target(I), [br, b"psi", a["for_upload"]], {})
        return [s.fields["idx"] for s in r]

    def ensures(self, I, a, out):
        res = out.value
        n = a["n"]
        g = [("no-duplicates-and-only-connected-servers", z3.BoolVal(len(set(res)) == len(res) and all(0 <= i < n for i in res)))]
        for i in range(n):
            inres = z3.BoolVal(i in res)
            want = (z3.BoolVal(a["p%d" % i]) if isinstance(a["p%d" % i], bool) else a["p%d" % i]) if a["for_upload"] else z3.BoolVal(True)
            g.append(("server-%d-listed-iff-connected-and-(for-uploads)-permitted" % i, inres == want))
        for x, y in zip(res, res[1:]):
            px, py = a["pref"][x], a["pref"][y]
            if px != py:
                g.append(("preferred-servers-come-first", z3.BoolVal(px and not py)))
            else:
                g.append(("same-class-ordered-by-permuted-hash", Z(a["h%d" % x]) < Z(a["h%d" % y])))
        return g

    def canary(self, I, a, out):
        return [("canary", z3.BoolVal(len(out.value) == 3))]


class ParseAnnouncementSeed(Spec):
    file = F
    qualname = "_parse_announcement"
    cross_check = 0

    def inputs(self):
        return {"announced": ChoiceK([None, "str", "bytes"]), "idkind": ChoiceK(["v0", "other"])}

    def all_cases(self):
        return [{"announced": an, "idkind": k} for an in (None, "str", "bytes") for k in ("v0", "other")]

    def run(self, I, a):
        from allmydata.util import base32
        key = b"v0-" + base32.b2a(bytes(range(32))).lower() if a["idkind"] == "v0" else b"someotherserverid"
        assert a["idkind"] != "v0" or len(key) == 55
        seed = base32.b2a(b"announced-seed-bytes")
        ann = {"nickname": "nick"}
        if a["announced"] == "str":
            ann["permutation-seed-base32"] = seed.decode("ascii")
        elif a["announced"] == "bytes":
            ann["permutation-seed-base32"] = seed
        r = I.call_value(self.target(I), [key, b"pb://" + base32.b2a(b"t" * 20) + b"@host:1/swiss", ann], {})
        out = Outcome("return", r)
        out.post = {"key": key}
        return out

    def ensures(self, I, a, out):
        import hashlib
        from allmydata.util import base32
        ps = out.value[1]
        if a["announced"]:
            want = b"announced-seed-bytes"
        elif a["idkind"] == "v0":
            want = base32.a2b(out.post["key"][3:])
        else:
            want = hashlib.sha256(out.post["key"]).digest()
        return [("permutation-seed-is-announced-seed-else-pubkey-else-hash-of-id", z3.BoolVal(ps == want))]


class UploadPermitted(Spec):
    file = F
    cross_check = 0

    def __init__(self, cls):
        self.cls_name = cls

    @property
    def name(self):
        return "UploadPermitted[%s]" % self.cls_name

    @property
    def qualname(self):
        return self.cls_name + ".upload_permitted"

    def inputs(self):
        return {"has_verifier": ChoiceK([False, True]), "answer": BoolK()}

    def all_cases(self):
        return [{"has_verifier": False}, {"has_verifier": True}]

    def run(self, I, a):
        calls = []
        v = ModelFn("verifier", lambda I_, a_, k_: (calls.append(1), a["answer"])[1]) if a["has_verifier"] else None
        srv = SObj(getattr(self.module(), self.cls_name), {"_grid_manager_verifier": v})
        out = Outcome("return", I.call_value(self.target(I), [srv], {}))
        out.post = {"calls": calls}
        return out

    def ensures(self, I, a, out):
        r = out.value
        r = z3.BoolVal(r) if isinstance(r, bool) else r
        if not a["has_verifier"]:
            return [("without-grid-manager-keys-every-server-is-permitted", r)]
        return [("permission-is-the-verifier's-current-answer", z3.And(r == a["answer"], z3.BoolVal(len(out.post["calls"]) == 1)))]


class MakeStorageServer(Spec):
    file = F
    qualname = "StorageFarmBroker._make_storage_server"
    cross_check = 0

    def inputs(self):
        return {"http": ChoiceK([False, True])}

    def all_cases(self):
        return [{"http": False}, {"http": True}]

    def config(self):
        me = self

        def verifier(I, args, kw):
            me._ver_args = list(args)
            return "THE-VERIFIER"

        def mk(kind):
            def h(I, args, kw):
                me._made.append((kind, list(args), dict(kw)))
                return stub(kind, on_status_changed=lambda I_, a_, k_: None)
            return h
        return {"overrides": {"grid_manager.create_grid_manager_verifier": verifier, "storage_client.create_grid_manager_verifier": verifier,
                              "storage_client.HTTPNativeStorageServer": mk("http"), "storage_client.NativeStorageServer": mk("foolscap"),
                              "SignedCertificate.load": lambda I, a, kw: ("cert", a[-1]), "json.dumps": lambda I, a, kw: ("json", a[0]),
                              "jsonbytes.dumps": lambda I, a, kw: ("json", a[0]), "io.StringIO": lambda I, a, kw: a[0], "_io.StringIO": lambda I, a, kw: a[0]}}

    def run(self, I, a):
        self._made, self._ver_args = [], None
        cfg = stub("scc")
        cfg.fields["grid_manager_keys"] = ["KEY1"]
        br = SObj(self.module().StorageFarmBroker, {"storage_client_config": cfg, "node_config": "nodecfg", "_tub_maker": "tm",
                                                    "_default_connection_handlers": "dch", "_tor_provider": "tor"})
        br.fields["_should_we_use_http"] = ModelFn("use_http", lambda I_, a_, k_: a["http"])
        br.fields["_got_connection"] = ModelFn("gc", lambda I_, a_, k_: None)
        server = {"ann": {"grid-manager-certificates": ["c1", "c2"]}}
        I.call_value(self.target(I), [br, b"v0-abc", server], {})
        out = Outcome("return", None)
        out.post = {"made": self._made, "ver_args": self._ver_args}
        return out

    def ensures(self, I, a, out):
        made, va = out.post["made"], out.post["ver_args"]
        ok_ver = va is not None and va[0] == ["KEY1"] and len(va[1]) == 2 and va[2] == b"pub-v0-abc"
        g = [("verifier-built-from-configured-keys-the-server's-certificates-and-its-own-key", z3.BoolVal(bool(ok_ver))),
             ("one-server-object-of-the-selected-kind", z3.BoolVal(len(made) == 1 and made[0][0] == ("http" if a["http"] else "foolscap")))]
        if len(made) == 1:
            kind, args, kw = made[0]
            got = kw.get("grid_manager_verifier", args[-1] if kind == "foolscap" and args else None)
            g.append(("the-server-object-receives-that-verifier", z3.BoolVal(got == "THE-VERIFIER")))
        return g


def contracts(tier):
    return [ServersForPsi(), ParseAnnouncementSeed(), UploadPermitted("NativeStorageServer"), UploadPermitted("HTTPNativeStorageServer"), MakeStorageServer()]
