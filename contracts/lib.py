"""Shared helpers for contracts: file kinds, big-endian field views, quantifier helpers."""
import os
import tempfile
import z3
from pyvc.harness import Kind, mval, Outcome
from pyvc.values import *  # noqa
from pyvc import models_ext2 as X
from pyvc.models_ext2 import dec_fn, enc_fns, FileState, FileObj, PathTok

Z = to_z3_int


class FileK(Kind):
    """a file: (content array, length).  random() delegates to a generator of real files."""

    def __init__(self, gen=None, maxlen_model=4096):
        self.gen = gen
        self.maxlen_model = maxlen_model

    def sym(self, name):
        return SBytes(z3.Array(name, IntS, IntS), z3.Int(name + "_len"))

    def constraint(self, v):
        j = z3.Int("fq!" + str(v.arr))
        return z3.And(v.length >= 0, z3.ForAll([j], z3.And(z3.Select(v.arr, j) >= 0, z3.Select(v.arr, j) < 256)))

    def from_model(self, model, v):
        n = mval(model, Z(v.length)).as_long()
        if n > self.maxlen_model:
            raise ValueError("model file too long: %d" % n)
        return bytes(mval(model, z3.Select(v.arr, i)).as_long() % 256 for i in range(n))

    def random(self, rng):
        return self.gen(rng)

    def small(self, v, scale):
        return v.length <= 480 + 100 * scale


def _cells(content, off, w):
    return [z3.simplify(z3.Select(content, Z(off) + i)) for i in range(w)]


def be(content, off, w):
    """big-endian unsigned field of width w at offset off of an array (uninterpreted codec;
    evaluated concretely when the bytes are concrete)."""
    cells = _cells(content, off, w)
    if all(z3.is_int_value(c) for c in cells):
        return z3.IntVal(int.from_bytes(bytes(c.as_long() % 256 for c in cells), "big"))
    return dec_fn(w)(*cells)


def be_facts(content, off, w):
    """codec instance facts for the field (as struct.unpack would add them)."""
    cells = _cells(content, off, w)
    if all(z3.is_int_value(c) for c in cells):
        return z3.BoolVal(all(0 <= c.as_long() < 256 for c in cells))
    val = dec_fn(w)(*cells)
    fs = [z3.And(val >= 0, val < 2 ** (8 * w))]
    for i, c in enumerate(cells):
        fs.append(z3.And(c >= 0, c < 256, enc_fns(w)[i](val) == c))
    return z3.And(fs)


def as_arr(v):
    """python bytes or SBytes -> (z3 array, length)"""
    b = as_sbytes(v)
    return b.arr, Z(b.length)


def forall_range(lo, hi, body, name="k"):
    k = z3.Int(fresh_name(name))
    return z3.ForAll([k], z3.Implies(z3.And(k >= lo, k < hi), body(k)))


def put_file(I, key, f):
    arr, n = as_arr(f)
    I.disk[key] = FileState(arr, norm_int(n), True)


def file_post(I, key):
    st = I.disk[key]
    if not st.exists:
        return None
    return SBytes(st.content, st.length)


class TempDir(object):
    def __enter__(self):
        self.d = tempfile.mkdtemp(prefix="pyvc-", dir=os.environ.get("PYVC_TMP") or None)
        return self.d

    def __exit__(self, *a):
        import shutil
        shutil.rmtree(self.d, ignore_errors=True)


def native_outcome(fn):
    try:
        return Outcome("return", fn())
    except BaseException as e:  # noqa
        o = Outcome("raise", exc=e, exc_cls=type(e))
        return o
