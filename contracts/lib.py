"""Shared helpers for contracts: file kinds, big-endian field views, quantifier helpers."""
import os
import tempfile
import z3
from pyvc.harness import Kind, mval, Outcome
from pyvc.values import *  # noqa
from pyvc import models_ext2 as X
from pyvc.models_ext2 import dec_fn, enc_fns, FileState, FileObj, PathTok

Z = to_z3_int


class FileK(Kind):
    """a file: (content array, length).  random() delegates to a generator of real files."""

    def __init__(self, gen=None, maxlen_model=4096):
        self.gen = gen
        self.maxlen_model = maxlen_model

    def sym(self, name):
        return SBytes(z3.Array(name, IntS, IntS), z3.Int(name + "_len"))

    def constraint(self, v):
        j = z3.Int("fq!" + str(v.arr))
        return z3.And(v.length >= 0, z3.ForAll([j], z3.And(z3.Select(v.arr, j) >= 0, z3.Select(v.arr, j) < 256)))

    def from_model(self, model, v):
        n = mval(model, Z(v.length)).as_long()
        if n > self.maxlen_model:
            raise ValueError("model file too long: %d" % n)
        return bytes(mval(model, z3.Select(v.arr, i)).as_long() % 256 for i in range(n))

    def random(self, rng):
        return self.gen(rng)

    def small(self, v, scale):
        return v.length <= 480 + 100 * scale


def _cells(content, off, w):
    return [z3.simplify(z3.Select(content, Z(off) + i)) for i in range(w)]


def be(content, off, w):
    """big-endian unsigned field of width w at offset off of an array (uninterpreted codec;
    evaluated concretely when the bytes are concrete)."""
    cells = _cells(content, off, w)
    if all(z3.is_int_value(c) for c in cells):
        return z3.IntVal(int.from_bytes(bytes(c.as_long() % 256 for c in cells), "big"))
    if w <= 4:
        return X.be_sum(cells)        # short fields: plain big-endian arithmetic (linear)
    return dec_fn(w)(*cells)


def be_facts(content, off, w):
    """codec instance facts for the field (as struct.unpack would add them)."""
    cells = _cells(content, off, w)
    if all(z3.is_int_value(c) for c in cells):
        return z3.BoolVal(all(0 <= c.as_long() < 256 for c in cells))
    val = dec_fn(w)(*cells)
    fs = [z3.And(val >= 0, val < 2 ** (8 * w))]
    for i, c in enumerate(cells):
        fs.append(z3.And(c >= 0, c < 256, enc_fns(w)[i](val) == c))
    if w <= 4:
        fs.append(val == X.be_sum(cells))
    return z3.And(fs)


def as_arr(v):
    """python bytes or SBytes -> (z3 array, length)"""
    b = as_sbytes(v)
    return b.base_arr(), Z(b.length)


def forall_range(lo, hi, body, name="k"):
    k = z3.Int(fresh_name(name))
    return z3.ForAll([k], z3.Implies(z3.And(k >= lo, k < hi), body(k)))


def put_file(I, key, f):
    arr, n = as_arr(f)
    I.disk[key] = FileState(arr, norm_int(n), True)


def file_post(I, key):
    st = I.disk[key]
    if not st.exists:
        return None
    return SBytes(st.content, st.length)


class TempDir(object):
    def __enter__(self):
        self.d = tempfile.mkdtemp(prefix="pyvc-", dir=os.environ.get("PYVC_TMP") or None)
        return self.d

    def __exit__(self, *a):
        import shutil
        shutil.rmtree(self.d, ignore_errors=True)


def native_outcome(fn):
    try:
        return Outcome("return", fn())
    except BaseException as e:  # noqa
        o = Outcome("raise", exc=e, exc_cls=type(e))
        return o


class SListK(Kind):
    """list of tuples with symbolic length; fields: [('offset','int',lo), ('data','bytes')]."""

    def __init__(self, fields, rndmax=3, int_rnd=60, bytes_rnd=30):
        self.fields, self.rndmax, self.int_rnd, self.bytes_rnd = fields, rndmax, int_rnd, bytes_rnd

    def sym(self, name):
        fns = {}
        for f in self.fields:
            if f[1] == "int":
                fns[f[0]] = z3.Function("%s_%s" % (name, f[0]), IntS, IntS)
            else:
                fns[f[0]] = (z3.Function("%s_%s_arr" % (name, f[0]), IntS, IntS, IntS),
                             z3.Function("%s_%s_len" % (name, f[0]), IntS, IntS))

        def elem(i):
            i = Z(i)
            out = []
            for f in self.fields:
                if f[1] == "int":
                    out.append(fns[f[0]](i))
                else:
                    arrf, lenf = fns[f[0]]
                    j = z3.Int(fresh_name("e"))
                    out.append(SBytes(z3.Lambda([j], arrf(i, j)), lenf(i)))
            return tuple(out)
        sl = SList(elem, z3.Int(name + "_n"), name)
        sl.fns = fns
        return sl

    def constraint(self, v):
        i, j = z3.Int("li!" + v.name), z3.Int("lj!" + v.name)
        cs = [v.length >= 0]
        for f in self.fields:
            if f[1] == "int":
                if len(f) > 2 and f[2] is not None:
                    cs.append(z3.ForAll([i], v.fns[f[0]](i) >= f[2]))
            else:
                arrf, lenf = v.fns[f[0]]
                cs.append(z3.ForAll([i], lenf(i) >= 0))
                cs.append(z3.ForAll([i, j], z3.And(arrf(i, j) >= 0, arrf(i, j) < 256)))
        return z3.And(cs)

    def small(self, v, scale):
        i = z3.Int("ls!" + v.name)
        cs = [v.length <= 3]
        for f in self.fields:
            if f[1] == "int":
                cs.append(z3.ForAll([i], z3.Implies(z3.And(i >= 0, i < 3), z3.And(v.fns[f[0]](i) <= 50 * scale, v.fns[f[0]](i) >= -50 * scale))))
            else:
                cs.append(z3.ForAll([i], z3.Implies(z3.And(i >= 0, i < 3), v.fns[f[0]][1](i) <= 8 * scale)))
        return z3.And(cs)

    def from_model(self, model, v):
        n = mval(model, v.length).as_long()
        if n > 50:
            raise ValueError("list too long")
        out = []
        for i in range(n):
            t = []
            for f in self.fields:
                if f[1] == "int":
                    t.append(mval(model, v.fns[f[0]](i)).as_long())
                else:
                    arrf, lenf = v.fns[f[0]]
                    ln = mval(model, lenf(i)).as_long()
                    if ln > 4096:
                        raise ValueError("bytes too long")
                    t.append(bytes(mval(model, arrf(i, j)).as_long() % 256 for j in range(ln)))
            out.append(tuple(t))
        return out

    def random(self, rng):
        out = []
        for _ in range(rng.randint(0, self.rndmax)):
            t = []
            for f in self.fields:
                if f[1] == "int":
                    lo = f[2] if len(f) > 2 and f[2] is not None else -5
                    t.append(rng.randint(lo, lo + self.int_rnd))
                else:
                    t.append(bytes(rng.randrange(256) for _ in range(rng.randint(0, self.bytes_rnd))))
            out.append(tuple(t))
        return out


def contract_call(spec, bind, result=None, post_key="file", disk_key="home"):
    """Modular call: use `spec`'s contract instead of the callee's body.
    bind(I, args) -> input dict (without file0); result(I) -> fresh result value or None."""
    def h(I, args, kwargs):
        st = I.disk[disk_key]
        a = bind(I, args)
        a["file0"] = SBytes(st.content, st.length)
        I.path.check(spec.requires(I, a), "call-requires:" + spec.name, kind="call")
        outcomes = ["return"] + list(spec.raises)
        k = I.path.choose(len(outcomes)) if len(outcomes) > 1 else 0
        c1 = z3.Array(fresh_name("havoc_file"), IntS, IntS)
        n1 = z3.Int(fresh_name("havoc_flen"))
        if k == 0:
            out = Outcome("return", result(I) if result else None)
        else:
            out = Outcome("raise", exc=SObj(outcomes[k], {"args": ()}), exc_cls=outcomes[k])
        out.post = {post_key: SBytes(c1, n1)}
        for nm, g in spec.ensures(I, a, out):
            I.path.assume(g, "callee-ensures:%s:%s" % (spec.name, nm))
        I.path.assume(n1 >= 0)
        st.content, st.length = c1, n1
        if k == 0:
            return out.value
        raise PyRaise(out.exc)
    return h


class StubCls(object):
    """class of contract-supplied stub collaborators"""


def stub(name, **methods):
    """SObj whose attributes are model functions: stub(name, foo=lambda I, args, kwargs: ...)"""
    from pyvc.interp import ModelFn
    o = SObj(StubCls, {}, name=name)
    o.calls = []
    for k, fn in methods.items():
        if callable(fn):
            def mk(k, fn):
                def h(I, a, kw):
                    o.calls.append((k, tuple(a)))
                    return fn(I, a, kw)
                return h
            o.fields[k] = ModelFn("%s.%s" % (name, k), mk(k, fn))
        else:
            o.fields[k] = fn
    return o


def noop(I, a, kw):
    return None


def same_file(c0, n0, c1, n1):
    return z3.And(n1 == n0, forall_range(0, n0, lambda k: z3.Select(c1, k) == z3.Select(c0, k)))


def applications_of(fn, exprs):
    """all distinct applications of the z3 function `fn` occurring in the expressions"""
    seen, out, stack = set(), [], list(exprs)
    while stack:
        e = stack.pop()
        if not z3.is_expr(e) or e.get_id() in seen:
            continue
        seen.add(e.get_id())
        if z3.is_quantifier(e):
            stack.append(e.body())
            continue
        if z3.is_app(e):
            if e.decl().eq(fn):
                out.append(e)
            stack.extend(e.children())
    return out


def injectivity_instances(fn, exprs):
    """collision resistance of `fn` instantiated on every pair of its applications in the obligation (quantifier-free)"""
    apps = applications_of(fn, exprs)
    cs = []
    for i in range(len(apps)):
        for j in range(i + 1, len(apps)):
            x, y = apps[i], apps[j]
            cs.append(z3.Implies(x == y, z3.And([a == b for a, b in zip(x.children(), y.children())])))
    return cs


# ------------------------------------------------------------------ Deferred chains (twisted semantics, trusted model)

class FailureStub(object):
    """stands for twisted.python.failure.Failure wrapping exception `exc` of class `cls`"""

    def __init__(self, exc, cls):
        self.value, self.type = exc, cls

    def __repr__(self):
        return "<Failure %s>" % getattr(self.type, "__name__", self.type)


def failure_stub(cls, *args):
    from pyvc.interp import ModelFn
    exc = cls(*args) if isinstance(cls, type) else cls
    ecls = cls if isinstance(cls, type) else type(cls)
    f = FailureStub(exc, ecls)

    def check(I, a, kw):
        for c in a:
            if isinstance(c, type) and issubclass(ecls, c):
                return c
        return None

    def trap(I, a, kw):
        r = check(I, a, kw)
        if r is None:
            raise PyRaise(exc, ecls)
        return r
    s = stub("Failure", check=check, trap=trap, value=exc, type=ecls, getErrorMessage=lambda I, a, kw: "error", raiseException=lambda I, a, kw: (_ for _ in ()).throw(PyRaise(exc, ecls)))
    s.is_failure = True
    s.exc, s.exc_cls = exc, ecls
    try:
        from twisted.python.failure import Failure
        s.cls = Failure          # isinstance(x, failure.Failure) holds for the stub
    except ImportError:
        pass
    return s


def is_failure(v):
    return getattr(v, "is_failure", False) is True


def fire_chain(I, d, result, start=0):
    """run the callbacks recorded on DStub `d` with `result` as twisted would: callbacks on success, errbacks on failure,
    a raised exception becomes a failure, a returned failure stays one.  Returns (final result, log of (kind, fn) run)."""
    from pyvc.models_tahoe import DStub
    ran = []
    i = start
    while i < len(d.callbacks):
        kind, fn, args, kw = d.callbacks[i]
        i += 1
        failed = is_failure(result)
        if kind == "addCallbacks":
            cb, (eb,) = fn, args
            fn, args = (eb, ()) if failed else (cb, ())
            if fn is None:
                continue
        elif kind == "addCallback" and failed:
            continue
        elif kind == "addErrback" and not failed:
            continue
        ran.append((kind, fn))
        try:
            result = I.call_value(fn, [result] + list(args), kw)
        except PyRaise as pr:
            result = failure_stub(pr.exc if not isinstance(pr.exc, SObj) else pr.exc, pr.cls) if not isinstance(pr.exc, SObj) else _sobj_failure(pr)
        if isinstance(result, DStub):
            if result.state in ("pending", "waiting"):
                d.state = "waiting"          # the chain is paused on the inner Deferred; nothing further runs now
                d._next = i                  # resume with fire_chain(I, d, <result of the inner Deferred>, start=d._next)
                return result, ran
            inner_d = result
            inner, _ = fire_chain(I, inner_d, inner_d.value)
            if inner_d.state == "waiting":       # the inner chain is itself paused on a pending Deferred
                d.state = "waiting"
                d._next = i
                d._waiting_on = inner_d
                return inner, ran
            result = inner
    d.state = "failed" if is_failure(result) else "succeeded"
    d.value = result
    d._next = len(d.callbacks)
    return result, ran


def _sobj_failure(pr):
    f = failure_stub(Exception, "x")
    f.exc, f.exc_cls = pr.exc, pr.cls
    f.fields["value"], f.fields["type"] = pr.exc, pr.cls
    from pyvc.interp import ModelFn

    def check(I, a, kw):
        for c in a:
            if isinstance(c, type) and isinstance(pr.cls, type) and issubclass(pr.cls, c):
                return c
        return None

    def trap(I, a, kw):
        r = check(I, a, kw)
        if r is None:
            raise PyRaise(pr.exc, pr.cls)
        return r
    f.fields["check"] = ModelFn("Failure.check", check)
    f.fields["trap"] = ModelFn("Failure.trap", trap)
    return f
