"""C14 Mutable check and repair preserve the newest content -- contracts on mutable/checker.py and mutable/repairer.py"""
import z3
from pyvc.harness import Spec, IntK, ChoiceK, Outcome
from pyvc.interp import ModelFn
from pyvc.models_tahoe import DStub
from pyvc.values import *  # noqa
from contracts.lib import *  # noqa
from contracts.C11 import _SM, placements, verinfo, GRID

LEVEL = "other"
MANIFEST_ENTRY = {
    "text": "MutableChecker._make_checker_results is executed on every servermap shape of C11 (<= 3 located shares, 2 versions, all numbers symbolic): healthy <=> no unrecoverable version AND exactly one recoverable version AND that version has N distinct share numbers; recoverable <=> some version recoverable; the reported good-share count is the number of DISTINCT share numbers of the best version. Repairer._got_full_servermap: nothing recoverable => unsuccessful result and no download/upload; an unrecoverable newer version or two recoverable versions with the same seqnum without force => MustForceRepairError before any download/upload; no write key => RepairRequiresWritecapError; otherwise it downloads exactly best_recoverable_version and re-uploads that data. MutableCheckAndRepairer._maybe_repair passes force=False.",
    "note": "Shape-bounded servermaps (values symbolic), hence level 'other'. ServerMap's own queries are C11's contracts and are executed for real here. 'A successful repair leaves N distinct shares' depends on the publish protocol (C47) and is not claimed.",
    "technique": "contract-based deductive verification (pyvc VCs + z3) over enumerated servermap shapes; call-log ghost state",
}
MANIFEST_ENTRY["text"] += ' Bounded end-to-end stand-in (run-time contract, never counted as proved): contracts/grid_mutable.py publishes 1..4 versions (plus a competing one) of SDMF/MDMF files on real StorageServers, composes the final disk state slot by slot from snapshots (newest/older/competing/deleted/bit-flipped/truncated/foreign), and checks reads, the MODE_READ survey, check/verify, repair with and without force, overwrite with failing servers and two concurrent writers against the ground truth on disk.'
MANIFEST_ENTRY["technique"] += "; plus bounded end-to-end run-time scenario contracts on an in-process grid of the real components (stand-in, labelled bounded)"
EXPLANATION = "Checker/repairer decision logic on symbolic servermaps."
TRUSTED = []
ASSUMPTIONS = []
NOT_DECIDED = "publish/retrieve protocol during the repair; verification of share contents (verify=True)."


class MakeCheckerResults(_SM):
    file = "allmydata/mutable/checker.py"
    canary_case = {"placement": ((0, "A"), (2, "A"))}

    @property
    def qualname(self):
        return "MutableChecker._make_checker_results"

    def module_sm(self):
        import importlib
        return importlib.import_module("allmydata.mutable.servermap")

    def mk(self, I, a):
        known = {}
        for (ki, v) in a["placement"]:
            known[GRID[ki]] = (verinfo(a, v), 1234)
        sm = SObj(self.module_sm().ServerMap, {"_known_shares": known, "reachable_servers": set()})
        sm.fields["copy"] = ModelFn("copy", lambda I_, a_, k_: sm)
        return sm

    def config(self):
        me = self

        def cr(I, args, kw):
            me._kw = dict(kw)
            return stub("CheckResults")
        return {"overrides": {"check_results.CheckResults": cr, "happinessutil.servers_of_happiness": lambda I, a, kw: Opaque("happiness"),
                              "uri.from_string": lambda I, a, kw: Opaque("uri"), "log.msg": lambda I, a, kw: None}}

    def run(self, I, a):
        node = stub("node", get_uri=lambda I_, a_, k_: b"URI:SSK:x")
        ch = SObj(self.module().MutableChecker, {"_monitor": stub("monitor", raise_if_cancelled=lambda I_, a_, k_: None), "bad_shares": [],
                                                 "_storage_index": b"si", "_node": node})
        I.call_value(self.target(I), [ch, self.mk(I, a)], {})
        out = Outcome("return", None)
        out.post = dict(self._kw)
        return out

    def ensures(self, I, a, out):
        kw = out.post
        rA, rB, uA, uB = self.rec(a, "A"), self.rec(a, "B"), self.unrec(a, "A"), self.unrec(a, "B")
        st = self.stats(a)
        sA, sB = Z(a["seqA"]), Z(a["seqB"])
        N = Z(a["N"])
        # distinct share numbers of the best recoverable version
        bestA = z3.And(rA, z3.Implies(rB, sA > sB))
        good_best = z3.If(bestA, st["A"][1], st["B"][1])
        healthy_spec = z3.And(z3.Not(uA), z3.Not(uB), z3.Xor(rA, rB), good_best >= N)
        h = kw["healthy"]
        h = z3.BoolVal(h) if isinstance(h, bool) else h
        r = kw["recoverable"]
        r = z3.BoolVal(r) if isinstance(r, bool) else r
        g = [("healthy-iff-single-recoverable-version-with-N-distinct-shares-and-nothing-else", h == healthy_spec),
             ("recoverable-iff-some-version-is-recoverable", r == z3.Or(rA, rB)),
             ("version-counts-reported", z3.And(Z(kw["count_recoverable_versions"]) == z3.If(rA, 1, 0) + z3.If(rB, 1, 0),
                                                Z(kw["count_unrecoverable_versions"]) == z3.If(uA, 1, 0) + z3.If(uB, 1, 0)))]
        g.append(("good-share-count-is-distinct-shares-of-the-best-version", z3.Implies(z3.Or(rA, rB), Z(kw["count_shares_good"]) == good_best)))
        return g

    def canary(self, I, a, out):
        h = out.post["healthy"]
        return [("canary", z3.Not(z3.BoolVal(h) if isinstance(h, bool) else h))]


class RepairDecision(_SM):
    file = "allmydata/mutable/repairer.py"
    canary_case = {"placement": ((0, "A"), (2, "A")), "force": False, "writekey": True}

    @property
    def qualname(self):
        return "Repairer._got_full_servermap"

    @property
    def raises(self):
        from allmydata.mutable.repairer import MustForceRepairError, RepairRequiresWritecapError
        return (MustForceRepairError, RepairRequiresWritecapError)

    def inputs(self):
        d = _SM.inputs(self)
        d.update({"force": ChoiceK([False, True]), "writekey": ChoiceK([True, False])})
        return d

    def all_cases(self):
        return [{"placement": p, "force": f, "writekey": w} for p in placements() for f in (False, True) for w in (True, False)]

    def mk(self, I, a):
        import importlib
        known = {}
        for (ki, v) in a["placement"]:
            known[GRID[ki]] = (verinfo(a, v), 1234)
        return SObj(importlib.import_module("allmydata.mutable.servermap").ServerMap, {"_known_shares": known})

    def config(self):
        me = self

        def rr(I, args, kw):
            o = stub("RepairResults")
            o.fields["successful"] = None
            o.fields["set_successful"] = ModelFn("set_successful", lambda I_, a_, k_: o.fields.__setitem__("successful", a_[0]))
            return o
        return {"overrides": {"repairer.RepairResults": rr, "publish.MutableData": lambda I, a, kw: ("MutableData", a[0])}}

    def run(self, I, a):
        log = []
        pending = DStub()
        node = stub("node", get_writekey=lambda I_, a_, k_: (b"wk" if a["writekey"] else None),
                    download_version=lambda I_, a_, k_: (log.append(("download", a_[1], k_.get("fetch_privkey"))), pending)[1],
                    upload=lambda I_, a_, k_: (log.append(("upload", a_[0])), DStub())[1])
        rp = SObj(self.module().Repairer, {"node": node})
        smap = self.mk(I, a)
        try:
            r = I.call_value(self.target(I), [rp, smap, a["force"]], {})
            out = Outcome("return", r)
        except PyRaise as pr:
            out = Outcome("raise", exc=pr.exc, exc_cls=pr.cls)
            r = None
        ran = []
        if r is pending:
            val = "downloaded-bytes"
            for (kind, fn, args, kw) in pending.callbacks:
                ran.append(kind)
                val = I.call_value(fn, [val] + list(args), kw)
        out.post = {"log": log, "pending": pending, "ran": ran}
        return out

    def ensures(self, I, a, out):
        from allmydata.mutable.repairer import MustForceRepairError, RepairRequiresWritecapError
        log = out.post["log"]
        rA, rB, uA, uB = self.rec(a, "A"), self.rec(a, "B"), self.unrec(a, "A"), self.unrec(a, "B")
        sA, sB = Z(a["seqA"]), Z(a["seqB"])
        some_rec = z3.Or(rA, rB)
        newer_unrec = z3.Or(z3.And(uA, z3.Implies(rB, sA > sB)), z3.And(uB, z3.Implies(rA, sB > sA)))
        merge = z3.And(rA, rB, sA == sB)
        if out.kind == "raise":
            g = [("refusal-happens-before-any-download-or-upload", z3.BoolVal(log == []))]
            if out.exc_cls is MustForceRepairError:
                g.append(("must-force-only-for-newer-unrecoverable-or-same-seqnum-versions-without-force", z3.And(z3.BoolVal(not a["force"]), some_rec, z3.Or(newer_unrec, merge))))
            else:
                g.append(("writecap-error-only-without-a-write-key", z3.BoolVal(not a["writekey"])))
            return g
        r = out.value
        if isinstance(r, DStub) and r.state == "succeeded":
            return [("unsuccessful-result-only-when-nothing-is-recoverable", z3.And(z3.Not(some_rec), z3.BoolVal(r.value.fields["successful"] is False and log == [])))]
        bestA = z3.And(rA, z3.Implies(rB, sA > sB))
        dl = [e for e in log if e[0] == "download"]
        ok_shape = len(dl) == 1 and log[0][0] == "download" and [e[0] for e in log] == ["download", "upload"] and log[1][1] == ("MutableData", "downloaded-bytes")
        g = [("repair-proceeds-only-when-allowed", z3.And(some_rec, z3.BoolVal(a["writekey"]), z3.Or(z3.BoolVal(a["force"]), z3.Not(z3.Or(newer_unrec, merge))))),
             ("downloads-then-reuploads-exactly-that-data", z3.BoolVal(ok_shape))]
        if dl:
            which = dl[0][1][1]
            g.append(("the-version-downloaded-is-the-best-recoverable-one", bestA if which == b"A" else z3.And(rB, z3.Not(bestA))))
        return g

    def canary(self, I, a, out):
        return [("canary", z3.BoolVal(out.post["log"] == []))]


class MaybeRepairForce(Spec):
    """MutableCheckAndRepairer._maybe_repair never forces: node.repair is called with force left False."""
    file = "allmydata/mutable/checker.py"
    qualname = "MutableCheckAndRepairer._maybe_repair"
    cross_check = 0

    def inputs(self):
        return {"need": ChoiceK([False, True]), "readonly": ChoiceK([False, True])}

    def all_cases(self):
        return [{"need": n, "readonly": r} for n in (False, True) for r in (False, True)]

    def run(self, I, a):
        calls = []

        def repair(I_, args, kw):
            # bind like the real signature repair(self, check_results, force=False, monitor=None)
            force = args[1] if len(args) > 1 else kw.get("force", False)
            calls.append(force)
            return DStub()
        node = stub("node", is_readonly=lambda I_, a_, k_: a["readonly"], repair=repair)
        mon = stub("monitor", raise_if_cancelled=lambda I_, a_, k_: None)
        car = SObj(self.module().MutableCheckAndRepairer, {"cr_results": stub("crr"), "_monitor": mon, "need_repair": a["need"], "_node": node})
        I.call_value(self.target(I), [car, "pre-results"], {})
        out = Outcome("return", None)
        out.post = {"calls": calls, "mon": mon}
        return out

    def ensures(self, I, a, out):
        calls = out.post["calls"]
        want = 1 if (a["need"] and not a["readonly"]) else 0
        return [("repair-attempted-only-when-needed-and-writeable", z3.BoolVal(len(calls) == want)),
                ("check-and-repair-never-forces", z3.BoolVal(all(f is False for f in calls)))]


class RequestedVersion(Spec):
    """MutableFileNode._get_version_from_servermap: a caller that names a version (the repairer naming the best version
    of its full survey) gets exactly that version or UnrecoverableFileError -- never silently another version's contents"""
    file = "allmydata/mutable/filenode.py"
    qualname = "MutableFileNode._get_version_from_servermap"
    cross_check = 0
    raises = ()
    canary_case = {"requested": None, "have": "both", "fresh": False}

    def inputs(self):
        return {"requested": ChoiceK([None, "v-old", "v-new", "v-gone"]), "have": ChoiceK(["both", "old-only", "none"]), "fresh": ChoiceK([False, True])}

    def all_cases(self):
        return [{"requested": r, "have": h, "fresh": f} for r in (None, "v-old", "v-new", "v-gone") for h in ("both", "old-only", "none") for f in (False, True)]

    def config(self):
        return {"overrides": {"log.msg": lambda I, a, kw: 1}}

    def run(self, I, a):
        from pyvc.models_tahoe import DStub
        rec = {"both": {"v-old", "v-new"}, "old-only": {"v-old"}, "none": set()}[a["have"]]
        best = "v-new" if "v-new" in rec else ("v-old" if rec else None)
        smap = stub("servermap", recoverable_versions=lambda I_, a_, k_: set(rec), best_recoverable_version=lambda I_, a_, k_: best,
                    get_last_update=lambda I_, a_, k_: ("MODE_READ", 0))
        self._surveys = []

        def get_servermap(I_, a_, k_):
            d = DStub("pending")
            self._surveys.append(d)
            return d
        node = SObj(self.module().MutableFileNode, {})
        node.fields["_get_servermap"] = stub("x", f=get_servermap).fields["f"]
        d = I.call_value(self.target(I), [node, "MODE_READ", (None if a["fresh"] else smap), a["requested"]], {})
        if self._surveys:
            fire_chain(I, self._surveys[0], smap)
            d = self._surveys[0]
        elif getattr(d, "state", None) in ("succeeded",) and d.callbacks and not getattr(d, "_fired", False):
            fire_chain(I, d, d.value)
        out = Outcome("return", d)
        out.post = {"smap": smap, "rec": rec, "best": best}
        return out

    def ensures(self, I, a, out):
        from allmydata.mutable.common import UnrecoverableFileError
        d, rec, best, req = out.value, out.post["rec"], out.post["best"], a["requested"]
        if req is not None:
            want = req if req in rec else None
        else:
            want = best
        failed = d.state == "failed" and is_failure(d.value) and d.value.exc_cls is UnrecoverableFileError
        ok = d.state == "succeeded" and isinstance(d.value, tuple) and d.value[0] is out.post["smap"] and d.value[1] == want
        return [("a-named-version-is-answered-with-that-version-or-an-unrecoverable-error-never-another-one", z3.BoolVal(failed if want is None else ok)),
                ("a-survey-is-made-exactly-when-none-of-the-right-mode-was-supplied", z3.BoolVal(len(self._surveys) == (1 if a["fresh"] else 0)))]

    def canary(self, I, a, out):
        return [("canary", z3.BoolVal(out.value.state == "failed"))]


def extra_checks(rep, tier):
    from contracts import grid_mutable
    grid_mutable.grid_check(rep, tier, "C14")


def contracts(tier):
    return [MakeCheckerResults(), RepairDecision(), MaybeRepairForce(), RequestedVersion()]
