"""C06 A successful immutable upload meets servers-of-happiness -- contracts on immutable/upload.py (Tahoe2ServerSelector
decision and failure path, ServerTracker.abort, CHKUploader.locate_all_shareholders) and immutable/encode.py (Encoder
error wiring and _remove_shareholder)"""
import ast
import z3
from pyvc.harness import Spec, IntK, BoolK, ChoiceK, Outcome
from pyvc.values import *  # noqa
from contracts.lib import *  # noqa

LEVEL = "other"
MANIFEST_ENTRY = {
    "text": "Server selection decision: the statements of Tahoe2ServerSelector.get_shareholders after its query loop (extracted mechanically from the real AST on every run) are verified as a Hoare triple from ANY state the loop may leave: the method returns (use_trackers, preexisting shares) only if servers_of_happiness(merge_servers(preexisting, use_trackers)) >= min_happiness, otherwise _failed() runs; _failed aborts every tracker in use_trackers and raises UploadUnhappinessError; ServerTracker.abort aborts every allocated bucket writer and forgets it. CHKUploader.locate_all_shareholders hands (total, needed, happy) of the encoder to the selector in the right parameters. During the push: every landlord operation of the Encoder (put_header, put_block, put_crypttext_hashes, put_block_hashes, put_share_hashes, put_uri_extension, close) has an errback that calls _remove_shareholder with THAT landlord's share id, and _remove_shareholder aborts and forgets the landlord, recomputes servers_of_happiness over the remaining servermap and raises UploadUnhappinessError exactly when it is below min_happiness. A share becomes visible only when complete: WriteBucketProxy.close sends `close` to the server only after the last queued write succeeded, and passes a write failure on instead. The reported share map (CHKUploader._encrypted_done) lists exactly the shares the encoder reports as placed, each on its tracker's server. The happiness value itself is the real servers_of_happiness, whose bounded run-time contract (C08: equals a maximum matching on every relation up to 4x4) is re-run as part of this check.",
    "note": "servers_of_happiness is a callee contract (C08, bounded) and merge_servers one that is discharged here on the real body for every small servermap/tracker shape (MergeServers: result = preexisting + tracker buckets, caller's map untouched); Deferred scheduling is modelled by a chain interpreter (callbacks on success, errbacks on failure). The query loop itself (which servers are asked, time-outs, read-only servers) and the storage-server side of abort (C22: aborted buckets leave no visible share) are outside these contracts. Bounded: 1..3 landlords/trackers.",
    "technique": "contract-based deductive verification (pyvc VCs + z3) with callee contracts, a Deferred-chain model and a mechanically extracted code segment; landlord counts bounded",
}
MANIFEST_ENTRY["text"] += ' Bounded end-to-end stand-in (run-time contract, never counted as proved): contracts/grid_upload.py runs the real Uploader, server selector, Encoder, checker/verifier and repairer against real StorageServers on disk (contracts/real_grid.py) with read-only, full and failing servers and pre-existing shares, and compares results with ground truth read from the disks and with a reference encoding.'
MANIFEST_ENTRY["technique"] += "; plus bounded end-to-end run-time scenario contracts on an in-process grid of the real components (stand-in, labelled bounded)"
EXPLANATION = "Decision and error-path contracts of the real upload code."
TRUSTED = ["servers_of_happiness as a callee contract (its bounded run-time contract C08 is re-run by this check); merge_servers is under contract here (MergeServers, bounded shapes)", "twisted Deferred callback/errback semantics as implemented by contracts.lib.fire_chain"]
ASSUMPTIONS = []
NOT_DECIDED = "the query loop of get_shareholders; Encoder segment scheduling; storage-side effects of abort (C22)."
UP = "allmydata/immutable/upload.py"
EN = "allmydata/immutable/encode.py"
H = z3.Function("servers_of_happiness", z3.IntSort(), z3.IntSort())


class SelectorDecision(Spec):
    """tail of get_shareholders (everything after the last top-level `while`)"""
    file = UP
    qualname = "Tahoe2ServerSelector.get_shareholders"
    cross_check = 0
    canary_case = {"ntrackers": 2, "last_msg": None}

    @property
    def raises(self):
        from allmydata.interfaces import UploadUnhappinessError
        return (UploadUnhappinessError,)

    def inputs(self):
        return {"ntrackers": ChoiceK([0, 1, 2]), "h": IntK(-1, 300), "min_happiness": IntK(0, 256), "has_status": BoolK(), "last_msg": ChoiceK([None, "boom"])}

    def all_cases(self):
        return [{"ntrackers": n, "last_msg": m} for n in (0, 1, 2) for m in (None, "boom")]

    def tail(self, I):
        clo = self.target(I)
        node = clo.node if hasattr(clo, "node") else None
        if node is None:
            raise Undecided("no AST for get_shareholders")
        idx = max(i for i, st in enumerate(node.body) if isinstance(st, ast.While))
        return clo, node.body[idx + 1:]

    def config(self):
        me = self

        def returnValue(I, a, kw):
            me._returned.append(a[0])
            raise _Return()
        return {"overrides": {"happinessutil.merge_servers": lambda I, a, kw: ("merged", a[0], a[1]),
                              "happinessutil.servers_of_happiness": lambda I, a, kw: me._a["h"],
                              "upload.merge_servers": lambda I, a, kw: ("merged", a[0], a[1]),
                              "upload.servers_of_happiness": lambda I, a, kw: me._a["h"],
                              "happinessutil.failure_message": lambda I, a, kw: "msg", "upload.failure_message": lambda I, a, kw: "msg",
                              "upload.pretty_print_shnum_to_servers": lambda I, a, kw: "pp", "upload.str_shareloc": lambda I, a, kw: "loc",
                              "PrefixingLogMixin.log": noop, "Tahoe2ServerSelector._get_progress_message": lambda I, a, kw: "progress",
                              "MessageType.log": noop, "defer.returnValue": returnValue, "twisted.internet.defer.returnValue": returnValue,
                              "ServerTracker.abort": lambda I, a, kw: me._aborted.append(a[0])}}

    def run(self, I, a):
        from pyvc.interp import Env
        self._a, self._returned, self._aborted = a, [], []
        M = self.module()
        clo, tail = self.tail(I)
        trackers = [SObj(M.ServerTracker, {"buckets": {i: "writer%d" % i}}, name="tracker%d" % i) for i in range(a["ntrackers"])]
        self._trackers = trackers
        pre = {7: {"serverX"}}
        ps = stub("peer_selector", get_sharemap_of_preexisting_shares=lambda I_, a_, k_: pre)
        status = stub("status", set_status=noop)
        sel = SObj(M.Tahoe2ServerSelector, {"peer_selector": ps, "use_trackers": set(), "preexisting_shares": {}, "serverids_with_shares": set(),
                                            "needed_shares": 3, "last_failure_msg": a["last_msg"], "_status": None})
        ut = sel.fields["use_trackers"]
        for t in trackers:
            ut.add(t)
        if I.path.branch(to_z3_bool(a["has_status"])):
            sel.fields["_status"] = status
        self._pre = pre
        env = Env(None)
        env._closure = clo
        env.set("self", sel)
        env.set("min_happiness", a["min_happiness"])
        env.set("effective_happiness", Opaque("stale"))
        env.set("merged", Opaque("stale"))
        try:
            I.exec_block(tail, env, clo.globs, clo)
            out = Outcome("return", None)
        except _Return:
            out = Outcome("return", self._returned[-1])
        except PyRaise as pr:
            out = Outcome("raise", exc=pr.exc, exc_cls=pr.cls)
        except Exception as e:      # ReturnSig of the interpreter (bare `return`)
            if type(e).__name__ != "ReturnSig":
                raise
            out = Outcome("return", None)
        out.post = {"sel": sel, "aborted": list(self._aborted), "returned": list(self._returned)}
        return out

    def ensures(self, I, a, out):
        h, m = Z(a["h"]), Z(a["min_happiness"])
        if out.kind == "raise":
            return [("failure-only-below-the-threshold", h < m),
                    ("every-tracker-that-holds-allocations-is-aborted", z3.BoolVal(len(out.post["aborted"]) == a["ntrackers"] and all(any(t is x for x in out.post["aborted"]) for t in self._trackers)))]
        ret = out.post["returned"]
        g = [("success-only-with-happiness-at-least-the-threshold", h >= m),
             ("success-delivers-a-result", z3.BoolVal(len(ret) == 1)),
             ("nothing-is-aborted-on-success", z3.BoolVal(not out.post["aborted"]))]
        if len(ret) == 1:
            g.append(("result-is-the-trackers-and-preexisting-shares", z3.BoolVal(isinstance(ret[0], tuple) and len(ret[0]) == 2 and ret[0][0] is out.post["sel"].fields["use_trackers"] and ret[0][1] is self._pre)))
        return g

    def canary(self, I, a, out):
        if out.kind != "return":
            return []
        return [("canary", Z(a["h"]) > Z(a["min_happiness"]))]


class _Return(Exception):
    pass


class SelectorFailed(Spec):
    file = UP
    qualname = "Tahoe2ServerSelector._failed"
    cross_check = 0

    @property
    def raises(self):
        from allmydata.interfaces import UploadUnhappinessError
        return (UploadUnhappinessError,)

    def inputs(self):
        return {"ntrackers": ChoiceK([0, 1, 2, 3])}

    def all_cases(self):
        return [{"ntrackers": n} for n in (0, 1, 2, 3)]

    no_normal_path_ok = True

    def config(self):
        me = self

        def w_abort(I, a, kw):
            me._writer_aborts.append(a[0])
        return {"overrides": {"PrefixingLogMixin.log": noop}}

    def run(self, I, a):
        M = self.module()
        self._aborts = []
        me = self
        trackers = []
        for i in range(a["ntrackers"]):
            buckets = {}
            for s in range(i + 1):
                buckets[10 * i + s] = stub("writer%d_%d" % (i, s), abort=(lambda I_, a_, k_, key=(i, 10 * i + s): me._aborts.append(key)))
            trackers.append(SObj(M.ServerTracker, {"buckets": buckets}, name="tracker%d" % i))
        self._trackers = trackers
        sel = SObj(M.Tahoe2ServerSelector, {"use_trackers": set()})
        for t in trackers:
            sel.fields["use_trackers"].add(t)
        try:
            out = Outcome("return", I.call_value(self.target(I), [sel, "msg"], {}))
        except PyRaise as pr:
            out = Outcome("raise", exc=pr.exc, exc_cls=pr.cls)
        out.post = {"aborts": list(self._aborts)}
        return out

    def ensures(self, I, a, out):
        want = sorted((i, 10 * i + s) for i in range(a["ntrackers"]) for s in range(i + 1))
        return [("always-raises-unhappiness", z3.BoolVal(out.kind == "raise")),
                ("every-allocated-bucket-writer-of-every-tracker-is-aborted-once", z3.BoolVal(sorted(out.post["aborts"]) == want)),
                ("aborted-buckets-are-forgotten", z3.BoolVal(all(not t.fields["buckets"] for t in self._trackers)))]

    canary = None


class LocateAllShareholders(Spec):
    file = UP
    qualname = "CHKUploader.locate_all_shareholders"
    cross_check = 0
    raises = ()

    def inputs(self):
        return {"k": IntK(1, 256), "happy": IntK(1, 256), "n": IntK(1, 256), "share_size": IntK(0), "block_size": IntK(0), "num_segments": IntK(1), "ext": IntK(0)}

    def config(self):
        me = self

        def selector(I, a, kw):
            from pyvc.models_tahoe import DStub
            return stub("selector", get_shareholders=lambda I_, a_, k_: (me._calls.append((tuple(a_), dict(k_))), DStub("pending"))[1])
        return {"overrides": {"upload.Tahoe2ServerSelector": selector, "PrefixingLogMixin.log": noop, "CHKUploader.log": noop,
                              "time.time": lambda I, a, kw: Opaque("now"), "upload.si_b2a": lambda I, a, kw: "abcdefgh", "uri.si_b2a": lambda I, a, kw: "abcdefgh", "storage.server.si_b2a": lambda I, a, kw: "abcdefgh"}}

    def run(self, I, a):
        self._calls = []
        params = {"storage_index": b"s" * 16, "share_size": a["share_size"], "block_size": a["block_size"], "num_segments": a["num_segments"],
                  "share_counts": (a["k"], a["happy"], a["n"])}
        enc = stub("encoder", get_param=lambda I_, a_, k_: params[a_[0]], get_uri_extension_size=lambda I_, a_, k_: a["ext"])
        up = SObj(self.module().CHKUploader, {"_storage_broker": "broker", "_secret_holder": "secrets", "_log_number": 1, "_upload_status": None, "_reactor": None})
        return I.call_value(self.target(I), [up, enc, 0], {})

    def ensures(self, I, a, out):
        import inspect
        from allmydata.immutable.upload import Tahoe2ServerSelector
        g = [("exactly-one-selection", z3.BoolVal(len(self._calls) == 1))]
        if len(self._calls) != 1:
            return g
        args, kw = self._calls[0]
        names = list(inspect.signature(inspect.unwrap(Tahoe2ServerSelector.get_shareholders)).parameters)[1:]
        bound = dict(zip(names, args))
        bound.update(kw)
        for nm, want in (("total_shares", "n"), ("needed_shares", "k"), ("min_happiness", "happy"), ("share_size", "share_size"), ("block_size", "block_size"),
                         ("num_segments", "num_segments"), ("uri_extension_size", "ext")):
            g.append(("selector-gets-%s-of-the-encoder" % nm, (Z(bound[nm]) == Z(a[want])) if nm in bound and is_intlike(bound[nm]) else z3.BoolVal(False)))
        return g

    def canary(self, I, a, out):
        args, kw = self._calls[0]
        return [("canary", Z(args[7]) == Z(a["happy"]))]


LANDLORD_OPS = [("start_all_shareholders", "put_header", "all"), ("send_block", "put_block", "one"), ("send_crypttext_hash_tree", "put_crypttext_hashes", "one"),
                ("send_one_block_hash_tree", "put_block_hashes", "one"), ("send_one_share_hash_tree", "put_share_hashes", "one"),
                ("send_uri_extension", "put_uri_extension", "one"), ("close_all_shareholders", "close", "all")]


class EncoderErrorWiring(Spec):
    """a failing landlord operation reaches _remove_shareholder with that landlord's share id"""
    file = EN
    qualname = "Encoder.close_all_shareholders"
    level = "B"
    bound = "3 landlords (share ids 0, 4, 9), each of the 7 landlord operations, each landlord failing in turn"
    cross_check = 0
    raises = ()

    def inputs(self):
        return {"op": ChoiceK([0]), "failing": ChoiceK([0, 4, 9])}

    def all_cases(self):
        return [{"op": i, "failing": f} for i in range(len(LANDLORD_OPS)) for f in (0, 4, 9)]

    def config(self):
        me = self
        return {"overrides": {"Encoder.log": lambda I, a, kw: 1, "Encoder.set_status": noop, "Encoder.set_encode_and_push_progress": noop,
                              "Encoder._remove_shareholder": lambda I, a, kw: me._removed.append((a[1], a[2], a[3])),
                              "Encoder._gather_responses": lambda I, a, kw: a[1]}}

    def run(self, I, a):
        from pyvc.models_tahoe import DStub
        self._removed = []
        meth, remote, scope = LANDLORD_OPS[a["op"]]
        ds = {}
        landlords = {}
        for sid in (0, 4, 9):
            ds[sid] = DStub("pending")
            landlords[sid] = stub("landlord%d" % sid, **{remote: (lambda I_, a_, k_, sid=sid: ds[sid])})
        enc = SObj(self.module().Encoder, {"landlords": landlords, "share_root_hashes": [None] * 10})
        fn = I.get_attr(enc, meth)
        if scope == "all":
            I.call_value(fn, [], {})
        else:
            extra = {"send_block": [0, b"block", 1], "send_crypttext_hash_tree": [[b"h"]], "send_one_block_hash_tree": [[b"h" * 32]],
                     "send_one_share_hash_tree": [[(0, b"h")]], "send_uri_extension": [b"ueb"]}[meth]
            for sid in (0, 4, 9):
                I.call_value(fn, [sid] + extra, {})
        f = failure_stub(RuntimeError, "remote failure")
        self._f = f
        fire_chain(I, ds[a["failing"]], f)
        for sid in (0, 4, 9):
            if sid != a["failing"]:
                fire_chain(I, ds[sid], None)
        return None

    def ensures(self, I, a, out):
        return [("exactly-the-failing-landlord-is-removed", z3.BoolVal(len(self._removed) == 1 and self._removed[0][1] == a["failing"])),
                ("the-failure-is-handed-over", z3.BoolVal(len(self._removed) == 1 and self._removed[0][0] is self._f))]

    def canary(self, I, a, out):
        return [("canary", z3.BoolVal(not self._removed))]


class RemoveShareholder(Spec):
    file = EN
    qualname = "Encoder._remove_shareholder"
    cross_check = 0
    canary_case = {"present": True, "shared": False}

    @property
    def raises(self):
        from allmydata.interfaces import UploadUnhappinessError
        return (UploadUnhappinessError,)

    def inputs(self):
        return {"present": ChoiceK([False, True]), "shared": ChoiceK([False, True]), "h": IntK(0, 300), "min_happiness": IntK(0, 256)}

    def all_cases(self):
        return [{"present": p, "shared": s} for p in (False, True) for s in (False, True)]

    def config(self):
        me = self

        def soh(I, a, kw):
            me._soh_args.append({k: set(v) for k, v in a[0].items()})
            return me._a["h"]
        return {"overrides": {"Encoder.log": lambda I, a, kw: 1, "happinessutil.servers_of_happiness": soh, "happinessutil.shares_by_server": lambda I, a, kw: {},
                              "happinessutil.failure_message": lambda I, a, kw: "msg"}}

    def run(self, I, a):
        self._a, self._soh_args, self._aborted = a, [], []
        landlords = {2: stub("landlord2", abort=noop, get_peerid=lambda I_, a_, k_: b"peerB")}
        servermap = {2: {b"peerB"}, 5: {b"peerA"}}
        if a["present"]:
            landlords[5] = stub("landlord5", abort=lambda I_, a_, k_: self._aborted.append(5), get_peerid=lambda I_, a_, k_: b"peerA")
        if a["shared"]:
            servermap[5].add(b"peerC")
        enc = SObj(self.module().Encoder, {"landlords": landlords, "servermap": servermap, "min_happiness": a["min_happiness"], "required_shares": 3})
        try:
            out = Outcome("return", I.call_value(self.target(I), [enc, failure_stub(RuntimeError, "x"), 5, "close"], {}))
        except PyRaise as pr:
            out = Outcome("raise", exc=pr.exc, exc_cls=pr.cls)
        out.post = {"enc": enc}
        return out

    def ensures(self, I, a, out):
        enc = out.post["enc"]
        h, m = Z(a["h"]), Z(a["min_happiness"])
        want_map = {2: {b"peerB"}}
        if not a["present"]:
            want_map[5] = {b"peerA"} | ({b"peerC"} if a["shared"] else set())
        elif a["shared"]:
            want_map[5] = {b"peerC"}
        g = [("unhappiness-is-raised-exactly-when-below-the-threshold", (h < m) if out.kind == "raise" else (h >= m)),
             ("happiness-is-recomputed-over-the-remaining-servermap", z3.BoolVal(self._soh_args == [want_map])),
             ("the-failed-landlord-is-aborted-and-forgotten", z3.BoolVal((not a["present"]) or (self._aborted == [5] and 5 not in enc.fields["landlords"]))),
             ("other-landlords-stay", z3.BoolVal(2 in enc.fields["landlords"]))]
        return g

    def canary(self, I, a, out):
        if out.kind != "return":
            return []
        return [("canary", Z(a["h"]) > Z(a["min_happiness"]))]


class EncryptedDone(Spec):
    """CHKUploader._encrypted_done: the reported share map lists exactly the shares the encoder says were placed (a share
    whose holder was dropped during the push is not reported), each on the server its tracker names"""
    file = UP
    qualname = "CHKUploader._encrypted_done"
    level = "B"
    bound = "4 allocated share numbers (0..3), every subset of them actually placed"
    cross_check = 0
    raises = ()
    canary_case = {"placed": (0, 2)}

    def inputs(self):
        return {"placed": ChoiceK([()])}

    def all_cases(self):
        import itertools
        return [{"placed": c} for r in range(5) for c in itertools.combinations((0, 1, 2, 3), r)]

    def config(self):
        me = self
        return {"overrides": {"time.time": lambda I, a, kw: 0, "upload.UploadResults": lambda I, a, kw: stub("results", kw=dict(kw)),
                              "PrefixingLogMixin.log": noop, "CHKUploader.log": noop}}

    def run(self, I, a):
        servers = {i: "server-%d" % i for i in range(4)}
        trackers = {i: stub("tracker%d" % i, get_server=(lambda I_, a_, k_, i=i: servers[i])) for i in range(4)}
        enc = stub("encoder", get_shares_placed=lambda I_, a_, k_: set(a["placed"]), get_times=lambda I_, a_, k_: {}, file_size=100,
                   get_uri_extension_data=lambda I_, a_, k_: {}, get_uri_extension_hash=lambda I_, a_, k_: b"h" * 32)
        st = stub("status", set_results=noop)
        up = SObj(self.module().CHKUploader, {"_encoder": enc, "_server_trackers": trackers, "_started": 0, "_storage_index_elapsed": 0, "_server_selection_elapsed": 0,
                                             "_count_preexisting_shares": 0, "_upload_status": st})
        vcap = stub("verifycap", to_string=lambda I_, a_, k_: b"URI:CHK-Verifier:x")
        return I.call_value(self.target(I), [up, vcap], {})

    def ensures(self, I, a, out):
        from pyvc.models_ext import unwrap_key
        kw = out.value.fields["kw"]
        sm = kw["sharemap"]
        data = sm.fields.get("__dictdata__", {}) if isinstance(sm, SObj) else dict(sm)
        got = {unwrap_key(k): set(unwrap_key(x) for x in v) for k, v in data.items()}
        want = {i: {"server-%d" % i} for i in a["placed"]}
        return [("only-shares-that-were-really-placed-are-reported-each-on-its-own-server", z3.BoolVal(got == want)),
                ("the-count-of-pushed-shares-is-the-number-placed", z3.BoolVal(kw["pushed_shares"] == len(a["placed"])))]

    def canary(self, I, a, out):
        return [("canary", z3.BoolVal(len(out.value.fields["kw"]["sharemap"].fields.get("__dictdata__", {})) == 4))]


class BucketClose(Spec):
    """WriteBucketProxy.close: the remote bucket is closed (made visible to readers) only after the last queued write
    succeeded; if that write fails the failure is passed on and `close` is never sent"""
    file = "allmydata/immutable/layout.py"
    qualname = "WriteBucketProxy.close"
    cross_check = 0
    raises = ()
    canary_case = {"queued": True, "write_ok": True}

    def inputs(self):
        return {"queued": ChoiceK([False, True]), "write_ok": ChoiceK([False, True])}

    def all_cases(self):
        return [{"queued": q, "write_ok": w} for q in (False, True) for w in (False, True) if q or w]

    def run(self, I, a):
        from pyvc.models_tahoe import DStub
        self._remote = []
        self._wd = DStub("pending")

        def call_remote(I_, a_, k_):
            self._remote.append(a_[0])
            return self._wd if a_[0] == "write" else DStub("succeeded", None)
        rref = stub("rref", callRemote=call_remote)
        buf = stub("write_buffer", get_total_bytes=lambda I_, a_, k_: 500, get_queued_bytes=lambda I_, a_, k_: (10 if a["queued"] else 0), flush=lambda I_, a_, k_: (490, b"x" * 10))
        w = SObj(self.module().WriteBucketProxy, {"_rref": rref, "_write_buffer": buf, "_offsets": {"uri_extension": 400}, "fieldsize": 4, "_uri_extension_size": 96})
        d = I.call_value(self.target(I), [w], {})
        res = d
        if a["queued"]:
            self._fail = failure_stub(RuntimeError, "disk full")
            res, _ = fire_chain(I, self._wd, None if a["write_ok"] else self._fail)
        elif isinstance(d, DStub) and d.state == "succeeded":
            res, _ = fire_chain(I, d, d.value)
        return res

    def ensures(self, I, a, out):
        closed = "close" in self._remote
        if a["queued"] and not a["write_ok"]:
            return [("a-share-whose-last-write-failed-is-never-closed-into-place", z3.BoolVal(not closed)),
                    ("the-write-failure-is-passed-on", z3.BoolVal(is_failure(out.value)))]
        return [("a-completely-written-share-is-closed", z3.BoolVal(closed and self._remote.index("close") == len(self._remote) - 1)),
                ("queued-bytes-are-written-before-closing", z3.BoolVal(("write" in self._remote) == a["queued"]))]

    def canary(self, I, a, out):
        return [("canary", z3.BoolVal("close" not in self._remote))]


class AllocationFor(Spec):
    """Tahoe2ServerSelector._allocation_for(tracker): the shares the current plan gives this server, minus any share a
    different tracker already holds a bucket for -- so no share number is ever allocated on two servers, whatever the
    re-computed plan says (CHKUploader.set_shareholders relies on it)"""
    file = UP
    qualname = "Tahoe2ServerSelector._allocation_for"
    cross_check = 0
    raises = ()
    canary_case = {"plan": 1, "held": 1}
    # plans: share -> server id (None = nowhere); me = b"A"
    PLANS = [{0: b"A", 1: b"B", 2: None}, {0: b"A", 1: b"A", 2: b"B"}, {0: b"B", 1: b"B"}, {0: b"A", 1: b"A", 2: b"A"}]
    HELD = [{}, {b"B": (0,)}, {b"B": (0, 1)}, {b"A": (0,)}, {b"A": (1,), b"C": (2,)}]      # buckets already accepted, per server

    def inputs(self):
        return {"plan": ChoiceK([0, 1, 2, 3]), "held": ChoiceK([0, 1, 2, 3, 4])}

    def all_cases(self):
        return [{"plan": p, "held": h} for p in range(4) for h in range(5)]

    def config(self):
        return {"overrides": {"PrefixingLogMixin.log": noop}}

    def run(self, I, a):
        M = self.module()
        plan, held = self.PLANS[a["plan"]], self.HELD[a["held"]]
        trackers = {}
        for sid in (b"A", b"B", b"C"):
            t = SObj(M.ServerTracker, {"buckets": dict((sh, "writer") for sh in held.get(sid, ()))}, name="tracker" + sid.decode())
            t.fields["get_serverid"] = stub("x", f=(lambda I_, a_, k_, sid=sid: sid)).fields["f"]
            t.fields["get_name"] = stub("x", f=(lambda I_, a_, k_, sid=sid: sid)).fields["f"]
            trackers[sid] = t
        use = set()
        for sid in held:
            use.add(trackers[sid])
        sel = SObj(M.Tahoe2ServerSelector, {"use_trackers": use, "_share_placements": dict(plan), "homeless_shares": set([0, 1, 2]), "_status": None})
        return I.call_value(self.target(I), [sel, trackers[b"A"]], {})

    def ensures(self, I, a, out):
        plan, held = self.PLANS[a["plan"]], self.HELD[a["held"]]
        elsewhere = set(sh for sid, shs in held.items() if sid != b"A" for sh in shs)
        want = set(sh for sh, sid in plan.items() if sid == b"A") - elsewhere
        got = set(out.value) if out.kind == "return" else None
        return [("no-share-another-server-already-accepted-is-asked-for-again", z3.BoolVal(got is not None and not (got & elsewhere))),
                ("otherwise-exactly-the-planned-shares-of-this-server", z3.BoolVal(got == want))]

    def canary(self, I, a, out):
        return [("canary", z3.BoolVal(0 in set(out.value)))]


class PlacementsKeepAllocated(Spec):
    """PeerSelector.get_share_placements(allocated): the planner is given the pre-existing shares merged with the shares
    servers already accepted during this upload, and the record of pre-existing shares itself is left untouched (frame:
    get_sharemap_of_preexisting_shares() must keep meaning 'found', never 'being written')"""
    file = UP
    qualname = "PeerSelector.get_share_placements"
    cross_check = 0
    raises = ()
    canary_case = {"existing": 1, "allocated": 2}
    EXISTING = [{}, {b"A": {0}}, {b"A": {0, 1}, b"R": {2}}]
    ALLOCATED = [None, {}, {b"A": {3}}, {b"B": {1, 4}, b"A": {0}}]

    def inputs(self):
        return {"existing": ChoiceK([0, 1, 2]), "allocated": ChoiceK([0, 1, 2, 3])}

    def all_cases(self):
        return [{"existing": e, "allocated": al} for e in range(3) for al in range(4)]

    def config(self):
        me = self

        def placement(I, a, kw):
            me._calls.append(tuple(a))
            return {0: b"A"}
        return {"overrides": {"happiness_upload.share_placement": placement, "happiness_upload.calculate_happiness": lambda I, a, kw: 1}}

    def run(self, I, a):
        import copy
        self._calls = []
        ex = copy.deepcopy(self.EXISTING[a["existing"]])
        self._ex = ex
        ps = SObj(self.module().PeerSelector, {"total_shares": 5, "peers": {b"A", b"B"}, "readonly_peers": {b"R"}, "existing_shares": ex, "needed_shares": 2, "min_happiness": 2, "num_segments": 1})
        al = copy.deepcopy(self.ALLOCATED[a["allocated"]])
        args = [ps] if al is None else [ps, al]
        out = Outcome("return", I.call_value(self.target(I), args, {}))
        out.post = {"ps": ps}
        return out

    def ensures(self, I, a, out):
        ex, al = self.EXISTING[a["existing"]], self.ALLOCATED[a["allocated"]] or {}
        merged = dict((p_, set(v)) for p_, v in ex.items())
        for p_, v in al.items():
            merged.setdefault(p_, set()).update(v)

        def norm(d):
            return dict((unwrap(k_), set(unwrap(x) for x in v)) for k_, v in dict(d).items() if v)

        def unwrap(x):
            return getattr(x, "v", x)
        ok = len(self._calls) == 1
        given = norm(self._calls[0][3]) if ok else None
        return [("the-planner-is-called-once-over-all-share-numbers", z3.BoolVal(ok and set(self._calls[0][2]) == set(range(5)))),
                ("it-sees-pre-existing-and-already-accepted-shares", z3.BoolVal(ok and given == norm(merged))),
                ("the-record-of-pre-existing-shares-is-unchanged", z3.BoolVal(norm(out.post["ps"].fields["existing_shares"]) == norm(ex))),
                ("the-plan-is-returned", z3.BoolVal(out.kind == "return" and dict(out.value) == {0: b"A"}))]

    def canary(self, I, a, out):
        return [("canary", z3.BoolVal(len(self._calls) == 0))]


def extra_checks(rep, tier):
    from contracts import grid_upload
    grid_upload.grid_check(rep, tier, "C06")
    # the happiness value the decision uses is the real servers_of_happiness: its bounded run-time contract (C08) is re-run here
    from contracts import C08
    n0 = len(rep.violations)
    C08.extra_checks(rep, tier)
    for v in rep.violations[n0:]:
        v["property"] = "C06"


class MergeServers(Spec):
    """happinessutil.merge_servers(servermap, upload_trackers): the callee contract the selector and encoder contracts above
    rely on ("the happiness is computed over preexisting shares PLUS the shares of the trackers in use"): the result maps every
    share number to exactly servermap's servers for it plus the server of every tracker holding a bucket for it, nothing
    else; the caller's servermap (and its sets) is left untouched."""
    file = "allmydata/util/happinessutil.py"
    qualname = "merge_servers"
    level = "B"
    bound = "servermaps over share numbers {0,1,2} and servers {A,B,C} with <= 2 entries of <= 2 servers; 0..2 trackers (or None) each with 0..2 buckets: every combination"
    cross_check = 0
    canary_case = {"sm": ((0, ("A",)),), "tr": (("B", (0, 1)),)}

    def inputs(self):
        return {"sm": ChoiceK([()]), "tr": ChoiceK([()])}

    def all_cases(self):
        import itertools
        srvsets = [("A",), ("B",), ("A", "B"), ("C",)]
        sms = [()] + [((sh, ss),) for sh in (0, 1) for ss in srvsets] + [((0, s1), (1, s2)) for s1 in srvsets for s2 in srvsets[:3]]
        bks = [(), (0,), (1,), (0, 1), (2,), (1, 2)]
        one = [(sv, b) for sv in ("A", "B", "C") for b in bks]
        trs = [None, ()] + [(t,) for t in one] + [(t1, t2) for t1 in one[:9] for t2 in one[3:] if t1[0] != t2[0]]
        return [{"sm": sm, "tr": tr} for sm in sms for tr in trs]

    def build(self, a):
        sm = {sh: set(s.encode() for s in ss) for sh, ss in a["sm"]}
        if a["tr"] is None:
            return sm, None
        return sm, set(stub("tracker-" + sv, buckets={sh: "bucket-writer" for sh in b}, get_serverid=(lambda v: lambda I, a_, k: v)(sv.encode())) for sv, b in a["tr"])

    def run(self, I, a):
        sm, tr = self.build(a)
        before = {k: set(v) for k, v in sm.items()}
        out = Outcome("return", I.call_value(self.target(I), [sm, tr], {}))
        out.post = {"arg_after": sm, "arg_before": before}
        return out

    def native(self, a):
        from allmydata.util.happinessutil import merge_servers

        class Tracker(object):
            def __init__(self, sv, b):
                self.sv, self.buckets = sv.encode(), {sh: "bucket-writer" for sh in b}

            def get_serverid(self):
                return self.sv
        sm = {sh: set(s.encode() for s in ss) for sh, ss in a["sm"]}
        before = {k: set(v) for k, v in sm.items()}
        tr = None if a["tr"] is None else set(Tracker(sv, tuple(b)) for sv, b in a["tr"])
        out = native_outcome(lambda: merge_servers(sm, tr))
        out.post = {"arg_after": sm, "arg_before": before}
        return out

    def ensures(self, I, a, out):
        want = {sh: set(s.encode() for s in ss) for sh, ss in a["sm"]}
        for sv, b in (a["tr"] or ()):
            for sh in b:
                want.setdefault(sh, set()).add(sv.encode())
        got = out.value
        ok = isinstance(got, dict) and {k: set(v) for k, v in got.items()} == want
        untouched = out.post["arg_after"] == out.post["arg_before"]
        fresh = (got is not out.post["arg_after"]) and all(got[k] is not out.post["arg_after"].get(k) for k in got) if isinstance(got, dict) else False
        return [("result-is-preexisting-shares-plus-the-buckets-of-the-trackers-in-use", z3.BoolVal(ok)),
                ("callers-servermap-is-not-modified", z3.BoolVal(untouched)),
                ("result-shares-no-set-with-the-callers-servermap", z3.BoolVal(fresh))]

    def canary(self, I, a, out):
        return [("canary", z3.BoolVal(out.value == out.post["arg_before"]))]


def contracts(tier):
    return [SelectorDecision(), SelectorFailed(), LocateAllShareholders(), EncoderErrorWiring(), RemoveShareholder(), EncryptedDone(), BucketClose(), AllocationFor(), PlacementsKeepAllocated(), MergeServers()]
