"""C33 Grid-manager certificates grant permission only when valid -- contracts on grid_manager.create_grid_manager_verifier / validate_grid_manager_certificate"""
import z3
from pyvc.harness import Spec, IntK, StrK, ChoiceK, Outcome
from pyvc.interp import ModelFn
from pyvc.values import *  # noqa
from contracts.lib import *  # noqa

LEVEL = "other"
MANIFEST_ENTRY = {
    "text": "create_grid_manager_verifier and the predicate it returns are executed for 0..2 grid-manager keys x 1..2 certificates whose signature validity, subject key, expiry (wall time and UTC offset) and the clock readings at creation time and at each call are unconstrained symbols: with no keys the predicate is always True; otherwise it is True exactly when some certificate verifies under some configured key, names this server's key and its expiry INSTANT is strictly after the clock reading taken AT THE CALL (a verifier built earlier and asked later uses the later time; expiry == now is refused). validate_grid_manager_certificate returns data only for a verifying signature and parses the JSON only after verification.",
    "note": "Bounded number of keys and certificates (values symbolic), hence level 'other'. Ed25519 is an uninterpreted predicate; aware datetimes are modelled as (wall, offset) integer pairs compared by instant (shims/verif_models/dt.py, executed symbolically).",
    "technique": "contract-based deductive verification (pyvc VCs + z3); numbers of keys/certificates bounded",
}
EXPLANATION = "Verifier predicate against the documented formula; clock read per call."
TRUSTED = ["ed25519.verify_signature as uninterpreted predicate", "datetime model (wall, offset)"]
ASSUMPTIONS = []
NOT_DECIDED = "storage_client wiring of the verifier into upload_permitted (C32)."
F = "allmydata/grid_manager.py"
VALID = z3.Function("gm_sig_valid", z3.IntSort(), z3.IntSort(), z3.BoolSort())     # (key index, cert index)


class Verifier(Spec):
    file = F
    qualname = "create_grid_manager_verifier"
    level = "B"
    bound = "0..2 grid-manager keys x 1..2 certificates"
    cross_check = 0
    canary_case = {"nkeys": 1, "ncerts": 1}

    def inputs(self):
        d = {"nkeys": ChoiceK([0, 1, 2]), "ncerts": ChoiceK([1, 2]), "t_create": IntK(), "t_call": IntK(), "t_call2": IntK(), "me": StrK(True)}
        for i in range(2):
            d["wall%d" % i] = IntK()
            d["off%d" % i] = IntK(-50400, 50400)
            d["pk%d" % i] = StrK(False)
        return d

    def all_cases(self):
        return [{"nkeys": k, "ncerts": c} for k in (0, 1, 2) for c in (1, 2)]

    def requires(self, I, a):
        # subject keys in certificates are ASCII (the grid manager writes base32 key strings); a signed certificate with a
        # non-ASCII subject would raise UnicodeEncodeError inside the predicate -- not claimed either way
        ascii_ = z3.Star(z3.Range(chr(0), chr(127)))
        return z3.And([Z(a["t_call"]) >= Z(a["t_create"]), Z(a["t_call2"]) >= Z(a["t_call"])] +
                      [z3.InRe(as_sstr(a["pk%d" % i]).term, ascii_) for i in range(2)])

    def config(self):
        me = self
        from verif_models.dt import DT
        from allmydata.crypto import ed25519

        def verify(I, args, kw):
            key, sig, cert = args
            if not I.path.branch(VALID(key.fields["idx"], sig)):
                raise PyRaise(SObj(ed25519.BadSignature, {"args": ()}))

        def loads(I, args, kw):
            i = args[0]
            me._parsed.append(i)
            return {"expires": ("iso", i), "public_key": me._a["pk%d" % i], "version": 1}

        def fromiso(I, args, kw):
            tok = args[-1]
            i = tok[1]
            return I.call_value(DT, [me._a["wall%d" % i], me._a["off%d" % i]], {})
        return {"overrides": {"ed25519.verify_signature": verify, "json.loads": loads, "jsonbytes.loads": loads, "datetime.fromisoformat": fromiso,
                              "ed25519.string_from_verifying_key": lambda I, a, kw: Opaque("keystr"), "builtins.print": lambda I, a, kw: None},
                "ascii_only_strings": True}

    def run(self, I, a):
        from verif_models.dt import DT
        self._a, self._parsed = a, []
        clock = [a["t_create"], a["t_call"], a["t_call2"]]
        reads = []

        def now_fn(I_, args, kw):
            # the k-th read of the clock: creation-time reads get t_create, reads inside the predicate get the call time
            t = self._phase
            reads.append(t)
            return I_.call_value(DT, [{"create": a["t_create"], "call1": a["t_call"], "call2": a["t_call2"]}[t], 0], {})
        keys = [stub("key%d" % k) for k in range(a["nkeys"])]
        for k, o in enumerate(keys):
            o.fields["idx"] = k
        certs = []
        for i in range(a["ncerts"]):
            c = stub("cert%d" % i)
            c.fields.update({"signature": i, "certificate": i})
            certs.append(c)
        bad = []
        self._phase = "create"
        pred = I.call_value(self.target(I), [keys, certs, a["me"], ModelFn("now_fn", now_fn), ModelFn("bad_cert", lambda I_, a_, k_: bad.append(1))], {})
        self._phase = "call1"
        r1 = I.call_value(pred, [], {})
        self._phase = "call2"
        r2 = I.call_value(pred, [], {})
        out = Outcome("return", (r1, r2))
        out.post = {"reads": reads}
        return out

    def formula(self, a, t):
        terms = []
        for i in range(a["ncerts"]):
            for k in range(a["nkeys"]):
                terms.append(z3.And(VALID(k, i), as_sstr(a["pk%d" % i]).term == as_sstr(a["me"]).term,
                                    Z(a["wall%d" % i]) - Z(a["off%d" % i]) > Z(t)))
        return z3.Or(terms) if terms else z3.BoolVal(False)

    def B(self, v):
        return z3.BoolVal(v) if isinstance(v, bool) else v

    def ensures(self, I, a, out):
        r1, r2 = out.value
        if a["nkeys"] == 0:
            return [("no-grid-manager-keys-means-every-server-is-permitted", z3.And(self.B(r1), self.B(r2)))]
        return [("permitted-iff-some-certificate-is-signed-by-a-configured-key-names-this-server-and-is-unexpired-now", self.B(r1) == self.formula(a, a["t_call"])),
                ("a-later-call-uses-the-later-clock-reading", self.B(r2) == self.formula(a, a["t_call2"]))]

    def canary(self, I, a, out):
        return [("canary", self.B(out.value[0]))]


class ValidateCert(Spec):
    file = F
    qualname = "validate_grid_manager_certificate"
    cross_check = 0

    def inputs(self):
        return {"valid": ChoiceK([True, False])}

    def all_cases(self):
        return [{"valid": True}, {"valid": False}]

    def config(self):
        me = self
        from allmydata.crypto import ed25519

        def verify(I, args, kw):
            me._events.append(("verify", args[1], args[2]))
            if not me._a["valid"]:
                raise PyRaise(SObj(ed25519.BadSignature, {"args": ()}))

        def loads(I, args, kw):
            me._events.append(("parse", args[0]))
            return {"parsed": args[0]}
        return {"overrides": {"ed25519.verify_signature": verify, "json.loads": loads, "jsonbytes.loads": loads}}

    def run(self, I, a):
        self._a, self._events = a, []
        c = stub("cert")
        c.fields.update({"signature": "SIG", "certificate": "CERTBYTES"})
        r = I.call_value(self.target(I), [stub("gmkey"), c], {})
        out = Outcome("return", r)
        out.post = {"events": list(self._events)}
        return out

    def ensures(self, I, a, out):
        ev = out.post["events"]
        if not a["valid"]:
            return [("bad-signature-yields-nothing-and-the-body-is-never-parsed", z3.BoolVal(out.value is None and ev == [("verify", "SIG", "CERTBYTES")]))]
        return [("verified-certificate-body-is-what-gets-parsed", z3.BoolVal(ev == [("verify", "SIG", "CERTBYTES"), ("parse", "CERTBYTES")] and out.value == {"parsed": "CERTBYTES"}))]


def contracts(tier):
    return [Verifier(), ValidateCert()]
