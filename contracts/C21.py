"""C21 Deep traversal visits every reachable object exactly once -- bounded run-time contract on dirnode.py
DirectoryNode.deep_traverse / _deep_traverse_dirnode / _deep_traverse_dirnode_children and ManifestWalker"""
import itertools
import random
import z3
from contracts.bounded_lib import pmap

LEVEL = "other"
MANIFEST_ENTRY = {
    "text": "BOUNDED stand-in, not a proof: the real DirectoryNode.deep_traverse (with real Twisted Deferreds, real Monitor and the real ManifestWalker) is run on EVERY directory graph over a root, two more directories, one CHK file and one LIT file (each directory's child set any subset of the five objects: 32,768 graphs, including shared subdirectories, self-loops and cycles through the root), plus seeded random graphs with up to 6 directories and 4 files. Contract evaluated on each run: every object reachable from the root is handed to the walker, every object that has a verify cap exactly once, nothing unreachable is reported, each reported path followed from the root by child names ends at the reported object, and the manifest lists the same (path, cap) pairs. The traversal is a chain of Deferred callbacks over a mutable `found` set; an inductive contract would need a model of that chain for unbounded graphs, which the VC generator does not have (DESIGN 6).",
    "note": "Exhaustive below the bound, sampled above it; nothing here is counted as proved. LIT files have no verify cap and are, by design, reported once per link.",
    "technique": "bounded exhaustive run-time contract checking of the real function (stand-in for deductive verification, labelled bounded)",
}
MANIFEST_ENTRY["text"] += " Bounded end-to-end stand-in (run-time contract, never counted as proved): contracts/grid_dirnode.py drives real DirectoryNodes on real StorageServers through seeded histories of edits over 3..6 directories with NFC-colliding names, compares every listing (same client, fresh client with write cap, fresh client with read cap) with a name-map model and checks build_manifest/deep-stats against the model's graph."
MANIFEST_ENTRY["technique"] += "; plus bounded end-to-end run-time scenario contracts on an in-process grid of the real components (stand-in, labelled bounded)"
EXPLANATION = "Exhaustive enumeration of small directory graphs against a reachability oracle."
TRUSTED = ["the reachability oracle in this file"]
ASSUMPTIONS = []
NOT_DECIDED = "graphs beyond the bound (only sampled); DeepStats counters; deep-check results."
_CLS = {}


def classes():
    if _CLS:
        return _CLS
    from zope.interface import implementer
    from twisted.internet import defer
    from allmydata.interfaces import IDirectoryNode, IImmutableFileNode, IFilesystemNode

    class VC(object):
        def __init__(self, s):
            self.s = s

        def to_string(self):
            return self.s

        def __eq__(self, o):
            return isinstance(o, VC) and o.s == self.s

        def __ne__(self, o):
            return not self == o

        def __hash__(self):
            return hash(self.s)

    @implementer(IImmutableFileNode)
    class FileN(object):
        def __init__(self, name, lit):
            self.name, self.lit = name, lit

        def get_verify_cap(self):
            return None if self.lit else VC(b"URI:CHK-Verifier:" + self.name.encode())

        def get_uri(self):
            return b"URI:" + self.name.encode()

        def get_storage_index(self):
            return None if self.lit else (self.name.encode() * 16)[:16]

        def get_size(self):
            return 10

        def is_mutable(self):
            return False

        def is_unknown(self):
            return False

    class BackingFile(object):
        def __init__(self, name):
            self.name = name

        def get_verify_cap(self):
            return VC(b"URI:SSK-Verifier:" + self.name.encode())

        def is_mutable(self):
            return True

        def get_size(self):
            return 100

    @implementer(IDirectoryNode)
    class DirN(object):
        def __init__(self, name):
            self.name = name
            self.kids = {}
            self._node = BackingFile(name)

        def get_verify_cap(self):
            return VC(b"URI:DIR2-Verifier:" + self.name.encode())

        def get_uri(self):
            return b"URI:DIR2:" + self.name.encode()

        def get_storage_index(self):
            return (self.name.encode() * 16)[:16]

        def list(self):
            return defer.succeed({k: (v, {}) for k, v in self.kids.items()})

        def is_mutable(self):
            return True

        def is_unknown(self):
            return False

        def get_size(self):
            return 100
    _CLS.update(VC=VC, FileN=FileN, DirN=DirN)
    return _CLS


def build(ndirs, nfiles, edges):
    C = classes()
    dirs = [C["DirN"]("D%d" % i) for i in range(ndirs)]
    files = [C["FileN"]("F%d" % i, lit=(i % 2 == 1)) for i in range(nfiles)]
    objs = dirs + files
    for (p, c) in edges:
        dirs[p].kids["to-%s" % objs[c].name] = objs[c]
    return dirs, files, objs


def check_graph(spec):
    ndirs, nfiles, edges = spec
    from allmydata.dirnode import DirectoryNode, ManifestWalker
    dirs, files, objs = build(ndirs, nfiles, edges)
    root = dirs[0]
    # oracle: reachable objects
    reach, stack = {id(root): root}, [root]
    while stack:
        d = stack.pop()
        for c in d.kids.values():
            if id(c) not in reach:
                reach[id(c)] = c
                if hasattr(c, "kids"):
                    stack.append(c)
    visits = []

    class Walker(ManifestWalker):
        def add_node(self, node, path):
            visits.append((node, tuple(path)))
            return ManifestWalker.add_node(self, node, path)

        def enter_directory(self, parent, children):
            return None
    problems = []
    try:
        w = Walker(root)
        for nm in ("deep_traverse", "_deep_traverse_dirnode", "_deep_traverse_dirnode_children"):
            setattr(type(root), nm, getattr(DirectoryNode, nm))
        mon = root.deep_traverse(w)
        if not mon.is_finished():
            problems.append("traversal did not finish synchronously")
        status = mon.get_status()
    except Exception as e:      # noqa
        return (spec, ["raised %r" % (e,)])
    seen = {}
    for node, path in visits:
        seen.setdefault(id(node), []).append(path)
        cur = root
        ok = True
        for nm in path:
            if not hasattr(cur, "kids") or nm not in cur.kids:
                ok = False
                break
            cur = cur.kids[nm]
        if not ok or cur is not node:
            problems.append("path %r does not lead to %s" % (path, node.name))
    for i, o in reach.items():
        n = len(seen.get(i, []))
        if n == 0:
            problems.append("%s reachable but never visited" % o.name)
        elif n > 1 and o.get_verify_cap() is not None:
            problems.append("%s visited %d times" % (o.name, n))
    for i in seen:
        if i not in reach:
            problems.append("unreachable object visited")
    if isinstance(status, dict) and "manifest" in status:
        want = sorted((p, n.get_uri()) for n, p in visits)
        if sorted(status["manifest"]) != want:
            problems.append("manifest differs from the visits")
    elif not problems:
        problems.append("no manifest in results: %r" % (status,))
    return (spec, problems)


def all_graphs():
    # 3 directories (0 = root), 2 files: every child set for every directory
    for bits in range(1 << 15):
        edges = [(p, c) for p in range(3) for c in range(5) if bits >> (5 * p + c) & 1]
        yield (3, 2, edges)


def contracts(tier):
    return []


def extra_checks(rep, tier):
    from contracts import grid_dirnode
    grid_dirnode.grid_check(rep, tier, "C21")
    graphs = list(all_graphs())
    rng = random.Random(rep.seed * 5 + 2)
    for _ in range(500 if tier == "quick" else 20000):
        nd, nf = rng.randint(1, 6), rng.randint(0, 4)
        graphs.append((nd, nf, sorted(set((rng.randrange(nd), rng.randrange(nd + nf)) for _ in range(rng.randint(0, 14))))))
    results = pmap(check_graph, graphs)
    name = "DeepTraverse:every-reachable-object-visited-exactly-once-and-paths-lead-to-their-objects"
    rep.obligations += 1
    rep.bounded_obligations += 1
    rep.paths += len(graphs)
    rep.sym_paths += sum(1 for g in graphs if len(g[2]) >= 2)
    rep.bounds.append("every graph over root + 2 directories + 1 CHK file + 1 LIT file (32768 graphs) + %d seeded random graphs up to 6 directories x 4 files" % (len(graphs) - 32768))
    rep.samples.append({"obligation": name, "graph_example": graphs[12345][2], "evaluations": len(graphs)})
    bad = [(g, p) for g, p in results if p]
    if not bad:
        rep.discharged += 1
        rep.discharged_names.add(name)
        return
    g, p = min(bad, key=lambda x: len(x[0][2]))
    rep.violations.append({"property": "C21", "contract": "DeepTraverse", "obligation": name, "status": "runtime",
                           "inputs": {"directories": g[0], "files": g[1], "edges_parent_child": g[2]},
                           "native_outcome": "%s (%d of %d graphs fail)" % ("; ".join(p[:3]), len(bad), len(graphs)), "confirmed_on_real_code": True})
