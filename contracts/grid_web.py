"""Run-time scenario contract for the web API's authority rule (bounded stand-in used by C41): the REAL web resources
(allmydata.web.root.URIHandler -> directory / filenode handlers) are rendered in memory (treq's StubTreq over a twisted.web
Site) on top of the real in-process grid (contracts/real_grid.py).  A small directory tree of real objects is built; then
every mutating request the API offers is sent through READ caps: each must be refused, the share files of every object in
the tree must be byte-identical afterwards, and no response obtained through a read cap (JSON, HTML, ?t=uri ...) may contain
the write cap of any object of the tree.  The same requests through the write caps must work (so that refusal is not vacuous).

    python -m contracts.grid_web <seed> <number of scenarios>      -> one JSON object on stdout
"""
import json
import random
import sys
import warnings


def main_(seed, nscen):
    warnings.simplefilter("ignore")
    from allmydata.util import cputhreadpool
    cputhreadpool._DISABLED = True
    from urllib.parse import quote
    from twisted.internet import defer, reactor, task
    from twisted.web.resource import Resource
    from treq.testing import StubTreq
    from allmydata import client, uri
    from allmydata.nodemaker import NodeMaker
    from allmydata.interfaces import SDMF_VERSION, MDMF_VERSION
    from allmydata.immutable import upload
    from allmydata.mutable.publish import MutableData
    from allmydata.web.root import URIHandler
    from contracts import real_grid

    rng = random.Random(seed)
    report = {"scenarios": 0, "refused_requests": 0, "read_requests": 0, "control_requests": 0, "problems": [], "notes": {}}

    def note(k_):
        report["notes"][k_] = report["notes"].get(k_, 0) + 1

    def with_timeout(d, seconds=60):
        out = defer.Deferred()
        state = []

        def fire(v):
            if not state:
                state.append(1)
                out.callback(v)
        d.addCallbacks(lambda r: fire(("done", r)), lambda f: fire(("failed", f)))
        dc = reactor.callLater(seconds, lambda: fire(("hang", None)))
        out.addBoth(lambda v: (dc.active() and dc.cancel(), v)[1])
        return out

    @defer.inlineCallbacks
    def scenario(idx):
        g = real_grid.build(num_servers=3, k=1, happy=1, n=3)
        pump = None
        try:
            class Terminator(object):
                def register(self, x):
                    pass
            nm = NodeMaker(g.storage_broker, g.secret_holder, None, g.uploader, Terminator(), dict(g.params), SDMF_VERSION, client.KeyGenerator())

            class WebClient(object):
                nodemaker = nm
                convergence = b"c" * 16
                mutable_file_default = SDMF_VERSION
                nickname = "verif"
                stats_provider = None

                def create_node_from_uri(self, write_uri, read_uri=None, deep_immutable=False, name="<unknown name>"):
                    return nm.create_from_cap(write_uri, read_uri, deep_immutable=deep_immutable, name=name)

                def create_dirnode(self, initial_children=None, version=None):
                    return nm.create_new_mutable_directory(initial_children or {}, version=version)

                def create_immutable_dirnode(self, children, convergence=None):
                    return nm.create_immutable_directory(children, convergence or self.convergence)

                def create_mutable_file(self, contents=None, version=None):
                    return nm.create_mutable_file(contents, version=version)

                def upload(self, uploadable, reactor=None):
                    return g.uploader.upload(uploadable, reactor=reactor)

                def get_history(self):
                    return None

                def get_storage_broker(self):
                    return g.storage_broker

                def getServiceNamed(self, name):
                    return g.uploader

                def get_web_service(self):
                    return self

                def get_operations(self):
                    return ophandles
            from allmydata.web.operations import OphandleTable
            ophandles = OphandleTable()
            wc = WebClient()
            root = Resource()
            root.putChild(b"uri", URIHandler(wc))
            stub = StubTreq(root)
            pump = task.LoopingCall(stub.flush)
            pump.start(0.002)

            @defer.inlineCallbacks
            def http(method, path, body=None):
                st, resp = yield with_timeout(stub.request(method, "http://127.0.0.1" + path, data=body))
                if st != "done":
                    return (st, None, b"")
                st2, content = yield with_timeout(resp.content())
                return ("done", resp.code, content if st2 == "done" else b"")

            # ---------------------------------------------------------------- the tree: D/{m, chk, lit, S/{m2}}
            fmt = rng.choice([SDMF_VERSION, MDMF_VERSION])
            D = yield nm.create_new_mutable_directory({}, version=fmt)
            S = yield nm.create_new_mutable_directory({}, version=rng.choice([SDMF_VERSION, MDMF_VERSION]))
            m = yield nm.create_mutable_file(MutableData(b"mutable child contents %d" % idx), version=rng.choice([SDMF_VERSION, MDMF_VERSION]))
            m2 = yield nm.create_mutable_file(MutableData(b"grandchild contents"), version=SDMF_VERSION)
            res = yield g.uploader.upload(upload.Data(bytes(range(200)) * 2, convergence=b"w"))
            chk = res.get_uri()
            lit = uri.LiteralFileURI(b"tiny").to_string()
            yield S.set_uri("m2", m2.get_uri(), m2.get_readonly_uri())
            yield D.set_uri("m", m.get_uri(), m.get_readonly_uri())
            yield D.set_uri("chk", chk, chk)
            yield D.set_uri("lit", lit, lit)
            yield D.set_uri("S", S.get_uri(), S.get_readonly_uri())
            secrets = {"D": D.get_uri(), "S": S.get_uri(), "m": m.get_uri(), "m2": m2.get_uri()}
            # a write-cap holder is active in the same gateway: its nodes (obtained from the cap strings, hence in the node cache) stay alive
            holders = [nm.create_from_cap(c_) for c_ in secrets.values()] if idx % 2 == 0 else []
            sis = [x.get_storage_index() for x in (D, S, m, m2)]

            def snapshot():
                out = {}
                for si in sis:
                    for key, path in g.share_files(si).items():
                        with open(path, "rb") as f:
                            out[(si, key)] = f.read()
                return out

            def q(cap):
                return quote(cap.decode("ascii"), safe="")
            Dro, Sro, mro, m2ro = q(D.get_readonly_uri()), q(S.get_readonly_uri()), q(m.get_readonly_uri()), q(m2.get_readonly_uri())
            Drw = q(D.get_uri())
            newfile = q(lit)
            other_dir = yield nm.create_new_mutable_directory({})
            # ---------------------------------------------------------------- mutations through read caps: all must be refused
            attempts = [
                ("PUT", "/uri/%s/newfile" % Dro, b"data"),
                ("PUT", "/uri/%s/newfile?format=mdmf" % Dro, b"data"),
                ("PUT", "/uri/%s/m" % Dro, b"overwrite the mutable child"),
                ("PUT", "/uri/%s/lit" % Dro, b"replace the literal child"),
                ("PUT", "/uri/%s/newdir?t=mkdir" % Dro, None),
                ("PUT", "/uri/%s/S/deeper?t=mkdir" % Dro, None),
                ("PUT", "/uri/%s/S/m2" % Dro, b"overwrite the grandchild through two read-only hops"),
                ("PUT", "/uri/%s/x?t=uri" % Dro, lit),
                ("PUT", "/uri/%s" % mro, b"overwrite a mutable file through its read cap"),
                ("PUT", "/uri/%s" % m2ro, b"overwrite"),
                ("POST", "/uri/%s?t=mkdir&name=newdir" % Dro, None),
                ("POST", "/uri/%s?t=delete&name=m" % Dro, None),
                ("POST", "/uri/%s?t=unlink&name=chk" % Dro, None),
                ("POST", "/uri/%s?t=rename&from_name=m&to_name=renamed" % Dro, None),
                ("POST", "/uri/%s?t=relink&from_name=m&to_dir=%s&to_name=moved" % (Dro, q(other_dir.get_uri())), None),
                ("POST", "/uri/%s?t=uri&name=linked&uri=%s" % (Dro, newfile), None),
                ("POST", "/uri/%s?t=set_children" % Dro, json.dumps({"injected": ["filenode", {"ro_uri": lit.decode("ascii")}]}).encode("ascii")),
                ("POST", "/uri/%s/S?t=delete&name=m2" % Dro, None),
                ("POST", "/uri/%s?t=mkdir-with-children&name=z" % Dro, b"{}"),
                ("DELETE", "/uri/%s/m" % Dro, None),
                ("DELETE", "/uri/%s/S" % Dro, None),
                ("DELETE", "/uri/%s/S/m2" % Dro, None),
            ]
            rng.shuffle(attempts)
            for (method, path, body) in attempts[:rng.randint(10, len(attempts))]:
                before = snapshot()
                st, code, content = yield http(method, path, body)
                report["refused_requests"] += 1
                where = {"request": [method, path.replace(Dro, "<D:ro>").replace(Sro, "<S:ro>").replace(mro, "<m:ro>").replace(m2ro, "<m2:ro>")[:160]], "directory_format": "MDMF" if fmt == MDMF_VERSION else "SDMF"}
                if st == "hang":
                    report["problems"].append(dict(where, kind="web_hang", what="request %s" % st))
                    return
                if st == "failed":
                    # the connection ends without an answer: an exception humanize_exception() does not know (NotWriteableError) becomes
                    # ErrorPage(code=None), whose rendering raises TypeError inside twisted.web -- refused, if clumsily (observation)
                    note("refused by dropping the connection (ErrorPage with code None)")
                    code, content = 599, b""
                after = snapshot()
                if after != before:
                    changed = [k_ for k_ in set(before) | set(after) if before.get(k_) != after.get(k_)]
                    report["problems"].append(dict(where, kind="write_through_read_cap", what="HTTP %s: %d share files of the tree changed although only read caps were used (%r)" % (code, len(changed), content[:120])))
                    return
                if code < 400:
                    report["problems"].append(dict(where, kind="write_through_read_cap", what="answered HTTP %d (%r) instead of an error" % (code, content[:120])))
                    return
                if any(s_ in content for s_ in secrets.values()):
                    report["problems"].append(dict(where, kind="write_cap_disclosed", what="the error page contains a write cap of the tree"))
                    return
            # ---------------------------------------------------------------- reads through read caps: must work and disclose no write cap
            reads = ["/uri/%s?t=json" % Dro, "/uri/%s/?t=json" % Dro, "/uri/%s/" % Dro, "/uri/%s?t=uri" % Dro, "/uri/%s?t=readonly-uri" % Dro, "/uri/%s?t=info" % Dro,
                     "/uri/%s/S?t=json" % Dro, "/uri/%s/S/" % Dro, "/uri/%s/m?t=json" % Dro, "/uri/%s/m?t=uri" % Dro, "/uri/%s/m?t=readonly-uri" % Dro, "/uri/%s/m?t=info" % Dro,
                     "/uri/%s/S/m2?t=json" % Dro, "/uri/%s/S/m2?t=uri" % Dro, "/uri/%s/m" % Dro, "/uri/%s/chk" % Dro, "/uri/%s?t=json" % mro, "/uri/%s?t=uri" % mro,
                     "/uri/%s?t=json" % Sro, "/uri/%s/S?t=uri" % Dro, "/uri/%s/S?t=readonly-uri" % Dro, "/uri/%s?t=rename-form&name=m" % Dro]
            for path in reads:
                st, code, content = yield http("GET", path)
                report["read_requests"] += 1
                where = {"request": ["GET", path.replace(Dro, "<D:ro>").replace(Sro, "<S:ro>").replace(mro, "<m:ro>")[:160]]}
                if st != "done":
                    report["problems"].append(dict(where, kind="web_hang", what="request %s" % st))
                    return
                leaked = [nm_ for nm_, s_ in secrets.items() if s_ in content]
                if leaked:
                    report["problems"].append(dict(where, kind="write_cap_disclosed", what="HTTP %d response obtained through a read cap contains the write cap of %r" % (code, leaked)))
                    return
                if code >= 400:
                    note("GET %s through a read cap answered %d" % (path.split("?")[-1] if "?" in path else "plain", code))
            st, code, content = yield http("GET", "/uri/%s/m" % Dro)
            if code != 200 or content != b"mutable child contents %d" % idx:
                report["problems"].append({"kind": "read_cap_cannot_read", "what": "GET of the mutable child through the read-only directory: HTTP %s %r" % (code, content[:60])})
                return
            # ---------------------------------------------------------------- control: the write cap can do the same things
            controls = [("PUT", "/uri/%s/newfile" % Drw, b"data"), ("POST", "/uri/%s?t=mkdir&name=newdir" % Drw, None), ("POST", "/uri/%s?t=delete&name=lit" % Drw, None),
                        ("PUT", "/uri/%s/m" % Drw, b"new contents"), ("POST", "/uri/%s?t=rename&from_name=chk&to_name=renamed" % Drw, None)]
            for (method, path, body) in controls:
                st, code, content = yield http(method, path, body)
                report["control_requests"] += 1
                if st != "done" or code >= 400:
                    report["problems"].append({"kind": "harness", "what": "control request %s %s through the WRITE cap failed: %s %s %r" % (method, path.replace(Drw, "<D:rw>")[:80], st, code, content[:200])})
                    return
            st, listing = yield with_timeout(nm.create_from_cap(D.get_uri()).list())
            names = sorted(listing) if st == "done" else None
            if names != sorted(["m", "S", "renamed", "newfile", "newdir"]):
                report["problems"].append({"kind": "harness", "what": "after the control requests the directory lists %r" % (names,)})
                return
            st, code, content = yield http("GET", "/uri/%s?t=json" % Drw)
            if code != 200 or secrets["m"] not in content:
                report["problems"].append({"kind": "harness", "what": "the write cap's JSON listing does not show the child's write cap (the disclosure check would be vacuous)"})
                return
            del holders
            report["scenarios"] += 1
        finally:
            if pump is not None and pump.running:
                pump.stop()
            g.cleanup()

    @defer.inlineCallbacks
    def run_all():
        for i in range(nscen):
            yield scenario(i)

    def go():
        d = run_all()
        d.addErrback(lambda f: report["problems"].append({"kind": "harness", "what": "harness error: " + f.getTraceback()[-1500:]}))
        d.addBoth(lambda _: reactor.stop())
    reactor.callWhenRunning(go)
    reactor.run()
    print(json.dumps(report))


BOUND = ("web API authority scenarios: real URIHandler/directory/filenode resources rendered in memory over the real in-process grid; a tree D/{m, chk, lit, S/{m2}} of real SDMF/MDMF objects, in every other scenario with write-cap nodes of the same objects alive in the gateway's node cache; "
         "10..22 of 22 mutating requests (PUT/POST/DELETE: upload, replace, mkdir, delete, unlink, rename, relink, link, set_children, at depth 0..2) sent through read caps, 22 GET forms "
         "(t=json, t=uri, t=readonly-uri, t=info, HTML, contents) through read caps, 5 control mutations through the write cap")
KINDS = {"C41": (("write_through_read_cap", "write_cap_disclosed", "read_cap_cannot_read", "web_hang"), "requests-made-with-read-caps-change-nothing-and-learn-no-write-cap")}


def grid_check(rep, tier, prop):
    from contracts import scenario_runner
    kinds, name = KINDS[prop]
    scenario_runner.run(rep, tier, prop, "grid_web", kinds, name, BOUND, ("scenarios", "refused_requests", "read_requests", "control_requests"), quick=(8, 4), thorough=(16, 60), contract="WebScenarios")


if __name__ == "__main__":
    main_(int(sys.argv[1]), int(sys.argv[2]))
