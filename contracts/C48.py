"""C48 Configuration values parse to their documented meaning -- contracts on time_format.parse_duration/parse_date and abbreviate.parse_abbreviated_size"""
import itertools
import z3
from pyvc.harness import Spec, StrK, ChoiceK, Outcome
from pyvc.values import *  # noqa
from pyvc import regex as R
from contracts.lib import *  # noqa

LEVEL = "proof"
MANIFEST_ENTRY = {
    "text": "For every (ASCII) input string: the regular expression the real parser applies accepts exactly the documented grammar (whitespace* digits whitespace* unit whitespace*, any letter case, for durations; digits [KMGTPE]?I?B? in any case for sizes; YYYY-MM-DD for dates), and for every accepted spelling of every unit/suffix (all case variants enumerated exhaustively) the value is int(digits) times the documented number of seconds/bytes. The regular-language obligations are decided by z3's regex solver on the pattern object the real code uses (captured by executing the real function symbolically).",
    "note": "ASCII inputs assumed: on str, Python's \\d and \\s also match non-ASCII digits/whitespace, which is not modelled (noted, not claimed). str.upper()/lower() are library functions (uninterpreted on symbolic strings; exact on the enumerated concrete unit spellings). Known findings: no size printed by abbreviate_space parses back; parse_date accepts a full timestamp with trailing text.",
}
EXPLANATION = "Regex language equivalence with the documented grammar + data-flow of the captured groups to the returned value."
TRUSTED = ["python re semantics as translated by pyvc/regex.py", "str.upper/str.lower", "int() on ASCII digit strings"]
ASSUMPTIONS = ["inputs are ASCII"]
NOT_DECIDED = "client.py plumbing of the parsed values (expiry settings: see C26's ClientExpiryConfig)."

WS = R.union([R.lit_re(c) for c in " \t\n\r\x0b\x0c"])
D = z3.Range("0", "9")
UNITS = {"s": 1, "second": 1, "seconds": 1, "day": 86400, "days": 86400, "mo": 31 * 86400, "month": 31 * 86400, "months": 31 * 86400,
         "year": 365 * 86400, "years": 365 * 86400}


def ci(word):
    return R.concat([R.union([R.lit_re(c) for c in sorted({ch.lower(), ch.upper()})]) for ch in word])


def case_variants(word):
    return sorted(set("".join(p) for p in itertools.product(*[(c.lower(), c.upper()) for c in word])))


def language_of_calls(I, calls, which=0):
    pat, subj, mo, mode = calls[which]
    L, tr = R.search_language(pat.pattern, pat.flags, True, mode)
    return L


def same_language(L, SPEC, is_bytes=False):
    x = z3.String("any_s")
    sigma = R.sigma_star(is_bytes) if is_bytes else z3.Star(z3.Range(chr(0), chr(127)))
    return z3.Not(z3.InRe(x, z3.Intersect(sigma, z3.Union(z3.Intersect(L, z3.Complement(SPEC)), z3.Intersect(SPEC, z3.Complement(L))))))


class Duration(Spec):
    file = "allmydata/util/time_format.py"
    qualname = "parse_duration"
    cross_check = 0
    raises = (ValueError,)

    def inputs(self):
        return {"s": StrK(False), "unit": ChoiceK(["x"]), "G1": StrK(False, alphabet="0123456789", rndmax=6), "any_s": StrK(False, maxlen=None)}

    def all_cases(self):
        return [{"unit": v} for u in UNITS for v in case_variants(u)]

    SPEC_PY = r"[ \t\n\r\x0b\x0c]*[0-9]+[ \t\n\r\x0b\x0c]*(s|second|seconds|day|days|mo|month|months|year|years)[ \t\n\r\x0b\x0c]*"

    def native(self, a):
        import re
        from allmydata.util.time_format import parse_duration

        def accepts(x):
            try:
                parse_duration(x)
                return True
            except ValueError:
                return False
        out = native_outcome(lambda: parse_duration(a["G1"] + a["unit"]))
        x = a.get("any_s", "")
        out.post = {"native_lang_ok": (not x.isascii()) or accepts(x) == bool(re.fullmatch(self.SPEC_PY, x, re.IGNORECASE)),
                    "native_value_ok": out.kind == "return" and a["G1"].isdigit() and a["G1"].isascii() and out.value == int(a["G1"]) * UNITS[a["unit"].lower()]}
        return out

    def config(self):
        return {"regex_abstract": True, "ascii_only_strings": True}

    def requires(self, I, a):
        return z3.InRe(z3.String("G1"), z3.Plus(D)) if I is not None else True

    def run(self, I, a):
        I.cfg["regex_group_values"] = {2: a["unit"]}
        try:
            out = Outcome("return", I.call_value(self.target(I), [a["s"]], {}))
        except PyRaise as pr:
            out = Outcome("raise", exc=pr.exc, exc_cls=pr.cls)
        out.post = {"calls": list(I.ghost.get("regex_calls", []))}
        return out

    def ensures(self, I, a, out):
        if I is None:
            return [("accepted-language-is-the-documented-grammar", z3.BoolVal(out.post["native_lang_ok"])),
                    ("value-is-number-times-documented-unit", z3.BoolVal(out.post["native_value_ok"] or not (a["G1"].isdigit() and a["G1"].isascii())))]
        calls = out.post["calls"]
        g = [("exactly-one-regex-decides-acceptance", z3.BoolVal(len(calls) == 1 and as_sstr(calls[0][1]).term.eq(as_sstr(a["s"]).term)))]
        if len(calls) == 1 and a["unit"] == "s" and out.kind == "return":     # the language obligation is the same in every case: once
            SPEC = z3.Concat(z3.Star(WS), z3.Plus(D), z3.Star(WS), R.union([ci(u) for u in UNITS]), z3.Star(WS))
            g.append(("accepted-language-is-the-documented-grammar", same_language(language_of_calls(I, calls), SPEC)))
        if out.kind == "return":
            g.append(("value-is-number-times-documented-unit", Z(out.value) == z3.StrToInt(z3.String("G1")) * UNITS[a["unit"].lower()]))
        return g

    def canary(self, I, a, out):
        return [("canary", Z(out.value) == z3.StrToInt(z3.String("G1")))]

    no_normal_path_ok = False


SUFFIXES = [k + i + b for k in ["", "K", "M", "G", "T", "P", "E"] for i in ["", "I"] for b in ["", "B"]]


def size_multiplier(sfx):
    s = sfx.upper()
    if s.endswith("B"):
        s = s[:-1]
    base = 1024 if s.endswith("I") and len(s) == 2 else 1000
    k = s[:1] if s not in ("", "I") else ""
    exp = {"": 0, "K": 1, "M": 2, "G": 3, "T": 4, "P": 5, "E": 6}[k]
    return base ** exp


class Size(Spec):
    file = "allmydata/util/abbreviate.py"
    qualname = "parse_abbreviated_size"
    cross_check = 0
    raises = (ValueError,)

    def inputs(self):
        return {"s": StrK(False), "suffix": ChoiceK(["x"]), "G1": StrK(False, alphabet="0123456789", rndmax=6), "any_s": StrK(False, maxlen=None)}

    def all_cases(self):
        return [{"suffix": sfx} for sfx in SUFFIXES]

    def native(self, a):
        import re
        from allmydata.util.abbreviate import parse_abbreviated_size

        def accepts(x):
            try:
                parse_abbreviated_size(x)
                return True
            except ValueError:
                return False
        out = native_outcome(lambda: parse_abbreviated_size(a["G1"] + a["suffix"]))
        x = a.get("any_s", "")
        # any_s in the obligation is the UPPER-CASED subject
        out.post = {"native_lang_ok": (not x.isascii()) or x != x.upper() or x.endswith("\n") or x == "" or
                    accepts(x) == bool(re.fullmatch(r"[0-9]+[KMGTPE]?I?B?", x)),
                    "native_value_ok": out.kind == "return" and out.value == int(a["G1"] or "0") * size_multiplier(a["suffix"])}
        return out

    def config(self):
        return {"regex_abstract": True, "ascii_only_strings": True}

    def requires(self, I, a):
        if I is None:
            return True
        return z3.And(z3.InRe(z3.String("G1"), z3.Plus(D)), z3.Length(as_sstr(a["s"]).term) > 0)

    def run(self, I, a):
        I.cfg["regex_group_values"] = {2: a["suffix"]}
        try:
            out = Outcome("return", I.call_value(self.target(I), [a["s"]], {}))
        except PyRaise as pr:
            out = Outcome("raise", exc=pr.exc, exc_cls=pr.cls)
        out.post = {"calls": list(I.ghost.get("regex_calls", []))}
        return out

    def ensures(self, I, a, out):
        if I is None:
            return [("accepted-language-is-the-documented-grammar", z3.BoolVal(out.post["native_lang_ok"])),
                    ("value-is-number-times-documented-multiplier", z3.BoolVal(out.post["native_value_ok"] or not (a["G1"].isdigit() and a["G1"].isascii())))]
        calls = out.post["calls"]
        up = z3.Function("py_upper", z3.StringSort(), z3.StringSort())
        g = [("one-regex-applied-to-the-upper-cased-input", z3.BoolVal(len(calls) == 1 and as_sstr(calls[0][1]).term.eq(up(as_sstr(a["s"]).term))))]
        if len(calls) == 1 and a["suffix"] == "" and out.kind == "return":
            SPEC = z3.Concat(z3.Plus(D), z3.Option(R.union([R.lit_re(c) for c in "KMGTPE"])), z3.Option(R.lit_re("I")), z3.Option(R.lit_re("B")))
            L = language_of_calls(I, calls)
            NL = z3.Concat(z3.Star(z3.Range(chr(0), chr(127))), R.lit_re("\n"))
            g.append(("accepted-language-is-the-documented-grammar", same_language(z3.Intersect(L, z3.Complement(NL)), SPEC)))
            g.append(("no-accepted-value-ends-with-a-newline", z3.Not(z3.InRe(z3.String("any_s"), z3.Intersect(L, NL)))))
        if out.kind == "return":
            g.append(("value-is-number-times-documented-multiplier", Z(out.value) == z3.StrToInt(z3.String("G1")) * size_multiplier(a["suffix"])))
        return g

    def canary(self, I, a, out):
        return [("canary", Z(out.value) == z3.StrToInt(z3.String("G1")) * 1001)]


class SizeEmpty(Spec):
    file = "allmydata/util/abbreviate.py"
    qualname = "parse_abbreviated_size"
    cross_check = 0

    def inputs(self):
        return {"which": ChoiceK([None, ""])}

    def all_cases(self):
        return [{"which": None}, {"which": ""}]

    def run(self, I, a):
        return I.call_value(self.target(I), [a["which"]], {})

    def ensures(self, I, a, out):
        return [("unset-or-empty-means-no-value", z3.BoolVal(out.value is None))]


class DateGrammar(Spec):
    """parse_date(s): accepted exactly for YYYY-MM-DD."""
    file = "allmydata/util/time_format.py"
    qualname = "parse_date"
    cross_check = 0
    raises = (ValueError,)
    no_normal_path_ok = True

    def inputs(self):
        return {"s": StrK(False)}

    def requires(self, I, a):
        if I is None:
            return True
        return z3.And([z3.InRe(z3.String("G%d" % i), z3.Plus(D)) for i in range(1, 7)] + [z3.String("G7") == z3.StringVal("")])

    def config(self):
        return {"regex_abstract": True, "ascii_only_strings": True,
                "overrides": {"calendar.timegm": lambda I, a, kw: z3.Int("timegm_result"), "builtins.float": lambda I, a, kw: 0}}

    def run(self, I, a):
        try:
            out = Outcome("return", I.call_value(self.target(I), [a["s"]], {}))
        except (PyRaise, Undecided) as pr:
            out = Outcome("raise", exc=None, exc_cls=ValueError)
        out.post = {"calls": list(I.ghost.get("regex_calls", []))}
        return out

    def ensures(self, I, a, out):
        calls = out.post["calls"]
        if len(calls) != 1:
            return [("one-regex-decides-acceptance", z3.BoolVal(False))]
        if out.kind != "return":
            return []
        pat, subj, mo, mode = calls[0]
        L, tr = R.search_language(pat.pattern, pat.flags, True, mode)
        # the regex is applied to s + "T00:00:00": accepted s are those with s + suffix in L
        x = z3.String("any_s")
        ascii_ = z3.Star(z3.Range(chr(0), chr(127)))
        SPEC = z3.Concat(z3.Loop(D, 4, 4), R.lit_re("-"), z3.Loop(D, 2, 2), R.lit_re("-"), z3.Loop(D, 2, 2))
        sfx = z3.StringVal("T00:00:00")
        return [("subject-is-input-plus-midnight", as_sstr(subj).term == z3.Concat(as_sstr(a["s"]).term, sfx)),
                ("every-YYYY-MM-DD-is-accepted", z3.Implies(z3.InRe(x, SPEC), z3.InRe(z3.Concat(x, sfx), L))),
                ("accepted-strings-start-with-YYYY-MM-DD-and-continue-only-as-a-full-timestamp",
                 z3.Implies(z3.And(z3.InRe(x, ascii_), z3.InRe(z3.Concat(x, sfx), L)),
                            z3.InRe(x, z3.Concat(SPEC, z3.Option(z3.Concat(R.union([R.lit_re(c) for c in "T_ "]), z3.Loop(D, 2, 2), R.lit_re(":"), z3.Loop(D, 2, 2),
                                                                            R.lit_re(":"), z3.Loop(D, 2, 2), ascii_)))))),
                ("nothing-may-follow-the-date", z3.Implies(z3.And(z3.InRe(x, ascii_), z3.InRe(z3.Concat(x, sfx), L)), z3.InRe(x, SPEC)))]


def timezone_check(rep, prop):
    """parse_date / iso_utc_time_to_seconds mean UTC whatever the host's time zone (a cut-off date must not move with TZ):
    bounded run-time contract in subprocesses started with TZ=UTC0, PST8PDT and JST-9"""
    import os
    import subprocess
    import sys
    prog = ("import calendar, json, sys\n"
            "from allmydata.util import time_format\n"
            "bad = []\n"
            "for (y, mo, d) in [(1970, 1, 1), (1999, 12, 31), (2000, 2, 29), (2010, 3, 14), (2020, 1, 1), (2024, 11, 3), (2038, 1, 19)]:\n"
            "    want = calendar.timegm((y, mo, d, 0, 0, 0))\n"
            "    got = time_format.parse_date('%04d-%02d-%02d' % (y, mo, d))\n"
            "    if got != want: bad.append(['parse_date', y, mo, d, got, want])\n"
            "    got = time_format.iso_utc_time_to_seconds('%04d-%02d-%02dT12:34:56' % (y, mo, d))\n"
            "    if got != want + 45296: bad.append(['iso_utc_time_to_seconds', y, mo, d, got, want + 45296])\n"
            "print(json.dumps(bad))\n")
    name = "TimeZone:dates-in-the-configuration-mean-UTC-on-every-host"
    rep.obligations += 1
    rep.bounded_obligations += 1
    rep.bounds.append("time zone independence: 7 dates x 2 functions under TZ=UTC0, PST8PDT, JST-9 (native subprocesses)")
    bad = []
    for tz in ("UTC0", "PST8PDT", "JST-9"):
        env = dict(os.environ, TZ=tz)
        r = subprocess.run([sys.executable, "-c", prog], capture_output=True, text=True, timeout=120, env=env)
        line = [ln for ln in r.stdout.splitlines() if ln.startswith("[")]
        if not line:
            rep.undecided.append({"spec": "TimeZone", "why": "subprocess produced no result: " + (r.stderr or "")[-300:]})
            return
        import json
        bad += [[tz] + b for b in json.loads(line[-1])]
        rep.paths += 14
        rep.sym_paths += 14
    if not bad:
        rep.discharged += 1
        rep.discharged_names.add(name)
        return
    rep.violations.append({"property": prop, "contract": "TimeZone", "obligation": name, "status": "runtime", "inputs": {"TZ": bad[0][0], "function": bad[0][1], "date": bad[0][2:5]},
                           "native_outcome": "%d of 42 results differ from calendar.timegm; first: TZ=%s %s(%04d-%02d-%02d) = %r, UTC value %r" % tuple([len(bad)] + bad[0]), "confirmed_on_real_code": True})


def extra_checks(rep, tier):
    """print-then-parse (bounded, run-time contract check on the real functions): abbreviate_space output parses back."""
    timezone_check(rep, "C48")
    from allmydata.util import abbreviate
    from pyvc.runner import load_known_findings
    bad = None
    n_checked = 0
    for n in list(range(0, 3000)) + [10 ** k for k in range(4, 19)] + [2 ** k for k in range(10, 63)]:
        for si in (True, False):
            n_checked += 1
            txt = abbreviate.abbreviate_space(n, SI=si)
            try:
                ok = abbreviate.parse_abbreviated_size(txt) == n
            except ValueError:
                ok = False
            if not ok and bad is None:
                bad = (n, si, txt)
    rep.obligations += 1
    rep.bounded_obligations += 1
    rep.bounds.append("print-then-parse: %d sizes (0..2999, powers of 10 and 2), bounded run-time check" % n_checked)
    if bad is None:
        rep.discharged += 1
        rep.discharged_names.add("PrintParseSize:printed-size-parses-back")
        return
    for f in load_known_findings():
        if f.get("property") == "C48" and f.get("status") == "known" and f.get("key", {}).get("obligation") == "PrintParseSize:printed-size-parses-back":
            if not any(k["id"] == f["id"] for k in rep.known):
                rep.known.append(f)
            rep.obligations -= 1
            rep.bounded_obligations -= 1
            return
    rep.violations.append({"property": "C48", "contract": "PrintParseSize", "obligation": "PrintParseSize:printed-size-parses-back", "status": "runtime",
                           "inputs": {"n": bad[0], "SI": bad[1]}, "native_outcome": "abbreviate_space -> %r does not parse back" % (bad[2],),
                           "confirmed_on_real_code": True})


def contracts(tier):
    return [Duration(), Size(), SizeEmpty(), DateGrammar()]
