"""C25 Lease semantics -- contracts on storage/immutable.py ShareFile lease operations, lease.py and lease_schema.py"""
import os
import z3
from pyvc.harness import Spec, IntK, BoolK, BytesArrK, ChoiceK, Outcome
from pyvc.values import *  # noqa
from pyvc.models_ext2 import PathTok
from pyvc.models_tahoe import canon_arr
from contracts.lib import *  # noqa

LEVEL = "other"
MANIFEST_ENTRY = {
    "text": "ShareFile.renew_lease / add_or_renew_lease are executed on immutable share files holding 0..2 leases (thorough: 0..3), for both container schema versions (v1 cleartext, v2 hashed secrets), with every data byte, secret, owner and time symbolic: a matching renew secret changes exactly that lease's expiry field, and only forwards (never shortens); a non-matching secret raises IndexError (renew) and leaves the file byte-identical, or (add_or_renew) appends exactly one record and bumps the count, or raises NoSpace without change; a matching add never adds a duplicate. In v2 containers the bytes stored for the secrets are blake2b(secret) -- the serialiser's output depends on the cleartext secrets only through the hash. Leases surviving data writes and container growth is C23's 'leases-unchanged' contract.",
    "note": "Bounded number of leases per share, hence level 'other'. blake2b is an uninterpreted function; timing_safe_compare <=> equality is a callee contract discharged on the real body under SHA-256 collision resistance (TimingSafeCompare). Mutable-container lease slots (add/renew on MutableShareFile) are not under contract here except through C23's frame conditions.",
    "technique": "contract-based deductive verification (pyvc VCs + z3 over the file-array model); number of leases bounded",
}
EXPLANATION = "Lease records as big-endian fields of the share file array; both schema versions."
TRUSTED = ["file model", "struct codec", "blake2b uninterpreted", "timing_safe_compare(a,b) <=> a == b is the callee contract used at call sites; it is discharged on the real body by TimingSafeCompare (contracts/tsc.py) under SHA-256 collision resistance (explicit cryptographic hypothesis, instantiated) and os.urandom(32) returning 32 bytes"]
ASSUMPTIONS = ["termination not proved"]
NOT_DECIDED = "MutableShareFile lease slot management; StorageServer.add_lease/renew_lease wrappers."
F = "allmydata/storage/immutable.py"
LS = 72
BL = z3.Function("blake2b_32", ByteArr, ByteArr)


def header(version, n):
    return version.to_bytes(4, "big") + (0).to_bytes(4, "big") + n.to_bytes(4, "big")


def mkfile(a):
    """file content: concrete 12-byte header (version, n leases) over a symbolic body"""
    body, blen = as_arr(a["body"])
    arr = body
    for i, byte in enumerate(header(a["version"], a["n"])):
        arr = z3.Store(arr, i, byte)
    return SBytes(arr, blen)


def lease_off(a, i):
    return 12 + Z(a["datalen"]) + LS * i


def stored_secret_is(c, off, secret, hashed):
    """the 32 bytes at off equal secret (v1) or blake2b(secret) (v2)"""
    s = as_sbytes(secret)
    src = SBytes(BL(canon_arr(s)), 32) if hashed else s
    return z3.And([z3.Select(c, off + k) == src.at(k) for k in range(32)])


def gen_sharefile(rng, version=None, n=None):
    import tempfile, shutil
    from allmydata.storage.immutable import ShareFile
    from allmydata.storage.immutable_schema import schema_from_version
    from allmydata.storage.lease import LeaseInfo
    d = tempfile.mkdtemp(prefix="pyvc-")
    try:
        p = os.path.join(d, "s")
        size = rng.randint(0, 40)
        sf = ShareFile(p, max_size=size, create=True, schema=schema_from_version(version or rng.choice([1, 2])))
        sf.write_share_data(0, bytes(rng.randrange(256) for _ in range(size)))
        for i in range(n if n is not None else rng.randint(0, 2)):
            sf.add_lease(LeaseInfo(i, bytes([rng.choice([1, 2])]) * 32, bytes([i + 9]) * 32, 1000 + rng.randint(0, 50), b"N" * 20))
        return open(p, "rb").read(), size
    finally:
        shutil.rmtree(d, ignore_errors=True)


class _Lease(Spec):
    file = F
    level = "B"
    maxleases = 2
    cross_check = 0
    method = None

    @property
    def bound(self):
        return "share files with 0..%d leases, schema v1 and v2" % self.maxleases

    @property
    def qualname(self):
        return "ShareFile." + self.method

    def inputs(self):
        return {"body": FileK(None), "datalen": IntK(0), "version": ChoiceK([1, 2]), "n": ChoiceK(range(self.maxleases + 1)),
                "secret": BytesArrK(fixed=32), "cancel": BytesArrK(fixed=32), "t": IntK(0, 2 ** 32 - 1), "avail": IntK(0), "owner": IntK(0, 2 ** 32 - 1)}

    def all_cases(self):
        return [{"version": v, "n": n} for v in (1, 2) for n in range(self.maxleases + 1)]

    def requires(self, I, a):
        body, blen = as_arr(a["body"])
        return blen == 12 + Z(a["datalen"]) + LS * a["n"]

    def mk_self(self, I, a):
        from allmydata.storage.immutable_schema import schema_from_version
        mod = self.module()
        return SObj(mod.ShareFile, {"home": PathTok("home"), "_lease_offset": norm_int(12 + Z(a["datalen"])), "_data_offset": 12,
                                    "_schema": schema_from_version(a["version"]), "_lease_count_format": ">L", "_lease_count_size": 4,
                                    "_max_size": a["datalen"]})

    def call(self, I, sf, a):
        raise NotImplementedError

    def run(self, I, a):
        f0 = mkfile(a)
        put_file(I, "home", f0)
        sf = self.mk_self(I, a)
        try:
            out = Outcome("return", self.call(I, sf, a))
        except PyRaise as pr:
            out = Outcome("raise", exc=pr.exc, exc_cls=pr.cls)
        out.post = {"file": file_post(I, "home"), "file0": f0}
        return out

    def matches(self, a, c, i):
        return stored_secret_is(c, lease_off(a, i) + 4, a["secret"], a["version"] == 2)

    def first_match(self, a, c):
        """list of conditions: lease i is the first whose renew secret matches"""
        out = []
        for i in range(a["n"]):
            out.append(z3.And([z3.Not(self.matches(a, c, j)) for j in range(i)] + [self.matches(a, c, i)]))
        return out

    def only_expiry_of(self, a, c, n, c1, n1, i):
        off = lease_off(a, i) + 68
        return z3.And(n1 == n, forall_range(0, n, lambda k: z3.Implies(z3.Or(k < off, k >= off + 4), z3.Select(c1, k) == z3.Select(c, k))))


class RenewLease(_Lease):
    method = "renew_lease"
    raises = (IndexError,)
    canary_case = {"version": 1, "n": 2}

    def call(self, I, sf, a):
        return I.call_value(self.target(I), [sf, a["secret"], a["t"]], {})

    def ensures(self, I, a, out):
        c, n = as_arr(out.post["file0"])
        c1, n1 = as_arr(out.post["file"])
        fm = self.first_match(a, c)
        anym = z3.Or(fm) if fm else z3.BoolVal(False)
        if out.kind == "raise":
            return [("unknown-secret-is-an-error-only-when-no-lease-matches", z3.Not(anym)), ("failed-renew-changes-nothing", same_file(c, n, c1, n1))]
        g = [("renew-succeeds-only-for-a-known-secret", anym)]
        t = Z(a["t"])
        for i, cond in enumerate(fm):
            off = lease_off(a, i) + 68
            old = be(c, off, 4)
            new = be(c1, off, 4)
            g.append(("lease-%d-only-its-expiry-may-change" % i, z3.Implies(cond, self.only_expiry_of(a, c, n, c1, n1, i))))
            g.append(("lease-%d-expiry-never-moves-backwards" % i, z3.Implies(cond, new == z3.If(t > old, t, old))))
        return g

    def canary(self, I, a, out):
        c, n = as_arr(out.post["file0"])
        c1, n1 = as_arr(out.post["file"])
        return [("canary", same_file(c, n, c1, n1))]


class AddOrRenewLease(_Lease):
    method = "add_or_renew_lease"
    canary_case = {"version": 2, "n": 1}

    @property
    def raises(self):
        from allmydata.interfaces import NoSpace
        return (NoSpace,)

    def call(self, I, sf, a):
        import allmydata.storage.lease as L
        li = SObj(L.LeaseInfo, {"owner_num": a["owner"], "renew_secret": a["secret"], "cancel_secret": a["cancel"], "_expiration_time": a["t"], "nodeid": b"n" * 20})
        return I.call_value(self.target(I), [sf, a["avail"], li], {})

    def ensures(self, I, a, out):
        c, n = as_arr(out.post["file0"])
        c1, n1 = as_arr(out.post["file"])
        fm = self.first_match(a, c)
        anym = z3.Or(fm) if fm else z3.BoolVal(False)
        hashed = a["version"] == 2
        if out.kind == "raise":
            return [("NoSpace-only-for-a-new-lease-that-does-not-fit", z3.And(z3.Not(anym), LS > Z(a["avail"]))), ("NoSpace-changes-nothing", same_file(c, n, c1, n1))]
        t = Z(a["t"])
        g = []
        for i, cond in enumerate(fm):
            off = lease_off(a, i) + 68
            g.append(("matching-secret-renews-lease-%d-instead-of-adding-a-duplicate" % i, z3.Implies(cond, z3.And(self.only_expiry_of(a, c, n, c1, n1, i),
                      be(c1, off, 4) == z3.If(t > be(c, off, 4), t, be(c, off, 4))))))
        rec = lease_off(a, a["n"])
        appended = z3.And(n1 == n + LS, be(c1, 8, 4) == a["n"] + 1,
                          forall_range(0, n, lambda k: z3.Implies(z3.Or(k < 8, k >= 12), z3.Select(c1, k) == z3.Select(c, k))),
                          be(c1, rec, 4) == Z(a["owner"]), stored_secret_is(c1, rec + 4, a["secret"], hashed), stored_secret_is(c1, rec + 36, a["cancel"], hashed),
                          be(c1, rec + 68, 4) == t)
        g.append(("fresh-secret-appends-exactly-one-record-and-bumps-the-count", z3.Implies(z3.Not(anym), z3.And(appended, LS <= Z(a["avail"])))))
        return g

    def hypotheses(self, I, a, ob):
        # lease count and record fields round-trip through the big-endian codec (instances for the fields the goals mention)
        return []

    def canary(self, I, a, out):
        c, n = as_arr(out.post["file0"])
        c1, n1 = as_arr(out.post["file"])
        return [("canary", n1 == n)]


class HashedSerializer(Spec):
    """lease_schema.HashedLeaseSerializer.serialize: the record holds blake2b(renew secret) and blake2b(cancel secret);
    CleartextLeaseSerializer (v1) holds the secrets themselves (documented legacy format)."""
    file = "allmydata/storage/lease_schema.py"
    qualname = "HashedLeaseSerializer.serialize"
    cross_check = 0

    def inputs(self):
        return {"secret": BytesArrK(fixed=32), "cancel": BytesArrK(fixed=32), "t": IntK(0, 2 ** 32 - 1), "owner": IntK(0, 2 ** 32 - 1), "kind": ChoiceK(["immutable", "mutable"])}

    def all_cases(self):
        return [{"kind": "immutable"}, {"kind": "mutable"}]

    def run(self, I, a):
        import allmydata.storage.lease as L
        import allmydata.storage.lease_schema as S
        li = SObj(L.LeaseInfo, {"owner_num": a["owner"], "renew_secret": a["secret"], "cancel_secret": a["cancel"], "_expiration_time": a["t"], "nodeid": b"n" * 20})
        ser = S.v2_immutable if a["kind"] == "immutable" else S.v2_mutable
        return I.call_value(I.get_attr(ser, "serialize"), [li], {})

    def ensures(self, I, a, out):
        rec, n = as_arr(out.value)
        ro, co = (4, 36) if a["kind"] == "immutable" else (8, 40)
        return [("record-size", n == (72 if a["kind"] == "immutable" else 92)),
                ("stored-renew-secret-is-its-blake2b-hash", stored_secret_is(rec, ro, a["secret"], True)),
                ("stored-cancel-secret-is-its-blake2b-hash", stored_secret_is(rec, co, a["cancel"], True))]

    def canary(self, I, a, out):
        rec, n = as_arr(out.value)
        return [("canary", stored_secret_is(rec, 4 if a["kind"] == "immutable" else 8, a["secret"], False))]


def contracts(tier):
    cs = [RenewLease(), AddOrRenewLease(), HashedSerializer()]
    if tier == "thorough":
        cs[0].maxleases = cs[1].maxleases = 3
    # "leases survive share data writes and container growth": the frame conditions of the mutable container contracts (C23)
    from contracts.C23 import WriteShareData, ChangeContainerSize
    # which lease serializer (cleartext v1 / hashed v2) a re-opened immutable container uses is decided by ShareFile.__init__ (contract of C22)
    from contracts.C22 import ShareFileOpen
    # lease secrets are compared by hashutil.timing_safe_compare: its callee contract is discharged here
    from contracts.tsc import TimingSafeCompare
    return cs + [WriteShareData(), ChangeContainerSize(), ShareFileOpen(), TimingSafeCompare()]
