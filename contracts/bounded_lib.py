"""Bounded (exhaustive small-domain) run-time contract checks on the real functions -- the stand-in used where the
verifier cannot reach (DESIGN: level B, never counted as proved)."""
import itertools
import multiprocessing
import os


def max_matching(adj, left):
    """independent spec: size of a maximum bipartite matching (Kuhn's augmenting paths). adj: left -> iterable of right"""
    match = {}

    def try_(u, seen):
        for v in adj.get(u, ()):
            if v in seen:
                continue
            seen.add(v)
            if v not in match or try_(match[v], seen):
                match[v] = u
                return True
        return False
    n = 0
    for u in left:
        if try_(u, set()):
            n += 1
    return n


class HashedId(object):
    """an id whose hash/iteration position in sets is controlled, to vary set iteration order deterministically"""
    __slots__ = ("name", "h")

    def __init__(self, name, h):
        self.name, self.h = name, h

    def __hash__(self):
        return self.h

    def __eq__(self, o):
        return isinstance(o, HashedId) and o.name == self.name

    def __lt__(self, o):
        return self.name < o.name

    def __repr__(self):
        return "S%s" % (self.name,)


def pmap(fn, items, jobs=None):
    jobs = jobs or min(16, os.cpu_count() or 4)
    if multiprocessing.current_process().daemon or jobs == 1 or len(items) < 64:
        return [fn(x) for x in items]
    ctx = multiprocessing.get_context("fork")
    with ctx.Pool(jobs) as pool:
        return pool.map(fn, items, chunksize=max(1, len(items) // (jobs * 8)))
