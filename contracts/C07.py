"""C07 Share placement is complete, respects read-only servers, maximizes spread -- bounded run-time contract on happiness_upload.share_placement"""
import itertools
import random
import z3
from contracts.bounded_lib import max_matching, pmap

LEVEL = "other"
MANIFEST_ENTRY = {
    "text": "BOUNDED stand-in, not a proof: the contract (every share number gets a server; a read-only server only gets shares it already holds; the number of distinct servers used equals the maximum achievable = a maximum matching where writable servers may take any share and read-only servers only held shares) is evaluated on the real share_placement for EVERY layout with up to 3 servers (every read-only subset, at least one writable) x up to 3 shares x every existing-share relation (quick; thorough: 4 servers x 4 shares), under 3 insertion orders, plus seeded random layouts up to 20 servers x 30 shares.",
    "note": "Exhaustive below the bound, sampled above it; independent matching oracle. Max-flow correctness for arbitrary graphs is out of reach of the VC generator. Nothing here is counted as proved.",
    "technique": "bounded exhaustive run-time contract checking of the real function (stand-in for deductive verification, labelled bounded)",
}
MANIFEST_ENTRY["text"] += ' Bounded end-to-end stand-in (run-time contract, never counted as proved): contracts/grid_upload.py runs the real Uploader, server selector, Encoder, checker/verifier and repairer against real StorageServers on disk (contracts/real_grid.py) with read-only, full and failing servers and pre-existing shares, and compares results with ground truth read from the disks and with a reference encoding.'
MANIFEST_ENTRY["technique"] += "; plus bounded end-to-end run-time scenario contracts on an in-process grid of the real components (stand-in, labelled bounded)"
EXPLANATION = "Exhaustive enumeration of small layouts + seeded random larger ones."
TRUSTED = ["the independent matching oracle in contracts/bounded_lib.py"]
ASSUMPTIONS = []
NOT_DECIDED = "layouts beyond the bound (only sampled); Tahoe2ServerSelector's use of the plan (C06)."


def layouts(max_servers, max_shares):
    for ns in range(1, max_servers + 1):
        for nsh in range(1, max_shares + 1):
            cells = [(sv, sh) for sv in range(ns) for sh in range(nsh)]
            for ro in range(1 << ns):
                if ro == (1 << ns) - 1:
                    continue        # at least one writable server
                for bits in range(1 << len(cells)):
                    yield (ns, nsh, ro, bits)


def decode(layout):
    ns, nsh, ro, bits = layout[:4]
    cells = [(sv, sh) for sv in range(ns) for sh in range(nsh)]
    existing = {}
    for i, (sv, sh) in enumerate(cells):
        if bits >> i & 1:
            existing.setdefault(sv, set()).add(sh)
    readonly = set(sv for sv in range(ns) if ro >> sv & 1)
    return ns, nsh, readonly, existing


def check_layout(layout):
    from allmydata.immutable.happiness_upload import share_placement
    if len(layout) == 5:
        ns, nsh, readonly, existing = layout[4]
    else:
        ns, nsh, readonly, existing = decode(layout)
    servers = ["s%02d" % i for i in range(ns)]
    writable = set(servers[i] for i in range(ns) if i not in readonly)
    ro = set(servers[i] for i in readonly)
    shares = set(range(nsh))
    adj = {}
    for i in range(ns):
        held = existing.get(i, set())
        adj[servers[i]] = sorted(held) if i in readonly else sorted(shares)
    best = max_matching(adj, sorted(adj))
    problems = []
    for order in (0, 1, 2):
        keys = sorted(existing)
        if order == 1:
            keys.reverse()
        elif order == 2:
            keys = keys[1:] + keys[:1]
        pts = {servers[i]: set(existing[i]) for i in keys}
        try:
            plan = share_placement(set(writable), set(ro), set(shares), pts)
        except Exception as e:       # noqa
            problems.append((order, "raised %r" % (e,)))
            continue
        if set(plan.keys()) != shares or any(v not in writable | ro for v in plan.values()):
            problems.append((order, "incomplete or unknown server: %r" % (plan,)))
            continue
        bad_ro = [(sh, sv) for sh, sv in plan.items() if sv in ro and sh not in existing.get(servers.index(sv), set())]
        if bad_ro:
            problems.append((order, "read-only server given a share it does not hold: %r in %r" % (bad_ro, plan)))
            continue
        spread = len(set(plan.values()))
        if spread != best:
            problems.append((order, "spread %d but %d reachable: %r" % (spread, best, plan)))
    return (layout[:4] if len(layout) == 4 else ("random", layout[4][0], layout[4][1]), problems,
            {"servers": ns, "shares": nsh, "readonly": sorted(readonly), "existing": {k: sorted(v) for k, v in existing.items()}})


def contracts(tier):
    return []


def extra_checks(rep, tier):
    from contracts import grid_upload
    grid_upload.grid_check(rep, tier, "C07")
    mx = (3, 3) if tier == "quick" else (4, 4)
    items = list(layouts(*mx))
    rng = random.Random(rep.seed)
    for _ in range(300 if tier == "quick" else 3000):
        ns, nsh = rng.randint(1, 20), rng.randint(1, 30)
        ro = set(i for i in range(ns) if rng.random() < 0.3)
        if len(ro) == ns:
            ro.discard(0)
        existing = {}
        for _k in range(rng.randint(0, 25)):
            existing.setdefault(rng.randrange(ns), set()).add(rng.randrange(nsh))
        items.append((ns, nsh, 0, 0, (ns, nsh, ro, existing)))
    results = pmap(check_layout, items)
    rep.obligations += 1
    rep.bounded_obligations += 1
    rep.paths += len(items) * 3
    rep.sym_paths += sum(1 for _, _, d in results if d["existing"] and d["shares"] > 1)
    rep.bounds.append("every layout <= %d servers x %d shares (%d layouts) x 3 orders + %d seeded random layouts <= 20 x 30" % (mx[0], mx[1], len(items) - (300 if tier == "quick" else 3000), 300 if tier == "quick" else 3000))
    rep.samples.append({"obligation": "SharePlacement:complete-readonly-respecting-max-spread", "layout_example": results[min(len(results) - 1, 1234)][2]})
    bad = [(k, p, d) for k, p, d in results if p]
    if not bad:
        rep.discharged += 1
        rep.discharged_names.add("SharePlacement:complete-readonly-respecting-max-spread")
        return
    k, p, d = min(bad, key=lambda x: (x[2]["servers"], x[2]["shares"], len(x[2]["existing"])))
    rep.violations.append({"property": "C07", "contract": "SharePlacement", "obligation": "SharePlacement:complete-readonly-respecting-max-spread",
                           "status": "runtime", "inputs": d, "native_outcome": "%s (%d of %d layouts fail)" % (p[0][1], len(bad), len(items)),
                           "confirmed_on_real_code": True})
