"""C35 Merkle hash trees accept only genuine leaves -- contracts on hashtree.IncompleteHashTree.set_hashes / needed_hashes and index arithmetic"""
import itertools
import z3
from pyvc.harness import Spec, Kind, IntK, StrK, ChoiceK, Outcome, mval
from pyvc.values import *  # noqa
from contracts.lib import *  # noqa

LEVEL = "other"
MANIFEST_ENTRY = {
    "text": "For trees of 1..4 leaves (thorough: 1..8), an IncompleteHashTree in a state where every populated node equals the genuine tree's node (root trusted), and set_hashes called with the leaf hash and auxiliary hashes as UNCONSTRAINED symbolic values over enumerated key sets (needed set, needed minus one, needed plus the leaf's own node, needed plus root, needed plus a stray node): a normal return implies the leaf and every supplied hash are genuine and the invariant still holds; genuine complete input is accepted; BadHashError/NotEnoughHashesError leave the tree exactly as before; every set-iteration order is explored. parent/lchild/rchild/sibling index arithmetic is proved for all integers.",
    "note": "Bounded in the number of leaves and in the enumerated key-set shapes (values are unbounded symbols, so every genuine/forged mix over those keys is covered by one query). pair_hash is an uninterpreted injective function (collision resistance as an explicit hypothesis).",
    "technique": "contract-based deductive verification (pyvc VCs + z3); tree size and key-set shapes bounded",
}
EXPLANATION = "set_hashes executed symbolically on shape-bounded trees with symbolic hash values."
TRUSTED = ["pair_hash is injective (SHA-256d collision resistance, explicit hypothesis)"]
ASSUMPTIONS = ["termination not proved"]
NOT_DECIDED = "HashTree construction (uploader side) and callers in download/mutable code."
F = "allmydata/hashtree.py"
SS = SHash.SORT
PH = z3.Function("pair_hash", SS, SS, SS)


LV = z3.Const("leaf_value", SHash.SORT)


def layout(n):
    from allmydata.hashtree import IncompleteHashTree
    t = IncompleteHashTree(n)
    return len(t), t.first_leaf_num


def G(i):
    return z3.Const("G%d" % i, SS)


def genuine_tree_facts(size):
    cs = []
    for i in range(size):
        l, r = 2 * i + 1, 2 * i + 2
        if r < size:
            cs.append(G(i) == PH(G(l), G(r)))
    return z3.And(cs) if cs else z3.BoolVal(True)


def collision_resistance():
    a, b, c, d = z3.Consts("cr_a cr_b cr_c cr_d", SS)
    return z3.ForAll([a, b, c, d], z3.Implies(PH(a, b) == PH(c, d), z3.And(a == c, b == d)))


def path_nodes(size, node):
    """nodes on the path to the root and their siblings"""
    out = {node}
    while node != 0:
        sib = node + 1 if node % 2 == 1 else node - 1
        out.add(sib)
        node = (node - 1) // 2
        out.add(node)
    return out


def needed_for(node):
    out = []
    while node != 0:
        out.append(node + 1 if node % 2 == 1 else node - 1)
        node = (node - 1) // 2
    return out


class DigestK(Kind):
    """an abstract digest symbol; the model value is only used for its equality pattern"""

    def __init__(self, term):
        self.term = term

    def sym(self, name):
        return SHash(self.term)

    def from_model(self, model, v):
        return str(mval(model, v.term))

    def random(self, rng):
        return "r%d" % rng.randrange(4)


class SetHashes(Spec):
    file = F
    qualname = "IncompleteHashTree.set_hashes"
    level = "B"
    maxleaves = 5
    cross_check = 0
    max_paths = 20000
    canary_case = {"n": 2, "leaf": 0, "pre": None, "keys": (2,)}

    @property
    def bound(self):
        return "trees of 1..%d leaves; pre-states {root only, root + validated path of one other leaf}; key sets {needed, needed-1, needed+leaf's own node, needed+root, needed+stray}" % self.maxleaves

    @property
    def raises(self):
        from allmydata.hashtree import BadHashError, NotEnoughHashesError
        return (BadHashError, NotEnoughHashesError)

    def inputs(self):
        d = {"n": ChoiceK([1]), "leaf": ChoiceK([0]), "pre": ChoiceK([None]), "keys": ChoiceK([()]), "LV": DigestK(LV)}
        for i in range(2 * 8):
            d["G%d" % i] = DigestK(G(i))
            d["X%d" % i] = DigestK(self.X(i))
        return d

    def native(self, a):
        """replay of an equality pattern: genuine tree from random leaves; X_k / LV genuine where the model equates them
        with G_k, otherwise a forged digest (equal forged values for equal model values)"""
        import hashlib
        from allmydata.hashtree import HashTree, IncompleteHashTree
        n = a["n"]
        leaves = [hashlib.sha256(b"leaf%d" % i).digest() for i in range(n)]
        ht = HashTree(list(leaves))
        size, first = layout(n)
        genuine = [ht[i] for i in range(size)]
        by_model = {}
        for i in range(size):
            by_model.setdefault(a.get("G%d" % i), genuine[i])

        def conc(mv):
            if mv not in by_model:
                by_model[mv] = hashlib.sha256(("forged-" + str(mv)).encode()).digest()
            return by_model[mv]
        t = IncompleteHashTree(n)
        have = {0} | (path_nodes(size, first + a["pre"]) if a["pre"] is not None else set())
        for i in have:
            t[i] = genuine[i]
        pre = list(t)
        hashes = {k: conc(a.get("X%d" % k)) for k in a["keys"]}
        lv = conc(a.get("LV"))
        out = native_outcome(lambda: t.set_hashes(hashes, {a["leaf"]: lv}))
        out.post = {"items": list(t), "pre": pre, "genuine": genuine, "hashes": hashes, "lv": lv}
        return out

    def native_ensures(self, a, out):
        size, first = layout(a["n"])
        node = first + a["leaf"]
        p = out.post
        gen = p["genuine"]
        if out.kind == "raise":
            need = [k for k in needed_for(node) if p["pre"][k] is None]
            complete = all(k in a["keys"] for k in need)
            all_genuine = p["lv"] == gen[node] and all(p["hashes"][k] == gen[k] for k in a["keys"])
            g = [("rejection-leaves-the-tree-exactly-as-before", z3.BoolVal(p["items"] == p["pre"]))]
            if complete:
                g.append(("genuine-complete-input-is-never-rejected", z3.BoolVal(not all_genuine)))
            return g
        g = [("accepted-leaf-is-the-genuine-leaf", z3.BoolVal(p["lv"] == gen[node]))]
        g += [("accepted-auxiliary-hash-%d-is-genuine" % k, z3.BoolVal(p["hashes"][k] == gen[k])) for k in a["keys"]]
        g.append(("every-populated-node-is-genuine-afterwards", z3.BoolVal(all(x is None or x == gen[i] for i, x in enumerate(p["items"])))))
        return g

    def all_cases(self):
        cs = []
        for n in range(1, self.maxleaves + 1):
            size, first = layout(n)
            for leaf in range(n):
                node = first + leaf
                need = needed_for(node)
                pres = [None] + [o for o in range(n) if o != leaf][:2]
                for pre in pres:
                    have = {0} | (path_nodes(size, first + pre) if pre is not None else set())
                    still = [k for k in need if k not in have]
                    keysets = {tuple(sorted(still))}
                    if still:
                        keysets.add(tuple(sorted(still[1:])))
                        for h in still:        # every single withheld hash, the topmost (a child of the root) included
                            keysets.add(tuple(sorted(set(still) - {h})))
                    keysets.add(tuple(sorted(set(still) | {node})))
                    keysets.add(tuple(sorted(set(still) | {0})))
                    stray = [k for k in range(size) if k not in need and k != node and k != 0]
                    if stray:
                        keysets.add(tuple(sorted(set(still) | {stray[0]})))
                    for ks in sorted(keysets):
                        cs.append({"n": n, "leaf": leaf, "pre": pre, "keys": ks})
        return cs

    def X(self, k):
        return z3.Const("X%d" % k, SS)

    def requires(self, I, a):
        size, first = layout(a["n"])
        return genuine_tree_facts(size)

    def hypotheses(self, I, a, ob):
        # collision resistance of pair_hash, instantiated on every pair of pair_hash terms of this obligation
        return injectivity_instances(PH, list(ob.hyps) + [ob.goal])

    no_normal_path_ok = True

    def config(self):
        return {"overrides": {"hashtree.pair_hash": lambda I, a, kw: SHash(PH(a[0].term, a[1].term)),
                              "base32.b2a": lambda I, a, kw: Opaque("b2a")}}

    def pre_state(self, a):
        size, first = layout(a["n"])
        have = {0} | (path_nodes(size, first + a["pre"]) if a["pre"] is not None else set())
        return [SHash(G(i)) if i in have else None for i in range(size)], have

    def run(self, I, a):
        size, first = layout(a["n"])
        items, have = self.pre_state(a)
        tree = SObj(self.module().IncompleteHashTree, {"__list__": list(items), "first_leaf_num": first})
        hashes = {k: SHash(self.X(k)) for k in a["keys"]}
        lv = SHash(LV)
        try:
            out = Outcome("return", I.call_value(self.target(I), [tree, hashes, {a["leaf"]: lv}], {}))
        except PyRaise as pr:
            out = Outcome("raise", exc=pr.exc, exc_cls=pr.cls)
        out.post = {"items": list(tree.fields["__list__"]), "pre": items}
        return out

    def ensures(self, I, a, out):
        if I is None:
            return self.native_ensures(a, out)
        size, first = layout(a["n"])
        node = first + a["leaf"]
        items, pre = out.post["items"], out.post["pre"]
        lv = LV
        if out.kind == "raise":
            same = all((x is None) == (y is None) for x, y in zip(items, pre))
            eqs = [x.term == y.term for x, y in zip(items, pre) if x is not None and y is not None]
            genuine_all = z3.And([lv == G(node)] + [self.X(k) == G(k) for k in a["keys"]])
            need = [k for k in needed_for(node) if pre[k] is None]
            complete = all(k in a["keys"] for k in need)
            g = [("rejection-leaves-the-tree-exactly-as-before", z3.And([z3.BoolVal(same)] + eqs))]
            if complete:
                g.append(("genuine-complete-input-is-never-rejected", z3.Not(genuine_all)))
            return g
        g = [("accepted-leaf-is-the-genuine-leaf", lv == G(node))]
        g += [("accepted-auxiliary-hash-%d-is-genuine" % k, self.X(k) == G(k)) for k in a["keys"]]
        g.append(("every-populated-node-is-genuine-afterwards", z3.And([x.term == G(i) for i, x in enumerate(items) if x is not None] or [z3.BoolVal(True)])))
        g.append(("leaf-and-previous-nodes-are-remembered", z3.BoolVal(items[node] is not None and all(items[i] is not None for i, y in enumerate(pre) if y is not None))))
        return g

    def canary(self, I, a, out):
        return [("canary", LV != G(layout(a["n"])[1] + a["leaf"]))]


class IndexMath(Spec):
    """parent/lchild/rchild/sibling for all indices of a tree of any size (len symbolic)."""
    file = F
    qualname = "CompleteBinaryTreeMixin.sibling"
    cross_check = 0
    raises = (IndexError,)

    def inputs(self):
        return {"i": IntK(), "size": IntK(1)}

    def config(self):
        me = self
        return {"overrides": {"builtins.hasattr": lambda I, a, kw: True}}

    def run(self, I, a):
        # a list-like object of symbolic length: only len() is used by the index methods
        tree = stub("tree")
        tree.cls = self.module().CompleteBinaryTreeMixin
        tree.fields["__len__"] = None
        I.overrides["builtins.len"] = lambda I_, args, kw: a["size"] if args[0] is tree else __import__("pyvc.models", fromlist=["x"]).len_of(I_, args[0])
        sib = I.call_value(self.target(I), [tree, a["i"]], {})
        par = I.call_value(I.get_attr(tree, "parent"), [a["i"]], {})
        return (sib, par)

    def ensures(self, I, a, out):
        i, size = Z(a["i"]), Z(a["size"])
        if out.kind == "raise":
            return [("index-error-only-outside-the-tree-or-without-a-sibling", z3.Or(i < 1, i >= size, z3.And(i % 2 == 1, i + 1 >= size)))]
        sib, par = Z(out.value[0]), Z(out.value[1])
        return [("sibling-shares-the-parent", (sib - 1) / 2 == (i - 1) / 2), ("sibling-differs", sib != i),
                ("sibling-is-adjacent", z3.Or(sib == i + 1, sib == i - 1)), ("parent-is-floor-half", par * 2 + 1 <= i, ) if False else ("parent-index", z3.And(2 * par + 1 <= i, i <= 2 * par + 2)),
                ("sibling-inside-the-tree", z3.And(sib >= 1, sib < size))]

    def canary(self, I, a, out):
        return [("canary", Z(out.value[0]) == Z(a["i"]) + 1)]


def contracts(tier):
    s = SetHashes()
    if tier == "thorough":
        s.maxleaves = 8
    return [s, IndexMath()]
