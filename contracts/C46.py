"""C46 Immutable reads always terminate / C03 availability with k good shares -- contracts on
immutable/downloader/node.py (process_blocks, fetch_failed, _start_new_segment) and a bounded exploration of
immutable/downloader/fetcher.py SegmentFetcher"""
import itertools
import random
import z3
from pyvc.harness import Spec, IntK, BoolK, ChoiceK, Outcome
from pyvc.values import *  # noqa
from contracts.lib import *  # noqa
from contracts.bounded_lib import pmap

LEVEL = "other"
MANIFEST_ENTRY = {
    "text": "Deductive part (DownloadNode): when a segment fetch ends -- process_blocks after decoding succeeded, process_blocks after decoding or the ciphertext hash check FAILED, or fetch_failed -- every reader waiting for that segment number receives the result or the failure, readers of other segments stay queued, the node has no active segment any more and _start_new_segment() starts the fetch for the next queued request; so a failed read never blocks later reads on the same file object. Bounded part (SegmentFetcher, the real class run natively with fake shares): for every k in 1..3, every set of up to 4 shares over share numbers {0,1,2} on two servers, every assignment of a final verdict to each share (good / corrupt / dead), and EVERY schedule of the events 'share found', 'request answered', 'request overdue', 'no more shares' (exhaustive DFS, 3 shares; seeded random schedules for 4): once every share has been announced, every request answered and no-more-shares delivered, the fetcher has reported exactly once -- process_blocks with k validated blocks of distinct share numbers if at least k distinct share numbers had a good share, otherwise fetch_failed with NoSharesError / NotEnoughSharesError -- never both, never twice, never with fewer than k blocks, and it requests nothing after reporting. Further small-state run-time contracts: ShareFinder.hungry() always marks the finder hungry and schedules a loop turn, and ShareFinder.loop() tells the consumer 'no more shares' exactly when it is running and hungry, no server is left and NO request (overdue or not) is still in flight (every state with up to 2 pending requests); Share._got_data marks exactly the missing tail of a short answer as unavailable (all small ranges). Segmentation (deductive, Deferred-chain model): whatever a segment request ends with, the read either issues a new request (a wrong guess of the segment number, once the real size is known) or fires its Deferred with the failure -- never neither.",
    "note": "Termination of the whole download (ShareFinder DYHB loop, Share state machine with its own timers, reactor fairness) is liveness over an unbounded event system and stays outside contracts; the bounded exploration is a stand-in labelled bounded and never counted as proved. Found and fixed with it: D22.",
    "technique": "contract-based deductive verification (pyvc VCs + z3, Deferred-chain model) of DownloadNode; SegmentFetcher by bounded exhaustive exploration of event schedules against a run-time contract",
}
MANIFEST_ENTRY["text"] += " Bounded end-to-end stand-in (run-time contract, never counted as proved): contracts/immutable_grid.py encodes seeded files with the real Encoder, serves the shares from in-memory servers with per-share faults (missing, bit-flipped, truncated, header-truncated, another file's, another encoding's, dead or dying server, slow server) and checks every ImmutableFileNode.read (whole, ranged, concurrent, paused, next to a cancelled one, after failed reads) against the plaintext."
MANIFEST_ENTRY["technique"] += "; plus bounded end-to-end run-time scenario contracts on an in-process grid of the real components (stand-in, labelled bounded)"
EXPLANATION = "Node-level hand-over contracts plus a schedule-exhaustive run-time contract of the fetcher."
TRUSTED = ["foolscap eventually() runs queued calls in order", "Deferred-chain model"]
ASSUMPTIONS = ["every announced share eventually answers its request (COMPLETE, CORRUPT or DEAD)"]
NOT_DECIDED = "ShareFinder, Share._loop timers, Terminator; unbounded numbers of shares and servers."
ND = "allmydata/immutable/downloader/node.py"
LOG = {"log.msg": lambda I, a, kw: 1, "node.now": lambda I, a, kw: 0, "log.err": lambda I, a, kw: None}


class _NodeSpec(Spec):
    file = ND
    cross_check = 0
    raises = ()

    def mk_node(self, I, active_segnum, queue):
        M = self.module()
        self._events, self._started = [], []

        def ev(tag):
            return stub("seg_ev-" + tag, activate=noop, error=lambda I_, a_, k_: self._events.append(("error", tag)), deliver=lambda I_, a_, k_: self._events.append(("delivered", tag)))
        reqs = []
        for i, sn in enumerate(queue):
            reqs.append((sn, "d%d" % i, stub("cancel%d" % i, active=True), ev(str(i)), None))
        self._reqs = reqs
        self._fetcher = stub("fetcher", segnum=active_segnum, stop=noop)
        from allmydata.uri import CHKFileVerifierURI
        vcap = SObj(CHKFileVerifierURI, {"needed_shares": 3, "total_shares": 10, "size": 100, "storage_index": b"s" * 16, "uri_extension_hash": b"h" * 32})
        ds = stub("download_status", add_misc_event=noop)
        n = SObj(M.DownloadNode, {"_active_segment": self._fetcher, "_segment_requests": list(reqs), "_lp": None, "_download_status": ds, "_verifycap": vcap, "_shares": set(), "_si_prefix": "abc"})
        return n

    def base_overrides(self):
        me = self
        o = dict(LOG)
        o["eventual.eventually"] = lambda I, a, kw: me._events.append(("deliver-call", a[1], a[3]))
        o["foolscap.eventual.eventually"] = o["eventual.eventually"]
        o["node.eventually"] = o["eventual.eventually"]

        def new_fetcher(I, a, kw):
            me._started.append(a[1])
            return stub("new-fetcher", segnum=a[1], add_shares=noop)
        o["node.SegmentFetcher"] = new_fetcher
        o["fetcher.SegmentFetcher"] = new_fetcher
        return o

    def common_goals(self, n, segnum, queue, payload_ok):
        want_left = [t for t in self._reqs if t[0] != segnum]
        retired = [t for t in self._reqs if t[0] == segnum]
        delivered = [e for e in self._events if e[0] == "deliver-call"]
        nxt = want_left[0][0] if want_left else None
        act = n.fields["_active_segment"]
        return [("every-reader-of-this-segment-is-answered", z3.BoolVal([e[1] for e in delivered] == [t[1] for t in retired] and all(payload_ok(e[2]) for e in delivered))),
                ("readers-of-other-segments-stay-queued", z3.BoolVal(list(n.fields["_segment_requests"]) == want_left)),
                ("the-finished-fetcher-is-no-longer-the-active-segment", z3.BoolVal(act is not self._fetcher)),
                ("the-next-pending-request-is-started-whether-or-not-the-segment-was-good", z3.BoolVal(self._started == ([nxt] if nxt is not None else []) and (act is None) == (nxt is None)))]


QUEUES = [(0,), (0, 1), (0, 0, 2), (1, 0), (2, 2)]


class ProcessBlocks(_NodeSpec):
    qualname = "DownloadNode.process_blocks"
    level = "B"
    bound = "request queues of 1..3 readers over segments {0,1,2}; decode/hash check succeeding or failing"
    canary_case = {"queue": (0, 1), "good": False}

    def inputs(self):
        return {"queue": ChoiceK([()]), "good": ChoiceK([False, True])}

    def all_cases(self):
        return [{"queue": q, "good": g} for q in QUEUES for g in (False, True)]

    def config(self):
        return {"overrides": self.base_overrides()}

    def run(self, I, a):
        from pyvc.models_tahoe import DStub
        segnum = a["queue"][0]
        n = self.mk_node(I, segnum, a["queue"])
        d = DStub("pending")
        n.fields["_decode_blocks"] = stub("x", f=lambda I_, a_, k_: d).fields["f"]
        self._fail = failure_stub(RuntimeError, "bad ciphertext hash")
        me = self

        def check(I_, a_, k_):
            if not a["good"]:
                raise PyRaise(me._fail.exc, me._fail.exc_cls)
            return (0, b"segment-bytes", 0.5)
        n.fields["_check_ciphertext_hash"] = stub("x", f=check).fields["f"]
        I.call_value(self.target(I), [n, segnum, {0: b"b0", 1: b"b1", 2: b"b2"}], {})
        fire_chain(I, d, (b"decoded", 0.1))
        return n

    def ensures(self, I, a, out):
        segnum = a["queue"][0]

        def payload_ok(p):
            return (isinstance(p, tuple) and p[1] == b"segment-bytes") if a["good"] else is_failure(p)
        return self.common_goals(out.value, segnum, a["queue"], payload_ok)

    def canary(self, I, a, out):
        return [("canary", z3.BoolVal(self._started == []))]


class FetchFailed(_NodeSpec):
    qualname = "DownloadNode.fetch_failed"
    level = "B"
    bound = "request queues of 1..3 readers over segments {0,1,2}"
    canary_case = {"queue": (0, 1)}

    def inputs(self):
        return {"queue": ChoiceK([()])}

    def all_cases(self):
        return [{"queue": q} for q in QUEUES]

    def config(self):
        return {"overrides": self.base_overrides()}

    def run(self, I, a):
        segnum = a["queue"][0]
        n = self.mk_node(I, segnum, a["queue"])
        self._f = failure_stub(RuntimeError, "not enough shares")
        I.call_value(self.target(I), [n, self._fetcher, self._f], {})
        return n

    def ensures(self, I, a, out):
        return self.common_goals(out.value, a["queue"][0], a["queue"], lambda p: p is self._f)

    def canary(self, I, a, out):
        return [("canary", z3.BoolVal(self._started == []))]


# ------------------------------------------------------------------ bounded exploration of SegmentFetcher

GOOD, CORRUPT_, DEAD_ = "good", "corrupt", "dead"


def run_schedule(k, shares, verdicts, schedule):
    """shares: list of (shnum, server); schedule: list of events ('add', i) / ('answer', i) / ('overdue', i) / ('nomore',).
    Returns (problems, enabled_events_at_end, trace)"""
    import allmydata.immutable.downloader.fetcher as F
    from allmydata.immutable.downloader.common import COMPLETE, CORRUPT, DEAD, OVERDUE
    from twisted.python.failure import Failure
    queue = []
    F.eventually = lambda f, *a, **kw: queue.append((f, a, kw))
    reports = []

    class Node(object):
        _si_prefix = "abc"
        num_segments = 4

        def get_num_segments(self):
            return (4, True)

        def want_more_shares(self):
            pass

        def process_blocks(self, segnum, blocks):
            reports.append(("blocks", dict(blocks)))

        def fetch_failed(self, sf, f):
            reports.append(("failed", f.value.__class__.__name__))

    class Obs(object):
        def __init__(self, sh):
            self.sh = sh

        def subscribe(self, cb, **kw):
            self.sh.cb, self.sh.kw = cb, kw

        def cancel(self):
            self.sh.cancelled = True

    class Sh(object):
        def __init__(self, i, shnum, server):
            self.i, self._shnum, self._server, self._dyhb_rtt = i, shnum, server, 0.1 * i
            self.requested = self.answered = self.overdue = self.cancelled = False
            self.cb = None

        def get_block(self, segnum):
            self.requested = True
            requested_after_report.append(bool(reports))
            return Obs(self)

        def __repr__(self):
            return "Sh%d" % self.i
    requested_after_report = []
    objs = [Sh(i, sn, sv) for i, (sn, sv) in enumerate(shares)]
    f = F.SegmentFetcher(Node(), 1, k, None)

    def drain():
        while queue:
            fn, a, kw = queue.pop(0)
            fn(*a, **kw)
    added = set()
    nomore = False
    for ev in schedule:
        if ev[0] == "add":
            if not reports:             # the node forgets a fetcher that has reported (process_blocks / fetch_failed)
                f.add_shares([objs[ev[1]]])
            added.add(ev[1])
        elif ev[0] == "nomore":
            if not reports:
                f.no_more_shares()
            nomore = True
        elif ev[0] == "overdue":
            sh = objs[ev[1]]
            sh.overdue = True
            if not sh.cancelled:
                sh.cb(state=OVERDUE, **sh.kw)
        elif ev[0] == "answer":
            sh = objs[ev[1]]
            sh.answered = True
            if not sh.cancelled:
                v = verdicts[ev[1]]
                if v == GOOD:
                    sh.cb(state=COMPLETE, block=b"block-%d" % sh._shnum, **sh.kw)
                elif v == CORRUPT_:
                    sh.cb(state=CORRUPT, **sh.kw)
                else:
                    sh.cb(state=DEAD, f=Failure(RuntimeError("dead")), **sh.kw)
        drain()
    enabled = []
    for i, sh in enumerate(objs):
        if i not in added:
            enabled.append(("add", i))
        elif sh.requested and not sh.answered and not sh.cancelled:
            enabled.append(("answer", i))
            if not sh.overdue:
                enabled.append(("overdue", i))
    if not nomore and len(added) == len(objs):
        enabled.append(("nomore",))
    problems = []
    if len(reports) > 1:
        problems.append("reported %d times: %r" % (len(reports), [r[0] for r in reports]))
    for r in reports:
        if r[0] == "blocks" and (len(r[1]) < k or any(v != b"block-%d" % s for s, v in r[1].items())):
            problems.append("delivered %d blocks for k=%d: %r" % (len(r[1]), k, r[1]))
    if any(requested_after_report):
        problems.append("a share was requested after the fetcher had reported")
    if not enabled:
        good = set(sn for (sn, sv), v in zip(shares, verdicts) if v == GOOD)
        if not reports:
            problems.append("nothing reported although every share answered and no more shares will come (hang)")
        elif len(good) >= k and reports[0][0] != "blocks":
            problems.append("failed with %s although %d distinct good share numbers >= k=%d" % (reports[0][1], len(good), k))
        elif len(good) < k and reports[0][0] != "failed":
            problems.append("delivered data with only %d distinct good share numbers < k=%d" % (len(good), k))
        elif len(good) < k and reports[0][1] not in ("NoSharesError", "NotEnoughSharesError"):
            problems.append("wrong error %s" % reports[0][1])
    return problems, enabled


def explore(conf):
    """DFS over all schedules of one configuration; returns (first failing (schedule, problems) or None, number of schedules)"""
    k, shares, verdicts = conf
    count = 0
    stack = [[]]
    while stack:
        sched = stack.pop()
        problems, enabled = run_schedule(k, shares, verdicts, sched)
        if problems:
            return ({"k": k, "shares_shnum_server": shares, "verdicts": verdicts, "schedule": [list(e) for e in sched]}, problems), count
        if not enabled:
            count += 1
            continue
        for ev in enabled:
            stack.append(sched + [ev])
    return None, count


def random_run(args):
    k, shares, verdicts, seed = args
    rng = random.Random(seed)
    sched = []
    while True:
        problems, enabled = run_schedule(k, shares, verdicts, sched)
        if problems:
            return ({"k": k, "shares_shnum_server": shares, "verdicts": verdicts, "schedule": [list(e) for e in sched]}, problems), 1
        if not enabled:
            return None, 1
        sched.append(rng.choice(enabled))


def fetcher_configs(nshares):
    descs = [(sn, sv) for sn in (0, 1, 2) for sv in ("A", "B")]
    for shares in itertools.combinations(descs, nshares):
        for verdicts in itertools.product((GOOD, CORRUPT_, DEAD_), repeat=nshares):
            for k in (1, 2, 3):
                yield (k, list(shares), list(verdicts))


def fetcher_check(rep, tier, prop):
    confs = [c for n in (0, 1, 2) for c in fetcher_configs(n)]
    confs3 = list(fetcher_configs(3))
    rng = random.Random(rep.seed * 3 + 11)
    if tier == "quick":
        confs3 = rng.sample(confs3, 160)
    results = pmap(explore, confs + confs3)
    rnd = [(k, sh, v, rng.randrange(10 ** 9)) for (k, sh, v) in rng.sample(list(fetcher_configs(4)), 300 if tier == "quick" else 3000) for _ in range(3)]
    results += pmap(random_run, rnd)
    nsched = sum(c for _, c in results)
    name = "SegmentFetcher:reports-exactly-once-data-iff-k-distinct-good-shares-under-every-schedule"
    rep.obligations += 1
    rep.bounded_obligations += 1
    rep.paths += nsched
    rep.sym_paths += nsched
    rep.bounds.append("SegmentFetcher: every schedule of every configuration with <= 2 shares, %d configurations with 3 shares (exhaustive DFS), %d seeded random schedules with 4 shares; k in 1..3; %d complete schedules" % (len(confs3), len(rnd), nsched))
    bad = [b for b, _ in results if b]
    if not bad:
        rep.discharged += 1
        rep.discharged_names.add(name)
        return
    b = min(bad, key=lambda x: len(x[0]["schedule"]))
    rep.violations.append({"property": prop, "contract": "SegmentFetcher", "obligation": name, "status": "runtime", "inputs": b[0],
                           "native_outcome": "%s (%d failing explorations)" % ("; ".join(b[1][:2]), len(bad)), "confirmed_on_real_code": True})


# ------------------------------------------------------------------ ShareFinder.hungry/loop and Share._got_data: exhaustive over small states

def finder_failures():
    import allmydata.immutable.downloader.finder as FN
    bad = []
    n = 0
    real_ev = FN.eventually

    class Tok(object):
        def __init__(self, nm):
            self.nm = nm
            self.server = type("S", (), {"get_name": lambda self_: "srv-" + nm})()

        def __repr__(self):
            return self.nm
    TOK = {"r1": Tok("r1"), "r2": Tok("r2")}
    try:
        for running in (True, False):
            for hungry in (True, False):
                for pend in ((), ("r1",), ("r1", "r2")):
                    for over in [o for k in range(len(pend) + 1) for o in itertools.combinations(pend, k)]:
                        for servers in ("none", "empty", "one"):
                            for maxout in (1, 2):
                                for call in ("loop", "hungry"):
                                    n += 1
                                    sched, sent = [], []
                                    FN.eventually = lambda f, *a, **k: sched.append(getattr(f, "__name__", repr(f)))
                                    class Consumer(object):
                                        def no_more_shares(self):
                                            pass
                                    consumer = Consumer()
                                    f = object.__new__(FN.ShareFinder)
                                    f.running, f._hungry, f._started = running, hungry, True
                                    f.pending_requests, f.overdue_requests = set(TOK[x] for x in pend), set(TOK[x] for x in over)
                                    f._servers = None if servers == "none" else iter([] if servers == "empty" else ["srvX"])
                                    f.max_outstanding_requests = maxout
                                    f.share_consumer = consumer
                                    f._lp, f._si_prefix = None, "abc"
                                    f.send_request = lambda server: sent.append(server)
                                    f.log = lambda *a, **k: None
                                    getattr(f, call)()
                                    if call == "hungry":
                                        ok = f._hungry is True and sched == ["loop"]
                                        why = "hungry() must always mark the finder hungry and schedule a loop turn"
                                    else:
                                        non_overdue = set(pend) - set(over)
                                        idle = (not running) or (not hungry) or len(non_overdue) >= maxout
                                        if idle:
                                            ok, why = (sched == [] and sent == []), "an idle finder does nothing"
                                        elif servers == "one":
                                            ok, why = (sent == ["srvX"] and sched == ["loop"]), "a hungry finder with a server left asks it and loops again"
                                        elif pend:
                                            ok, why = (sched == [] and sent == []), "no_more_shares must wait for EVERY request still in flight, overdue or not"
                                        else:
                                            ok, why = (sched == ["no_more_shares"] and sent == []), "with no server left and nothing in flight the consumer is told there are no more shares"
                                    if not ok:
                                        bad.append({"call": call, "running": running, "hungry": hungry, "pending": list(pend), "overdue": list(over), "servers": servers,
                                                    "max_outstanding": maxout, "scheduled": sched, "sent": sent, "violated": why})
    finally:
        FN.eventually = real_ev
    return bad, n


def got_data_failures():
    import allmydata.immutable.downloader.share as SH
    from allmydata.util.spans import Spans, DataSpans
    bad = []
    n = 0
    ev = type("E", (), {"finished": lambda self, *a: None})()
    for start in range(0, 6):
        for length in range(1, 6):          # a request always asks for at least one byte
            for got in range(0, length + 1):
                n += 1
                s = object.__new__(SH.Share)
                s._alive, s._lp = True, None
                s._storage_index, s._shnum = b"s" * 16, 1
                s._server = type("Srv", (), {"get_name": lambda self_: b"srv", "get_longname": lambda self_: "server"})()
                s._si_prefix = "abc"
                s._pending, s._received, s._unavailable = Spans(start, length) if length else Spans(), DataSpans(), Spans()
                data = bytes(65 + i for i in range(got))
                try:
                    SH.Share._got_data(s, data, start, length, ev, None)
                    want_un = Spans(start + got, length - got) if got < length else Spans()
                    ok = (list(s._unavailable) == list(want_un)) and (got == 0 or s._received.get(start, got) == data) and list(s._pending) == []
                    err = None
                except Exception as e:      # noqa
                    ok, err = False, repr(e)
                if not ok:
                    bad.append({"start": start, "length": length, "received": got, "unavailable": [list(x) if isinstance(x, tuple) else x for x in s._unavailable], "error": err})
    return bad, n


def small_state_checks(rep, prop):
    for name, fn, bound in (("ShareFinder:hungry-always-schedules-a-turn-and-no_more_shares-only-when-nothing-is-in-flight", finder_failures,
                             "ShareFinder.loop/hungry: every state with <= 2 pending requests (any subset overdue), servers none/exhausted/one left, running/hungry flags, max_outstanding 1..2"),
                            ("Share:a-short-answer-marks-exactly-the-missing-tail-unavailable", got_data_failures, "Share._got_data: start 0..5, length 1..5, every answer length 0..length")):
        bad, n = fn()
        rep.obligations += 1
        rep.bounded_obligations += 1
        rep.paths += n
        rep.sym_paths += n
        rep.bounds.append(bound + " (%d states)" % n)
        if not bad:
            rep.discharged += 1
            rep.discharged_names.add(name)
            continue
        rep.violations.append({"property": prop, "contract": name.split(":")[0], "obligation": name, "status": "runtime", "inputs": bad[0],
                               "native_outcome": "%d of %d states fail; first: %r" % (len(bad), n, bad[0]), "confirmed_on_real_code": True})


def extra_checks(rep, tier):
    fetcher_check(rep, tier, "C46")
    small_state_checks(rep, "C46")
    from contracts import immutable_grid
    immutable_grid.grid_check(rep, tier, "C46")


class SegmentationOutcome(Spec):
    """whatever the segment request ends with, the read goes on with a new request or its Deferred fires"""
    file = "allmydata/immutable/downloader/segmentation.py"
    qualname = "Segmentation._fetch_next"
    cross_check = 0
    raises = ()
    canary_case = {"outcome": "badsegnum", "guess": True}

    def inputs(self):
        return {"outcome": ChoiceK(["badsegnum", "wrongsegment", "other"]), "guess": ChoiceK([False, True])}

    def all_cases(self):
        return [{"outcome": o, "guess": g} for o in ("badsegnum", "wrongsegment", "other") for g in (False, True)]

    def config(self):
        return {"overrides": dict(LOG)}

    def run(self, I, a):
        from pyvc.models_tahoe import DStub
        from allmydata.immutable.downloader.common import BadSegmentNumberError, WrongSegmentError
        self._req, self._errback = [], []
        ds = []

        def get_segment(I_, a_, k_):
            d = DStub("pending")
            ds.append(d)
            self._req.append(a_[0])
            return (d, stub("cancel", cancel=noop))
        node = stub("node", segment_size=(None if a["guess"] else 4096), guessed_segment_size=1 << 20, get_segment=get_segment, _si_prefix="abc")
        dd = stub("deferred", callback=noop, errback=lambda I_, a_, k_: self._errback.append(a_[0]))
        cons = stub("consumer")
        sg = SObj(self.module().Segmentation, {"_node": node, "_offset": 5000000, "_size": 10, "_consumer": cons, "_deferred": dd, "_lp": None,
                                              "_alive": True, "_hungry": True, "_active_segnum": None, "_cancel_segment_request": None})
        I.call_value(self.target(I), [sg], {})
        node.fields["segment_size"] = 4096             # by the time the request fails the UEB (and with it the real size) is known
        f = failure_stub({"badsegnum": BadSegmentNumberError, "wrongsegment": WrongSegmentError, "other": RuntimeError}[a["outcome"]], "x")
        self._f = f
        fire_chain(I, ds[0], f)
        return sg

    def ensures(self, I, a, out):
        retried = len(self._req) == 2
        ended = len(self._errback) == 1 and getattr(self._errback[0], "exc_cls", None) is self._f.exc_cls
        may_retry = a["guess"] and a["outcome"] in ("badsegnum", "wrongsegment")
        return [("the-read-goes-on-or-ends-never-neither", z3.BoolVal(retried != ended)),
                ("a-wrong-guess-is-retried-with-the-real-segment-size", z3.BoolVal(retried == may_retry and (not retried or self._req[1] == 5000000 // 4096))),
                ("any-other-failure-ends-the-read-with-that-failure", z3.BoolVal(ended == (not may_retry)))]

    def canary(self, I, a, out):
        return [("canary", z3.BoolVal(len(self._req) == 1))]


class GotShares(Spec):
    """DownloadNode.got_shares: every share the finder hands over is recorded by the node -- also when the active
    fetcher refuses them (a fetcher that was stopped a moment ago raises) -- and a live fetcher is told about them"""
    file = "allmydata/immutable/downloader/node.py"
    qualname = "DownloadNode.got_shares"
    cross_check = 0
    canary_case = {"fetcher": "live"}

    @property
    def raises(self):
        return (AttributeError,)

    def inputs(self):
        return {"fetcher": ChoiceK(["none", "live", "stopped"])}

    def all_cases(self):
        return [{"fetcher": f} for f in ("none", "live", "stopped")]

    def config(self):
        return {"overrides": dict(LOG)}

    def run(self, I, a):
        from pyvc.interp import PyRaise
        self._told = []

        def add_shares(I_, a_, k_):
            if a["fetcher"] == "stopped":
                raise PyRaise(AttributeError("'SegmentFetcher' object has no attribute '_shares'"), AttributeError)
            self._told.append(set(a_[0]))
        old = stub("share-old")
        new1, new2 = stub("share-new1"), stub("share-new2")
        self._objs = (old, new1, new2)
        node = SObj(self.module().DownloadNode, {"_shares": {old}, "_active_segment": (None if a["fetcher"] == "none" else stub("fetcher", add_shares=add_shares))})
        try:
            out = Outcome("return", I.call_value(self.target(I), [node, [new1, new2]], {}))
        except PyRaise as pr:
            out = Outcome("raise", exc=pr.exc, exc_cls=pr.cls)
        out.post = {"node": node}
        return out

    def ensures(self, I, a, out):
        old, new1, new2 = self._objs
        have = set(getattr(x, "v", x) for x in out.post["node"].fields["_shares"])
        return [("every-share-handed-over-is-recorded-by-the-node-whatever-the-fetcher-does", z3.BoolVal(have == {old, new1, new2})),
                ("a-live-fetcher-is-told-about-exactly-these-shares", z3.BoolVal(a["fetcher"] != "live" or self._told == [{new1, new2}])),
                ("only-a-stopped-fetcher-makes-the-call-raise", z3.BoolVal((out.kind == "raise") == (a["fetcher"] == "stopped")))]

    def canary(self, I, a, out):
        return [("canary", z3.BoolVal(len(self._told) == 0))]


class StartNewSegment(Spec):
    """DownloadNode._start_new_segment: a new fetcher is started only when none is active and a request is queued, for the
    segment at the head of the queue, and it is given exactly the shares that are still alive (a dead share would sit in
    its active map for ever: Share.get_block on a dead share never answers)"""
    file = "allmydata/immutable/downloader/node.py"
    qualname = "DownloadNode._start_new_segment"
    cross_check = 0
    raises = ()
    canary_case = {"active": False, "queue": 2, "alive": (True, False, True)}

    def inputs(self):
        return {"active": ChoiceK([False, True]), "queue": ChoiceK([0, 1, 2]), "alive": ChoiceK([()])}

    def all_cases(self):
        import itertools
        return [{"active": ac, "queue": q, "alive": al} for ac in (False, True) for q in (0, 1, 2) for n in (0, 1, 3) for al in itertools.product((False, True), repeat=n)]

    def config(self):
        me = self
        o = dict(LOG)

        def make_fetcher(I, a, kw):
            f = stub("fetcher", add_shares=lambda I_, a_, k_: me._given.append(list(a_[0])))
            me._fetchers.append((f, a[1], a[2]))
            return f
        o["node.SegmentFetcher"] = make_fetcher
        o["fetcher.SegmentFetcher"] = make_fetcher
        return {"overrides": o}

    def run(self, I, a):
        self._given, self._fetchers, self._activated = [], [], []
        shares = [stub("share%d" % i, is_alive=(lambda I_, a_, k_, al=al: al)) for i, al in enumerate(a["alive"])]
        self._shares = shares
        reqs = [(7 + j, "d%d" % j, "c%d" % j, stub("ev%d" % j, activate=(lambda I_, a_, k_, j=j: self._activated.append(j))), None) for j in range(a["queue"])]
        old = stub("old-fetcher") if a["active"] else None
        node = SObj(self.module().DownloadNode, {"_active_segment": old, "_segment_requests": list(reqs), "_shares": set(shares), "_lp": None,
                                                "_verifycap": stub("vcap", needed_shares=3)})
        node.fields["__repr__"] = stub("x", f=lambda I_, a_, k_: "node").fields["f"]
        I.call_value(self.target(I), [node], {})
        out = Outcome("return", node)
        out.post = {"old": old}
        return out

    def ensures(self, I, a, out):
        node = out.value
        start = (not a["active"]) and a["queue"] > 0
        alive = [sh for sh, al in zip(self._shares, a["alive"]) if al]
        given = [getattr(x, "v", x) for x in (self._given[0] if self._given else [])]
        g = [("a-fetcher-is-started-exactly-when-none-is-active-and-a-request-is-queued", z3.BoolVal(len(self._fetchers) == (1 if start else 0)))]
        if start and self._fetchers:
            f, segnum, k = self._fetchers[0]
            g += [("it-serves-the-request-at-the-head-of-the-queue-with-k-of-the-cap", z3.BoolVal(segnum == 7 and k == 3 and self._activated == [0])),
                  ("it-becomes-the-active-segment", z3.BoolVal(node.fields["_active_segment"] is f)),
                  ("it-is-given-exactly-the-shares-that-are-alive", z3.BoolVal(len(self._given) == 1 and len(given) == len(alive) and all(any(x is y for y in alive) for x in given)))]
        else:
            g.append(("otherwise-nothing-changes", z3.BoolVal(node.fields["_active_segment"] is out.post["old"] and not self._given)))
        return g

    def canary(self, I, a, out):
        return [("canary", z3.BoolVal(len(self._given) == 0))]


class DesireOffsets(Spec):
    """Share._desire_offsets: as long as the offset table is unknown, the version word -- and, once the version is known,
    the offset table -- is data the share cannot do without (gotta_gotta_have_it), whether or not the server tolerates
    read overrun; that is what lets _do_loop abandon a share too short to hold its own header instead of asking again"""
    file = "allmydata/immutable/downloader/share.py"
    qualname = "Share._desire_offsets"
    cross_check = 0
    raises = ()
    canary_case = {"overrun": True, "version": None}

    def inputs(self):
        return {"overrun": ChoiceK([False, True]), "version": ChoiceK([None, 1, 2])}

    def all_cases(self):
        return [{"overrun": o, "version": v} for o in (False, True) for v in (None, 1, 2)]

    def config(self):
        return {"overrides": dict(LOG)}

    def run(self, I, a):
        import struct
        self._adds = {"want": [], "need": [], "gotta": []}

        def spans(nm):
            return stub(nm, add=lambda I_, a_, k_: self._adds[nm].append((a_[0], a_[1])))
        received = stub("received", get=lambda I_, a_, k_: (struct.pack(">L", a["version"]) if (a["version"] is not None and (a_[0], a_[1]) == (0, 4)) else None))
        sh = SObj(self.module().Share, {"_overrun_ok": a["overrun"], "_received": received})
        I.call_value(self.target(I), [sh, (spans("want"), spans("need"), spans("gotta"))], {})
        return sh

    def ensures(self, I, a, out):
        g = self._adds["gotta"]
        table = {1: (0x0c, 6 * 4), 2: (0x14, 6 * 8)}.get(a["version"])
        return [("the-version-word-is-indispensable", z3.BoolVal((0, 4) in g)),
                ("once-the-version-is-known-the-offset-table-is-indispensable", z3.BoolVal(table is None or table in g)),
                ("nothing-else-is-declared-indispensable", z3.BoolVal(set(g) <= {(0, 4), table})),
                ("an-overrun-tolerant-server-is-asked-for-the-first-KiB-speculatively", z3.BoolVal((not a["overrun"]) or (0, 1024) in self._adds["want"]))]

    def canary(self, I, a, out):
        return [("canary", z3.BoolVal(len(self._adds["gotta"]) == 0))]


def contracts(tier):
    return [ProcessBlocks(), FetchFailed(), SegmentationOutcome(), DesireOffsets(), GotShares(), StartNewSegment()]
