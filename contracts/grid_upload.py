"""Run-time scenario contracts for immutable upload, check, verify and repair on the real in-process grid (contracts/real_grid.py):
bounded end-to-end stand-in used by C06, C07, C45 (and C01).  Ground truth is read straight from the servers' disks and from a
reference encoding of the same file on a healthy grid (same convergence secret -> same key, storage index and share bytes).

    python -m contracts.grid_upload <seed> <number of scenarios>      -> one JSON object on stdout
"""
import json
import random
import sys
import warnings


def main_(seed, nscen):
    warnings.simplefilter("ignore")
    from allmydata.util import cputhreadpool
    cputhreadpool._DISABLED = True      # zfec and RSA key generation run inline: no cross-thread wake-ups to lose, reproducible schedules
    import struct
    from twisted.internet import defer, reactor, task
    from allmydata import uri
    from allmydata.immutable import upload
    from allmydata.interfaces import UploadUnhappinessError, NoServersError
    from allmydata.monitor import Monitor
    from allmydata.util.consumer import download_to_data
    from contracts import real_grid

    rng = random.Random(seed)
    report = {"scenarios": 0, "uploads_ok": 0, "uploads_failed": 0, "checks": 0, "repairs": 0, "problems": [], "notes": {}}

    def note(k_):
        report["notes"][k_] = report["notes"].get(k_, 0) + 1

    def blob(n):
        a, b = rng.randrange(1, 251), rng.randrange(251)
        return bytes((i * a + b) % 251 for i in range(n))

    def with_timeout(d, seconds=60):
        """a Deferred that fires with ('done', result) / ('failed', failure) / ('hang', None)"""
        out = defer.Deferred()
        state = []

        def fire(v):
            if not state:
                state.append(1)
                out.callback(v)
        d.addCallbacks(lambda r: fire(("done", r)), lambda f: fire(("failed", f)))
        dc = reactor.callLater(seconds, lambda: fire(("hang", None)))
        out.addBoth(lambda v: (dc.active() and dc.cancel(), v)[1])
        return out

    def share_data(ss, si, shnum):
        for sh, br in ss.get_buckets(si).items():
            if sh == shnum:
                return br.read(0, 2 ** 24)
        return None

    def disk_layout(g, si):
        """{server number: {shnum: share data bytes}} as the servers would hand it to a reader"""
        out = {}
        for (i, sh) in g.share_files(si):
            out.setdefault(i, {})[sh] = share_data(g.servers[i], si, sh)
        return out

    def used_regions(ref):
        """byte ranges of a v1 share that readers and the verifier actually use"""
        (version,) = struct.unpack(">L", ref[:4])
        assert version == 1
        o = dict(zip(["data", "plaintext_hash_tree", "crypttext_hash_tree", "block_hashes", "share_hashes", "uri_extension"], struct.unpack(">6L", ref[0x0c:0x24])))
        return {"version": (0, 4), "offsets": (0x0c, 0x10), "offsets2": (0x14, 0x24), "data": (o["data"], o["plaintext_hash_tree"]), "crypttext_hash_tree": (o["crypttext_hash_tree"], o["block_hashes"]),
                "block_hashes": (o["block_hashes"], o["share_hashes"]), "share_hashes": (o["share_hashes"], o["uri_extension"]),
                # (not the 4-byte length prefix of the extension block: a bit flip that makes it LARGER is harmless -- the read is clipped at the end of the share and the block still hashes to the cap)
                "uri_extension": (o["uri_extension"] + 4, len(ref))}

    def corrupt_file(path, ref):
        """flip one bit of the share data inside a used field; the container header is 12 bytes"""
        regs = used_regions(ref)
        field = rng.choice(sorted(regs))
        lo, hi = regs[field]
        if hi <= lo:
            field, (lo, hi) = "uri_extension", regs["uri_extension"]
        pos = rng.randrange(lo, hi)
        with open(path, "r+b") as f:
            f.seek(12 + pos)
            b = f.read(1)
            f.seek(12 + pos)
            f.write(bytes([b[0] ^ (1 << rng.randrange(8))]))
        return "%s@%d" % (field, pos)

    @defer.inlineCallbacks
    def scenario(idx):
        k, happy, n = rng.choice([(1, 1, 1), (1, 1, 3), (1, 2, 3), (2, 2, 4), (2, 4, 6), (3, 7, 10), (3, 5, 10), (3, 3, 5), (7, 8, 10), (4, 4, 4), (4, 4, 4), (1, 3, 3), (2, 3, 3), (3, 5, 5), (3, 10, 10)])
        S = rng.randint(1, 12)
        seg = rng.choice([None, 1024, 4096])
        size = rng.choice([56, 100, 1000, 5000, rng.randint(56, 20000)])
        data = blob(size)
        conv = b"convergence-%d" % rng.randrange(4)
        # reference encoding on a healthy grid
        ref = real_grid.build(num_servers=n, k=k, happy=1, n=n, max_segment_size=seg)
        g = None
        try:
            st, res = yield with_timeout(ref.uploader.upload(upload.Data(data, convergence=conv)))
            if st != "done":
                report["problems"].append({"kind": "harness", "what": "reference upload did not succeed: %s %s" % (st, res)})
                return
            cap = uri.from_string(res.get_uri())
            si = cap.get_storage_index()
            ref_shares = {}
            for i, shs in disk_layout(ref, si).items():
                ref_shares.update(shs)
            if sorted(ref_shares) != list(range(n)):
                report["problems"].append({"kind": "harness", "what": "reference upload placed shares %r" % sorted(ref_shares)})
                return
            fates = [rng.choice(["ok"] * 7 + ["readonly", "full", "broken", "break-allocate", "break-write", "break-close"]) for i in range(S)]
            if idx % 3 == 0:
                fates = [f if f in ("ok", "readonly", "full") else "ok" for f in fates]
            g = real_grid.build(num_servers=S, k=k, happy=happy, n=n, max_segment_size=seg,
                                readonly=[i for i in range(S) if fates[i] == "readonly"], full=[i for i in range(S) if fates[i] == "full"])
            # pre-existing (valid) shares, written through the real server API
            pre = {}
            if rng.random() < 0.5:
                for _ in range(rng.randint(1, n + 2)):
                    i, sh = rng.randrange(S), rng.randrange(n)
                    if sh in pre.get(i, ()):
                        continue
                    ss = g.servers[i]
                    ro = ss.readonly_storage
                    ss.readonly_storage = False
                    rs = ss.reserved_space
                    ss.reserved_space = 0
                    try:
                        already, writers = ss.allocate_buckets(si, b"r" * 32, b"c" * 32, {sh}, len(ref_shares[sh]))
                        for bw in writers.values():
                            bw.write(0, ref_shares[sh])
                            bw.close()
                    finally:
                        ss.readonly_storage = ro
                        ss.reserved_space = rs
                    pre.setdefault(i, set()).add(sh)
            for i, f in enumerate(fates):
                if f == "broken":
                    g.wrappers[i].broken = True
                elif f == "break-allocate":
                    g.wrappers[i].broken = {"allocate_buckets": 0}
                elif f == "break-write":
                    g.wrappers[i].broken = {"write": rng.randrange(0, 8)}
                elif f == "break-close":
                    g.wrappers[i].broken = {"close": rng.randrange(0, 3)}
            desc = {"k": k, "happy": happy, "n": n, "servers": S, "fates": fates, "preexisting": dict((str(i), sorted(v)) for i, v in pre.items()), "file_size": size, "max_segment_size": seg}
            st, res = yield with_timeout(g.uploader.upload(upload.Data(data, convergence=conv)))
            layout = disk_layout(g, si)
            # every share a reader can see must be a complete, correct share
            for i, shs in layout.items():
                for sh, got in shs.items():
                    if got != ref_shares[sh]:
                        report["problems"].append(dict(desc, kind="partial_share", upload=st,
                                                       what="after the upload %s, server %d offers share %d with %d bytes that differ from the correct share (%d bytes)" % (st, i, sh, len(got or b""), len(ref_shares[sh]))))
                        return
            if st == "hang":
                report["problems"].append(dict(desc, kind="upload_hang", what="the upload neither succeeded nor failed within 60 s"))
                return
            yield task.deferLater(reactor, 0.01, lambda: None)
            left = [(i, g.servers[i].allocated_size()) for i in range(S) if fates[i] != "broken" and g.servers[i].allocated_size()]
            if left:
                note("upload %s left space reserved on servers that answer: %r %r" % (st, [fates[i] for i, _ in left], [x for _, x in left]))
            failing = [f for f in fates if f not in ("ok", "readonly", "full")]
            if st == "done":
                report["uploads_ok"] += 1
                if res.get_uri() != cap.to_string():
                    report["problems"].append(dict(desc, kind="wrong_cap", what="upload returned %r, the same file on a healthy grid gave %r" % (res.get_uri(), cap.to_string())))
                    return
                sharemap = res.get_sharemap()
                edges = {}
                for sh, servers in sharemap.items():
                    for s in servers:
                        i = g.serverids.index(s.get_serverid())
                        edges.setdefault(i, set()).add(sh)
                        if sh not in layout.get(i, {}):
                            report["problems"].append(dict(desc, kind="reported_share_missing", what="upload succeeded and reports share %d on server %d, which does not hold it" % (sh, i)))
                            return
                # get_sharemap() lists the shares this upload pushed; the shares it "found" are not itemised, so the layout it may
                # count is bounded by: pushed shares + whatever complete shares sit on servers that answered at all
                layout_edges = dict((i, set(v)) for i, v in edges.items())
                for i, shs in layout.items():
                    if fates[i] != "broken":
                        layout_edges.setdefault(i, set()).update(shs)
                h = real_grid.max_matching(layout_edges)
                if h < happy:
                    report["problems"].append(dict(desc, kind="unhappy_success", reported=dict((str(i), sorted(v)) for i, v in layout_edges.items()),
                                                   what="upload reported success although the shares it pushed or could have found form a layout of happiness %d < %d" % (h, happy)))
                    return
                if res.get_pushed_shares() != sum(len(v) for v in edges.values()):
                    report["problems"].append(dict(desc, kind="reported_share_missing", what="upload reports %d pushed shares but itemises %d" % (res.get_pushed_shares(), sum(len(v) for v in edges.values()))))
                    return
                for i in edges:
                    if fates[i] in ("readonly", "full") and not edges[i] <= pre.get(i, set()):
                        report["problems"].append(dict(desc, kind="readonly_written", what="%s server %d reported as holding new shares %r" % (fates[i], i, sorted(edges[i] - pre.get(i, set())))))
                        return
            else:
                report["uploads_failed"] += 1
                if not res.check(UploadUnhappinessError, NoServersError):
                    report["problems"].append(dict(desc, kind="wrong_upload_error", what="upload failed with %s: %s" % (res.type.__name__, str(res.value)[:200])))
                    return
                if not failing:
                    # no server misbehaves: was a happy layout reachable?  writable servers can take any share, the others only what they hold
                    # (the selector looks at the first 2N servers of the permuted list only: servers-of-happiness.rst step 0)
                    considered = [g.serverids.index(s.get_serverid()) for s in g.storage_broker.get_servers_for_psi(si, for_upload=True)[:2 * n]]
                    reach = {}
                    for i in considered:
                        reach[i] = set(range(n)) if fates[i] == "ok" else set(pre.get(i, set()))
                    best = real_grid.max_matching(reach)
                    if best >= happy and any(fates[i] == "ok" for i in considered):
                        report["problems"].append(dict(desc, kind="unhappy_but_reachable", what="upload failed (%s) although a layout of happiness %d >= %d was reachable" % (str(res.value)[:160], best, happy)))
                        return
                report["scenarios"] += 1
                return
            # ---------------------------------------------------------------- download, check, verify, repair (all servers behave now)
            for w in g.wrappers:
                w.broken = False
            node = g.nodemaker.create_from_cap(cap.to_string())
            st, got = yield with_timeout(download_to_data(node))
            if st != "done" or got != data:
                report["problems"].append(dict(desc, kind="roundtrip", what="download after a successful upload: %s %s" % (st, "wrong bytes" if st == "done" else got)))
                return
            files = g.share_files(si)
            truth = {}
            for key in sorted(files):
                truth[key] = rng.choice(["good", "good", "good", "deleted", "corrupt"])
            if idx % 5 == 0:
                truth = dict((key, "good") for key in files)
            import os
            how = {}
            for key, t in truth.items():
                if t == "deleted":
                    os.unlink(files[key])
                elif t == "corrupt":
                    how[key] = corrupt_file(files[key], ref_shares[key[1]])
            good_sh = set(sh for (i, sh), t in truth.items() if t == "good")
            present_sh = set(sh for (i, sh), t in truth.items() if t != "deleted")
            cdesc = dict(desc, shares=dict(("%d/%d" % key, t + (":" + how[key] if key in how else "")) for key, t in truth.items()))
            before = disk_layout(g, si)
            for verify in (False, True):
                node = g.nodemaker.create_from_cap(cap.to_string())
                st, cr = yield with_timeout(node.check(Monitor(), verify=verify))
                report["checks"] += 1
                if st != "done":
                    report["problems"].append(dict(cdesc, kind="check_failed", what="check(verify=%s) %s: %s" % (verify, st, cr)))
                    return
                want = good_sh if verify else present_sh
                facts = (cr.is_healthy(), cr.is_recoverable(), cr.get_share_counter_good())
                wanted = (len(want) == n, len(want) >= k, len(want))
                if facts != wanted:
                    report["problems"].append(dict(cdesc, kind="check_wrong", what="check(verify=%s) says healthy=%s recoverable=%s good=%d; the disks say healthy=%s recoverable=%s good=%d" % ((verify,) + facts + wanted)))
                    return
                if verify:
                    reported = set((g.serverids.index(s.get_serverid()), sh) for (s, si_, sh) in list(cr.get_corrupt_shares()) + list(cr.get_incompatible_shares()))
                    real = set(key for key, t in truth.items() if t == "corrupt")
                    if reported != real:
                        report["problems"].append(dict(cdesc, kind="check_wrong", what="verify lists corrupt shares %r, the corrupted ones are %r" % (sorted(reported), sorted(real))))
                        return
                    goodmap = set((g.serverids.index(s.get_serverid()), sh) for sh, ss_ in cr.get_sharemap().items() for s in ss_)
                    realgood = set(key for key, t in truth.items() if t == "good")
                    if goodmap != realgood:
                        report["problems"].append(dict(cdesc, kind="check_wrong", what="verify's map of good shares is %r, the good ones are %r" % (sorted(goodmap), sorted(realgood))))
                        return
            # repair
            node = g.nodemaker.create_from_cap(cap.to_string())
            st, crr = yield with_timeout(node.check_and_repair(Monitor(), verify=True))
            report["repairs"] += 1
            after = disk_layout(g, si)
            for key, t in truth.items():
                if t == "good" and after.get(key[0], {}).get(key[1]) != before[key[0]][key[1]]:
                    report["problems"].append(dict(cdesc, kind="repair_altered_good_share", what="check_and_repair (%s) changed or removed the good share %d on server %d" % (st, key[1], key[0])))
                    return
            if st == "hang":
                report["problems"].append(dict(cdesc, kind="repair_hang", what="check_and_repair did not finish"))
                return
            if st == "failed":
                note("repair raised %s" % crr.type.__name__)
                if len(good_sh) == n:
                    report["problems"].append(dict(cdesc, kind="repair_failed_on_healthy", what="check_and_repair of a healthy file failed: %s" % crr.value))
                    return
                from allmydata.interfaces import NotEnoughSharesError, NoSharesError
                if len(good_sh) >= k and crr.check(NotEnoughSharesError, NoSharesError):
                    report["problems"].append(dict(cdesc, kind="repair_cannot_read", what="repair could not read the file (%s) although %d >= k good shares are on answering servers" % (str(crr.value)[:160], len(good_sh))))
                    return
                report["scenarios"] += 1
                return
            if len(good_sh) == n:
                if crr.get_repair_attempted():
                    report["problems"].append(dict(cdesc, kind="repair_wrong", what="repair attempted on a healthy file"))
                    return
            elif not crr.get_repair_attempted():
                report["problems"].append(dict(cdesc, kind="repair_wrong", what="file has %d of %d good shares but no repair was attempted" % (len(good_sh), n)))
                return
            elif crr.get_repair_successful():
                new = {}
                for i, shs in after.items():
                    for sh, got in shs.items():
                        if (i, sh) not in before.get(i, {}) and sh not in before.get(i, {}):
                            new.setdefault(i, {})[sh] = got
                            if got != ref_shares[sh]:
                                report["problems"].append(dict(cdesc, kind="repair_bad_share", what="repair wrote share %d on server %d that differs from the correct share" % (sh, i)))
                                return
                post = crr.get_post_repair_results()
                all_good_after = set(sh for i, shs in after.items() for sh, got in shs.items() if got == ref_shares[sh])
                if post.is_healthy() != (len(all_good_after) == n):
                    report["problems"].append(dict(cdesc, kind="repair_wrong", what="post-repair results say healthy=%s but %d of %d distinct good shares are on disk" % (post.is_healthy(), len(all_good_after), n)))
                    return
                new_sh = set(sh for shs in new.values() for sh in shs)
                if len(new_sh) >= k:
                    # the file must be readable from the repaired shares alone
                    for (i, sh), path in g.share_files(si).items():
                        if sh not in new.get(i, {}):
                            os.unlink(path)
                    node = g.nodemaker.create_from_cap(cap.to_string())
                    st, got = yield with_timeout(download_to_data(node))
                    if st != "done" or got != data:
                        report["problems"].append(dict(cdesc, kind="repair_unreadable", what="download from the %d repaired shares alone: %s %s" % (len(new_sh), st, "wrong bytes" if st == "done" else got)))
                        return
                    note("read from repaired shares alone")
            else:
                note("repair unsuccessful")
            report["scenarios"] += 1
        finally:
            ref.cleanup()
            if g is not None:
                g.cleanup()

    @defer.inlineCallbacks
    def run_all():
        for i in range(nscen):
            yield scenario(i)

    def go():
        d = run_all()
        d.addErrback(lambda f: report["problems"].append({"kind": "harness", "what": "harness error: " + f.getTraceback()[-900:]}))
        d.addBoth(lambda _: reactor.stop())
    reactor.callWhenRunning(go)
    reactor.run()
    print(json.dumps(report))


BOUND = ("upload/check/repair scenarios on the real in-process grid (real StorageServer on disk, real Uploader/selector/Encoder/checker/repairer): 1..12 servers each ok/read-only/full/broken/"
         "failing on allocate, on the m-th write or on close; k/happy/N in {1/1/1,1/1/3,1/2/3,2/2/4,2/4/6,3/7/10,3/5/10,3/3/5,7/8/10,4/4/4,1/3/3,2/3/3,3/5/5,3/10/10}; files 56..20000 bytes; valid pre-existing shares anywhere; "
         "after a successful upload every share file good/deleted/bit-flipped in a used field, check with and without verify, check_and_repair, read from the repaired shares alone")
KINDS = {
    "C06": (("partial_share", "upload_hang", "reported_share_missing", "unhappy_success", "wrong_upload_error"),
            "success-means-a-happy-layout-of-complete-shares-failure-means-an-unhappiness-error-and-no-partial-share-is-visible"),
    "C07": (("unhappy_but_reachable", "readonly_written"), "no-upload-is-unhappy-when-the-considered-servers-allow-a-happy-layout-and-read-only-servers-get-no-new-shares"),
    "C45": (("check_failed", "check_wrong", "repair_altered_good_share", "repair_hang", "repair_failed_on_healthy", "repair_cannot_read", "repair_wrong", "repair_bad_share", "repair_unreadable"),
            "check-and-verify-results-equal-the-ground-truth-on-disk-and-repair-adds-only-correct-shares-leaving-good-ones-alone"),
    "C01": (("roundtrip", "wrong_cap"), "a-successful-upload-reads-back-exactly-and-names-the-same-cap-as-on-a-healthy-grid"),
}


def grid_check(rep, tier, prop):
    from contracts import scenario_runner
    kinds, name = KINDS[prop]
    scenario_runner.run(rep, tier, prop, "grid_upload", kinds, name, BOUND, ("scenarios", "uploads_ok", "uploads_failed", "checks", "repairs"), quick=(8, 40), thorough=(16, 500), contract="UploadScenarios")


if __name__ == "__main__":
    main_(int(sys.argv[1]), int(sys.argv[2]))
