"""C30 HTTP storage API authorization -- contracts on storage/http_server.py"""
import ast
import itertools
import z3
from pyvc.harness import Spec, IntK, BoolK, StrK, ChoiceK, Outcome
from pyvc.interp import ModelFn, Closure, Env, find_def, parse_file
from pyvc.values import *  # noqa
from contracts.lib import *  # noqa

LEVEL = "other"
MANIFEST_ENTRY = {
    "text": "The route wrapper installed by _authorization_decorator is proved for every Authorization header value (or none) and swissnum: the handler body runs only if a header is present, equals swissnum_auth_header(swissnum) and the X-Tahoe-Authorization secrets were extracted; otherwise 401/400 is raised and the handler (hence every state change) is never reached. _extract_secrets over <= 2 header values: the result has exactly the required secrets, every value non-empty, lease secrets 32 bytes; anything else is refused. UploadsInProgress: an upload in progress is reachable only with its own upload secret. Structural obligation (syntactic): every HTTPServer route is registered through _authorized_route with the documented secret set.",
    "note": "Header-list shapes bounded (<= 2 values), hence level 'other'. base64 decoding is an uninterpreted function that may return any bytes (including empty) or fail; timing_safe_compare <=> equality is a callee contract discharged on the real body under SHA-256 collision resistance (TimingSafeCompare); the Klein/werkzeug routing layer and TLS are not under contract. The route table in the contract is the documented GBS API.",
    "technique": "contract-based deductive verification (pyvc VCs + z3) + syntactic route-table scan",
}
MANIFEST_ENTRY["text"] += ' Bounded end-to-end stand-in (run-time contract, never counted as proved): contracts/grid_http.py replays seeded operation histories on twin real StorageServers, one called directly and one through the real HTTP client and HTTPServer resource in memory, comparing every result and the logical server state, interleaved with requests that must be refused (wrong swissnum, wrong or missing secrets) and must change nothing.'
MANIFEST_ENTRY["technique"] += "; plus bounded end-to-end run-time scenario contracts on an in-process grid of the real components (stand-in, labelled bounded)"
EXPLANATION = "Dominance of every handler by the swissnum and secret checks; exact secret sets."
TRUSTED = ["timing_safe_compare(a,b) <=> a == b is the callee contract used at call sites; it is discharged on the real body by TimingSafeCompare (contracts/tsc.py) under SHA-256 collision resistance (explicit cryptographic hypothesis, instantiated) and os.urandom(32) returning 32 bytes", "base64.b64decode as an uninterpreted partial function", "klein routing dispatches only registered routes"]
ASSUMPTIONS = []
NOT_DECIDED = "handler bodies beyond the gate (C22/C24/C31), TLS certificate pinning."
F = "allmydata/storage/http_server.py"
SS = z3.StringSort()
EXPECT = z3.Function("swissnum_auth_header", SS, SS)


def T(v):
    return as_sstr(v).term


class AuthRoute(Spec):
    file = F
    qualname = "_authorization_decorator.decorator.route"
    cross_check = 0
    canary_case = {"hdr": "present", "secrets_ok": True}

    @property
    def raises(self):
        return (self.module()._HTTPError,)

    def inputs(self):
        return {"hdr": ChoiceK(["absent", "present"]), "secrets_ok": ChoiceK([True, False]), "auth": StrK(False), "swissnum": StrK(True)}

    def all_cases(self):
        return [{"hdr": h, "secrets_ok": s} for h in ("absent", "present") for s in (True, False)]

    def config(self):
        me = self

        def extract(I, args, kw):
            me._events.append(("extract", args[0], args[1]))
            if not me._a["secrets_ok"]:
                raise PyRaise(SObj(me.module().ClientSecretsException, {"args": ("bad",)}))
            return {"the": "secrets"}
        return {"overrides": {"http_server._extract_secrets": extract, "http_common.swissnum_auth_header": lambda I, a, kw: SStr(EXPECT(T(a[0])), True),
                              "http_server.swissnum_auth_header": lambda I, a, kw: SStr(EXPECT(T(a[0])), True),
                              "eliot.start_action": lambda I, a, kw: Opaque("action"), "http_server.start_action": lambda I, a, kw: Opaque("action")}}

    def run(self, I, a):
        self._a, self._events = a, []
        ev = self._events

        def get_raw(I_, args, kw):
            name, default = args[0], (args[1] if len(args) > 1 else None)
            if name == "Authorization":
                return default if a["hdr"] == "absent" else [a["auth"]]
            return ["X-secret-header"]
        req = stub("request", method=b"GET", path=b"/x", code=200)
        req.fields["requestHeaders"] = stub("headers", getRawHeaders=get_raw)
        app = stub("app")
        app.fields["_swissnum"] = a["swissnum"]
        env = Env()
        env.vars.update({"f": ModelFn("handler", lambda I_, a_, k_: (ev.append(("handler", a_[2])), "handler-result")[1]),
                         "required_secrets": {"REQ"}})
        clo = Closure(find_def(self.path(), self.qualname), env, self.module().__dict__, self.qualname, self.path())
        try:
            out = Outcome("return", I.call_value(clo, [app, req], {}))
        except PyRaise as pr:
            out = Outcome("raise", exc=pr.exc, exc_cls=pr.cls)
        out.post = {"events": list(ev)}
        return out

    def ensures(self, I, a, out):
        ev = out.post["events"]
        ran = [e for e in ev if e[0] == "handler"]
        if a["hdr"] == "present":
            good = __import__("pyvc.models_str", fromlist=["x"]).UTF8_ENCODE(T(a["auth"])) == EXPECT(T(a["swissnum"]))
        else:
            good = z3.StringVal("") == EXPECT(T(a["swissnum"]))      # the default [""] stands for "no header": never the expected value
        if out.kind == "raise":
            code = out.exc.fields["args"][0][0] if isinstance(out.exc, SObj) and out.exc.fields.get("args") else None
            code = out.exc.fields.get("code", code)
            g = [("refused-request-never-reaches-the-handler", z3.BoolVal(ran == []))]
            if code == 401:
                g.append(("401-only-for-a-missing-or-wrong-swissnum", z3.Not(good) if a["hdr"] == "present" else z3.BoolVal(True)))
            elif code == 400:
                g.append(("400-only-for-bad-secrets-or-undecodable-header", z3.BoolVal((not a["secrets_ok"]) or a["hdr"] == "present")))
            else:
                g.append(("refusal-is-401-or-400", z3.BoolVal(False)))
            return g
        return [("handler-runs-only-behind-a-matching-swissnum", z3.And(z3.BoolVal(a["hdr"] == "present"), good)),
                ("handler-runs-only-with-extracted-secrets", z3.BoolVal(a["secrets_ok"] and ran == [("handler", {"the": "secrets"})] and ev[0][0] == "extract" and ev[0][2] == {"REQ"}))]

    def hypotheses(self, I, a, ob):
        # a request WITHOUT the header never matches: the expected header value is never the empty string
        from pyvc.models_str import UTF8_ENCODE
        e = EXPECT(T(a["swissnum"]))
        ascii_ = z3.Star(z3.Range(chr(0), chr(127)))
        au = T(a["auth"])
        # 'Tahoe-LAFS ' + base64 is non-empty ASCII; UTF-8 encoding is the identity on ASCII text
        return [z3.Length(e) > 0, z3.InRe(e, ascii_), z3.Implies(z3.InRe(au, ascii_), UTF8_ENCODE(au) == au)]

    def canary(self, I, a, out):
        return [("canary", z3.BoolVal(out.post["events"] == []))]


KEYS = ["lease-renew-secret", "lease-cancel-secret", "upload-secret", "write-enabler", "bogus-key"]
DEC = z3.Function("b64decode", SS, SS)


class ExtractSecrets(Spec):
    file = F
    qualname = "_extract_secrets"
    level = "B"
    bound = "0..2 X-Tahoe-Authorization values, each '<key> <base64>' with key in the 4 known names or unknown, or a value without a space; required sets {}, {upload}, {renew,cancel}"
    cross_check = 0
    canary_case = {"hdrs": ("upload-secret",), "required": ("upload-secret",)}

    @property
    def raises(self):
        return (self.module().ClientSecretsException,)

    def inputs(self):
        return {"hdrs": ChoiceK([()]), "required": ChoiceK([()]), "v0": StrK(False), "v1": StrK(False), "d0": StrK(True), "d1": StrK(True),
                "decode_ok0": BoolK(), "decode_ok1": BoolK()}

    def all_cases(self):
        cs = []
        shapes = [()] + [(k,) for k in KEYS + ["nospace"]] + [(k1, k2) for k1 in KEYS[:3] for k2 in KEYS[:3]]
        for hs in shapes:
            for req in ((), ("upload-secret",), ("lease-renew-secret", "lease-cancel-secret")):
                cs.append({"hdrs": hs, "required": req})
        return cs

    def config(self):
        me = self
        import binascii

        def b64(I, args, kw):
            # which header is being decoded?
            t = T(args[0])
            i = 0 if t.eq(T(me._a["v0"])) else 1
            if not I.path.branch(me._a["decode_ok%d" % i]):
                raise PyRaise(SObj(binascii.Error, {"args": ()}))
            return me._a["d%d" % i]
        b64alpha = "ABCDEFGHIJKLMNOPQRSTUVWXYZabcdefghijklmnopqrstuvwxyz0123456789+/=!_-"
        return {"overrides": {"base64.b64decode": b64, "http_server.b64decode": b64}, "ascii_only_strings": True,
                "atoms": {"v0": (b64alpha, 1), "v1": (b64alpha, 1)}}

    def requires(self, I, a):
        alpha = z3.Plus(R_union("ABCDEFGHIJKLMNOPQRSTUVWXYZabcdefghijklmnopqrstuvwxyz0123456789+/=!_-"))
        return z3.And(z3.InRe(T(a["v0"]), alpha), z3.InRe(T(a["v1"]), alpha))

    def run(self, I, a):
        self._a = a
        S = self.module().Secrets
        hv = []
        for i, k in enumerate(a["hdrs"]):
            if k == "nospace":
                hv.append(a["v%d" % i])
            else:
                hv.append(SStr(z3.Concat(z3.StringVal(k + " "), T(a["v%d" % i])), False))
        req = set(S(k) for k in a["required"])
        return I.call_value(self.target(I), [hv, req], {})

    def ensures(self, I, a, out):
        S = self.module().Secrets
        if out.kind == "raise":
            return [("refused-with-ClientSecretsException", z3.BoolVal(out.exc_cls is self.module().ClientSecretsException))]
        res = out.value
        want = set(S(k) for k in a["required"])
        g = [("result-has-exactly-the-required-secrets", z3.BoolVal(set(res.keys()) == want))]
        for k, v in res.items():
            ln = z3.Length(T(v)) if not isinstance(v, bytes) else z3.IntVal(len(v))
            g.append(("secret-%s-is-non-empty" % k.value, ln > 0))
            if k in (S.LEASE_RENEW, S.LEASE_CANCEL):
                g.append(("lease-secret-%s-is-32-bytes" % k.value, ln == 32))
        return g

    def canary(self, I, a, out):
        return [("canary", z3.BoolVal(len(out.value) == 0))]


def R_union(chars):
    from pyvc import regex as R
    return R.union([R.lit_re(c) for c in chars])


class ValidateUploadSecret(Spec):
    file = F
    qualname = "UploadsInProgress.get_write_bucket"
    level = "B"
    bound = "an uploads table with 0..1 storage index holding 0..1 share"
    cross_check = 0
    canary_case = {"have_si": True, "have_share": True}

    @property
    def raises(self):
        return (self.module()._HTTPError,)

    def inputs(self):
        return {"have_si": ChoiceK([False, True]), "have_share": ChoiceK([False, True]), "stored": StrK(True), "presented": StrK(True)}

    def all_cases(self):
        return [{"have_si": a, "have_share": b} for a in (False, True) for b in (False, True) if a or not b]

    def run(self, I, a):
        mod = self.module()
        uploads = {}
        if a["have_si"]:
            siu = SObj(mod.StorageIndexUploads, {"shares": {}, "upload_secrets": {}})
            if a["have_share"]:
                siu.fields["shares"][3] = "THE-BUCKET"
                siu.fields["upload_secrets"][3] = a["stored"]
            uploads[b"si"] = siu
        up = SObj(mod.UploadsInProgress, {"_uploads": uploads, "_bucketwriters": {}})
        return I.call_value(self.target(I), [up, b"si", 3, a["presented"]], {})

    def ensures(self, I, a, out):
        same = T(a["stored"]) == T(a["presented"])
        if out.kind == "raise":
            code = out.exc.fields.get("code")
            if code == 401:
                return [("unauthorized-only-for-a-different-upload-secret", z3.And(z3.BoolVal(a["have_share"]), z3.Not(same)))]
            return [("not-found-only-when-no-such-upload", z3.BoolVal(code == 404 and not a["have_share"]))]
        return [("bucket-handed-out-only-with-its-own-upload-secret", z3.And(z3.BoolVal(a["have_share"] and out.value == "THE-BUCKET"), same))]

    def canary(self, I, a, out):
        return [("canary", z3.BoolVal(False))]


ROUTES = {
    # handler: (secrets, path, methods) -- the documented Great Black Swamp API
    "version": (set(), "/storage/v1/version", ["GET"]),
    "allocate_buckets": ({"LEASE_RENEW", "LEASE_CANCEL", "UPLOAD"}, "/storage/v1/immutable/<storage_index:storage_index>", ["POST"]),
    "abort_share_upload": ({"UPLOAD"}, "/storage/v1/immutable/<storage_index:storage_index>/<int(signed=False):share_number>/abort", ["PUT"]),
    "write_share_data": ({"UPLOAD"}, "/storage/v1/immutable/<storage_index:storage_index>/<int(signed=False):share_number>", ["PATCH"]),
    "list_shares": (set(), "/storage/v1/immutable/<storage_index:storage_index>/shares", ["GET"]),
    "read_share_chunk": (set(), "/storage/v1/immutable/<storage_index:storage_index>/<int(signed=False):share_number>", ["GET"]),
    "add_or_renew_lease": ({"LEASE_RENEW", "LEASE_CANCEL"}, "/storage/v1/lease/<storage_index:storage_index>", ["PUT"]),
    "advise_corrupt_share_immutable": (set(), "/storage/v1/immutable/<storage_index:storage_index>/<int(signed=False):share_number>/corrupt", ["POST"]),
    "mutable_read_test_write": ({"LEASE_RENEW", "LEASE_CANCEL", "WRITE_ENABLER"}, "/storage/v1/mutable/<storage_index:storage_index>/read-test-write", ["POST"]),
    "read_mutable_chunk": (set(), "/storage/v1/mutable/<storage_index:storage_index>/<int(signed=False):share_number>", ["GET"]),
    "enumerate_mutable_shares": (set(), "/storage/v1/mutable/<storage_index:storage_index>/shares", ["GET"]),
    "advise_corrupt_share_mutable": (set(), "/storage/v1/mutable/<storage_index:storage_index>/<int(signed=False):share_number>/corrupt", ["POST"]),
}


def uploads_table_failures():
    """native run-time contract on the real UploadsInProgress (built through its real, attrs-generated constructors):
    every history of up to 4 add/remove operations over two storage indexes x two share numbers; afterwards each
    (storage index, share, secret) is accepted exactly when that share has no upload in progress or the secret is its own"""
    import itertools
    from allmydata.storage import http_server as hs
    slots = [(b"A" * 16, 0), (b"A" * 16, 1), (b"B" * 16, 0), (b"B" * 16, 1)]
    ops = [("add", sl) for sl in slots] + [("remove", sl) for sl in slots]
    bad, n = [], 0
    for length in range(0, 5):
        for seq in itertools.product(ops, repeat=length):
            table = hs.UploadsInProgress()
            model, buckets = {}, {}
            okseq = True
            valid = True
            m_ = {}
            for (op, sl) in seq:        # only histories that add a free slot / remove an occupied one
                if (op == "add") == (sl in m_):
                    valid = False
                    break
                if op == "add":
                    m_[sl] = 1
                else:
                    del m_[sl]
            if not valid:
                continue
            try:
                crashed = None
                for (op, sl) in seq:
                    if op == "add":
                        b = object()
                        buckets[sl] = b
                        model[sl] = b"secret-%s-%d" % (sl[0][:1], sl[1])
                        table.add_write_bucket(sl[0], sl[1], model[sl], b)
                    else:
                        table.remove_write_bucket(buckets.pop(sl))
                        del model[sl]
            except Exception as e:       # noqa
                bad.append({"history": [(o, s_[0][:1].decode(), s_[1]) for (o, s_) in seq], "raised": "%s: %s" % (type(e).__name__, e)})
                n += 1
                continue
            for (op, sl) in ():
                if op == "add":
                    if sl in model:
                        okseq = False
                        break
                    b = object()
                    buckets[sl] = b
                    model[sl] = b"secret-%s-%d" % (sl[0][:1], sl[1])
                    table.add_write_bucket(sl[0], sl[1], model[sl], b)
                else:
                    if sl not in model:
                        okseq = False
                        break
                    table.remove_write_bucket(buckets.pop(sl))
                    del model[sl]
            if not okseq:
                continue
            n += 1
            for sl in slots:
                for other in slots:
                    secret = b"secret-%s-%d" % (other[0][:1], other[1])
                    try:
                        table.validate_upload_secret(sl[0], sl[1], secret)
                        accepted = True
                    except hs._HTTPError:
                        accepted = False
                    want = (sl not in model) or model[sl] == secret
                    if accepted != want:
                        bad.append({"history": [(o, s_[0][:1].decode(), s_[1]) for (o, s_) in seq], "upload": (sl[0][:1].decode(), sl[1]), "presented_secret_of": (other[0][:1].decode(), other[1]), "accepted": accepted})
                if sl in model:
                    try:
                        got = table.get_write_bucket(sl[0], sl[1], model[sl])
                    except hs._HTTPError:
                        got = None
                    if got is not buckets[sl]:
                        bad.append({"history": [(o, s_[0][:1].decode(), s_[1]) for (o, s_) in seq], "upload": (sl[0][:1].decode(), sl[1]), "own_secret_gives_own_bucket": False})
    return bad, n


def extra_checks(rep, tier):
    """structural (syntactic, not deductive): every route of HTTPServer goes through _authorized_route with the documented secrets"""
    from contracts import grid_http
    grid_http.grid_check(rep, tier, "C30")
    bad, n = uploads_table_failures()
    name = "UploadsTable:an-upload-accepts-its-own-secret-only-whatever-other-uploads-are-in-progress"
    rep.obligations += 1
    rep.bounded_obligations += 1
    rep.paths += n
    rep.sym_paths += n
    rep.bounds.append("uploads table: every valid history of <= 4 add/remove operations over 2 storage indexes x 2 share numbers (%d histories), all 16 (upload, presented secret) pairs each; real UploadsInProgress built by its real constructors" % n)
    if not bad:
        rep.discharged += 1
        rep.discharged_names.add(name)
    else:
        rep.violations.append({"property": "C30", "contract": "UploadsTable", "obligation": name, "status": "runtime", "inputs": bad[0],
                               "native_outcome": "%d wrong decisions over %d histories; first: %r" % (len(bad), n, bad[0]), "confirmed_on_real_code": True})
    import os
    from pyvc.harness import SRC
    tree, src = parse_file(os.path.join(SRC, F))
    cls = [n for n in tree.body if isinstance(n, ast.ClassDef) and n.name == "HTTPServer"][0]
    found, problems = {}, []
    for fn in cls.body:
        if not isinstance(fn, (ast.FunctionDef, ast.AsyncFunctionDef)):
            continue
        for d in fn.decorator_list:
            txt = ast.unparse(d)
            if "route" in txt and not txt.startswith("_authorized_route("):
                problems.append("%s is registered with %s instead of _authorized_route" % (fn.name, txt[:60]))
            if isinstance(d, ast.Call) and getattr(d.func, "id", "") == "_authorized_route":
                secrets = set()
                for n in ast.walk(d.args[1]):
                    if isinstance(n, ast.Attribute) and getattr(n.value, "id", "") == "Secrets":
                        secrets.add(n.attr)
                path = ast.literal_eval(d.args[2])
                methods = [ast.literal_eval(k.value) for k in d.keywords if k.arg == "methods"][0]
                found[fn.name] = (secrets, path, methods)
    for name, want in ROUTES.items():
        if name not in found:
            problems.append("documented route %s is not registered" % name)
        elif (found[name][0], found[name][1], sorted(found[name][2])) != (want[0], want[1], sorted(want[2])):
            problems.append("route %s registered as %r, documented %r" % (name, found[name], want))
    for name in found:
        if name not in ROUTES:
            problems.append("undocumented route %s %r" % (name, found[name]))
    rep.obligations += 1
    if not problems:
        rep.discharged += 1
        rep.discharged_names.add("structural:every-route-is-authorized-with-the-documented-secrets")
    else:
        rep.violations.append({"property": "C30", "contract": "structural", "obligation": "structural:every-route-is-authorized-with-the-documented-secrets",
                               "status": "structural", "inputs": {"problems": problems}, "native_outcome": "; ".join(problems)[:600], "confirmed_on_real_code": True})


def contracts(tier):
    # swissnum and upload-secret comparisons go through hashutil.timing_safe_compare: its callee contract is discharged here
    from contracts.tsc import TimingSafeCompare
    return [AuthRoute(), ExtractSecrets(), ValidateUploadSecret(), TimingSafeCompare()]
