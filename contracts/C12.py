"""C12 Concurrent writers are detected, never silently clobbered -- contracts on mutable/layout.py (SDMFSlotWriteProxy and
MDMFSlotWriteProxy: set_checkstring, finish_publishing, _write), with storage/server.py test-and-set (C24) and
mutable/publish.py surprise handling (C47) re-run"""
import z3
from pyvc.harness import Spec, IntK, BoolK, BlobK, BytesArrK, ChoiceK, Outcome
from pyvc.values import *  # noqa
from contracts.lib import *  # noqa
from contracts import C23, C24, C47

LEVEL = "other"
MANIFEST_ENTRY = {
    "text": "The per-request half of the property, as three linked contracts. (1) Client write proxies: every write request an SDMFSlotWriteProxy or MDMFSlotWriteProxy sends carries, for its share, a test vector that pins the share's leading bytes to the checkstring recorded by set_checkstring (built from the sequence number, root hash and salt of the version the publisher surveyed), or -- when no version was surveyed -- the vector (0, 1, b'') that only an absent/empty share satisfies; the MDMF proxy switches to its own new checkstring only after a write that the server reported as successful, never after a failed one. (2) Server: a test vector matches exactly when the share bytes at (offset, length) equal the specimen -- so (0, 1, b'') matches only an empty share (MutableShareFile.check_testv, contract of C23, re-run here) -- and slot_testv_and_readv_and_writev applies the writes only if every test vector matches, atomically per request, and otherwise changes nothing and reports the current contents (contract of C24, re-run here). (3) Publisher: a refused test vector, or a share of another version that this publisher is not itself writing to that very server, sets `surprised`, which is never reset, and a surprised publish ends in UncoordinatedWriteError (contracts of C47, re-run here).",
    "note": "NOT decided: the second sentence of the property -- that in every interleaving with (writers+1)*k <= N some version stays recoverable -- quantifies over schedules of several clients and is outside function contracts; so is the wiring in Publish.publish/update that passes the servermap's version to set_checkstring. Hence level 'other'.",
    "technique": "contract-based deductive verification (pyvc VCs + z3, uninterpreted big-endian codec) of the request-building functions; server and publisher contracts shared with C24/C47",
}
MANIFEST_ENTRY["text"] += ' Bounded end-to-end stand-in (run-time contract, never counted as proved): contracts/grid_mutable.py publishes 1..4 versions (plus a competing one) of SDMF/MDMF files on real StorageServers, composes the final disk state slot by slot from snapshots (newest/older/competing/deleted/bit-flipped/truncated/foreign), and checks reads, the MODE_READ survey, check/verify, repair with and without force, overwrite with failing servers and two concurrent writers against the ground truth on disk.'
MANIFEST_ENTRY["technique"] += "; plus bounded end-to-end run-time scenario contracts on an in-process grid of the real components (stand-in, labelled bounded)"
EXPLANATION = "Each write is a test-and-set against the surveyed version; a failed test is reported as an uncoordinated write."
TRUSTED = ["struct big-endian codec"]
ASSUMPTIONS = []
NOT_DECIDED = "multi-client interleavings and recoverability; Publish.publish/update wiring of set_checkstring."
LF = "allmydata/mutable/layout.py"


def mk_server(calls):
    from pyvc.models_tahoe import DStub

    def slot(I, a, kw):
        d = DStub("pending")
        calls.append((tuple(a), d))
        return d
    return stub("storage_server", slot_testv_and_readv_and_writev=slot)


class SDMFWrite(Spec):
    file = LF
    qualname = "SDMFSlotWriteProxy.finish_publishing"
    cross_check = 0
    raises = ()
    canary_case = {"surveyed": "fields"}

    def inputs(self):
        return {"surveyed": ChoiceK(["none", "fields", "literal"]), "seqnum": IntK(0, 2 ** 64 - 1), "root": BytesArrK(fixed=32), "salt": BytesArrK(fixed=16), "literal": BytesArrK(minlen=1, maxlen=57)}

    def all_cases(self):
        return [{"surveyed": s} for s in ("none", "fields", "literal")]

    def run(self, I, a):
        M = self.module()
        self._calls = []
        pieces = {k: b"x" for k in ("sharedata", "encprivkey", "signature", "verification_key", "share_hash_chain", "block_hash_tree")}
        w = SObj(M.SDMFSlotWriteProxy, {"shnum": 4, "_storage_server": mk_server(self._calls), "_storage_index": b"s" * 16, "_secrets": ("we", "rs", "cs"), "_share_pieces": pieces,
                                       "_testvs": [], "_readvs": [(0, 57)]})
        w.fields["_pack_offsets"] = stub("x", f=lambda I_, a_, k_: b"OFFSETS").fields["f"]
        w.fields["get_signable"] = stub("x", f=lambda I_, a_, k_: b"PREFIX").fields["f"]
        if a["surveyed"] == "fields":
            I.call_value(I.get_attr(w, "set_checkstring"), [a["seqnum"], a["root"], a["salt"]], {})
        elif a["surveyed"] == "literal":
            I.call_value(I.get_attr(w, "set_checkstring"), [a["literal"]], {})
        I.call_value(self.target(I), [w], {})
        return w

    def ensures(self, I, a, out):
        from pyvc.models_ext import unwrap_key
        g = [("exactly-one-request", z3.BoolVal(len(self._calls) == 1))]
        if len(self._calls) != 1:
            return g
        (si, secrets, twv, readv), d = self._calls[0]
        twv = {unwrap_key(k): v for k, v in twv.items()}
        ok = list(twv.keys()) == [4] and len(twv[4][0]) == 1 and len(twv[4][1]) == 1
        g.append(("the-request-tests-and-writes-only-this-share", z3.BoolVal(ok and twv[4][2] is None)))
        if not ok:
            return g
        off, ln, spec = twv[4][0][0][:3]
        if a["surveyed"] == "none":
            g.append(("without-a-surveyed-version-only-an-absent-share-may-be-written", z3.BoolVal((off, ln, spec) == (0, 1, b""))))
        elif a["surveyed"] == "literal":
            g.append(("the-test-vector-pins-the-share-to-the-given-checkstring", z3.And(z3.BoolVal(off == 0), Z(ln) == Z(as_sbytes(a["literal"]).length), sb_eq(as_sbytes(spec), as_sbytes(a["literal"])))))
        else:
            s = as_sbytes(spec)
            g += [("the-test-vector-covers-the-whole-checkstring-from-offset-0", z3.And(z3.BoolVal(off == 0), Z(ln) == 57, Z(s.length) == 57)),
                  ("checkstring-is-version-0-seqnum-roothash-salt-of-the-surveyed-version",
                   z3.And(s.at(0) == 0, be(s.base_arr(), 1, 8) == Z(a["seqnum"]), forall_range(0, 32, lambda i: s.at(9 + i) == as_sbytes(a["root"]).at(i)), forall_range(0, 16, lambda i: s.at(41 + i) == as_sbytes(a["salt"]).at(i))))]
        g.append(("the-whole-share-is-written-at-offset-0", z3.BoolVal(twv[4][1][0][0] == 0)))
        return g

    def canary(self, I, a, out):
        return [("canary", z3.BoolVal(not self._calls))]


class MDMFWrite(Spec):
    file = LF
    qualname = "MDMFSlotWriteProxy._write"
    cross_check = 0
    raises = ()
    canary_case = {"surveyed": "fields", "first_ok": True}

    def inputs(self):
        return {"surveyed": ChoiceK(["none", "fields"]), "first_ok": ChoiceK([False, True]), "seqnum": IntK(0, 2 ** 64 - 1), "root": BytesArrK(fixed=32), "myseq": IntK(0, 2 ** 64 - 1)}

    def all_cases(self):
        return [{"surveyed": s, "first_ok": f} for s in ("none", "fields") for f in (False, True)]

    def run(self, I, a):
        M = self.module()
        self._calls = []
        w = SObj(M.MDMFSlotWriteProxy, {"shnum": 2, "_storage_server": mk_server(self._calls), "_storage_index": b"s" * 16, "_secrets": ("we", "rs", "cs"), "_testvs": [], "_written": False,
                                       "_readv": [(0, 4)], "_root_hash": None, "_seqnum": a["myseq"]})
        if a["surveyed"] == "fields":
            I.call_value(I.get_attr(w, "set_checkstring"), [a["seqnum"], a["root"]], {})
        d1 = I.call_value(self.target(I), [w, [(100, b"data1")]], {})
        t1 = list(self._calls[0][0][2][2][0]) if self._calls else None
        fire_chain(I, self._calls[0][1], (a["first_ok"], {}))
        d2 = I.call_value(self.target(I), [w, [(200, b"data2")]], {})
        out = Outcome("return", w)
        out.post = {"t1": t1}
        return out

    def ensures(self, I, a, out):
        from pyvc.models_ext import unwrap_key
        g = [("two-requests", z3.BoolVal(len(self._calls) == 2))]
        if len(self._calls) != 2:
            return g
        tvs = []
        for (si, secrets, twv, readv), d in self._calls:
            twv = {unwrap_key(k): v for k, v in twv.items()}
            tvs.append(twv[2][0] if list(twv.keys()) == [2] else None)
        t1 = out.post["t1"]
        if a["surveyed"] == "none":
            g.append(("without-a-surveyed-version-only-an-absent-share-may-be-written", z3.BoolVal(t1 == [(0, 1, b"")])))
        else:
            ok = t1 is not None and len(t1) == 1 and t1[0][0] == 0
            s = as_sbytes(t1[0][2]) if ok else None
            g.append(("first-write-tests-for-the-surveyed-version", z3.And(z3.BoolVal(ok), Z(t1[0][1]) == 41, s.at(0) == 1, be(s.base_arr(), 1, 8) == Z(a["seqnum"]),
                                                                        forall_range(0, 32, lambda i: s.at(9 + i) == as_sbytes(a["root"]).at(i))) if ok else z3.BoolVal(False)))
        t2 = tvs[1]
        if a["first_ok"]:
            ok2 = t2 is not None and len(t2) == 1 and t2[0][0] == 0
            s2 = as_sbytes(t2[0][2]) if ok2 else None
            g.append(("after-an-accepted-write-later-writes-test-for-our-own-version", z3.And(z3.BoolVal(ok2), s2.at(0) == 1, be(s2.base_arr(), 1, 8) == Z(a["myseq"])) if ok2 else z3.BoolVal(False)))
        else:
            g.append(("after-a-refused-write-the-test-vector-is-unchanged", z3.BoolVal(t2 is not None and t1 is not None and len(t2) == len(t1) and all(x[0] == y[0] and x[1] is y[1] or x == y for x, y in zip(t2, t1)))))
        return g

    def canary(self, I, a, out):
        return [("canary", z3.BoolVal(len(self._calls) < 2))]


def extra_checks(rep, tier):
    from contracts import grid_mutable
    grid_mutable.grid_check(rep, tier, "C12")


def contracts(tier):
    return [SDMFWrite(), MDMFWrite(), C23.CheckTestV(), C24.SlotTestvReadvWritev(), C47.GotWriteAnswer(), C47.Failure_(), C47.Push()]
