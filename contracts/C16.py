"""C16 Capabilities attenuate correctly -- contracts on uri.py (get_readonly/get_verify_cap/is_*; from_string gating)"""
import z3
from pyvc.harness import Spec, Lemma, StrK, ChoiceK, BoolK, Outcome
from pyvc.interp import ModelFn
from pyvc.values import *  # noqa
from contracts.lib import *  # noqa
from contracts.C17 import tagged, zs, SINGLE, hash_len_facts, U, T

LEVEL = "other"
MANIFEST_ENTRY = {
    "text": "For all key/fingerprint values: every cap class's get_readonly/get_verify_cap return the documented weaker class with the same fingerprint and the storage index of the chain (write key -> read key -> storage index), carry no stronger secret as a field, and report is_readonly/is_mutable as documented; uri.from_string never returns a writeable class for an 'ro.'/'imm.'/deep-immutable input nor a mutable class for an 'imm.'/deep-immutable input, and wraps such caps in UnknownURI with the matching error -- for every one of the 18 prefixes and every tail string.",
    "note": "Level other because the NodeMaker cache contract enumerates cache shapes (exhaustively over 4 possible entries). SHA-256 uninterpreted (equality of hash inputs). Per-class init_from_string is abstracted in the from_string dispatch contract (its own contract is C15). NodeMaker.create_from_cap is under contract with an arbitrary cache satisfying the cache invariant (so histories reduce to one call); UnknownNode bookkeeping is not under contract.",
}
EXPLANATION = "Symbolic execution of the real attenuation methods and of uri.from_string with symbolic tails."
TRUSTED = ["hashlib.sha256 uninterpreted"]
ASSUMPTIONS = []
NOT_DECIDED = "unknown.UnknownNode prefix bookkeeping and nodemaker.NodeMaker.create_from_cap caching."
F = "allmydata/uri.py"

# documented table: class -> (is_readonly, is_mutable, class of get_readonly(), class of get_verify_cap())
FILE_TABLE = {
    "CHKFileURI": (True, False, "self", "CHKFileVerifierURI"),
    "CHKFileVerifierURI": (True, False, "self", "self"),
    "LiteralFileURI": (True, False, "self", None),
    "WriteableSSKFileURI": (False, True, "ReadonlySSKFileURI", "SSKVerifierURI"),
    "ReadonlySSKFileURI": (True, True, "self", "SSKVerifierURI"),
    "SSKVerifierURI": (True, False, "self", "self"),
    "WriteableMDMFFileURI": (False, True, "ReadonlyMDMFFileURI", "MDMFVerifierURI"),
    "ReadonlyMDMFFileURI": (True, True, "self", "MDMFVerifierURI"),
    "MDMFVerifierURI": (True, False, "self", "self"),
}
DIR_TABLE = {
    # class: (inner, is_readonly, is_mutable, readonly class, verify class)
    "DirectoryURI": ("WriteableSSKFileURI", False, True, "ReadonlyDirectoryURI", "DirectoryURIVerifier"),
    "ReadonlyDirectoryURI": ("ReadonlySSKFileURI", True, True, "self", "DirectoryURIVerifier"),
    "ImmutableDirectoryURI": ("CHKFileURI", True, False, "self", "ImmutableDirectoryURIVerifier"),
    "LiteralDirectoryURI": ("LiteralFileURI", True, False, "self", None),
    "MDMFDirectoryURI": ("WriteableMDMFFileURI", False, True, "ReadonlyMDMFDirectoryURI", "MDMFDirectoryURIVerifier"),
    "ReadonlyMDMFDirectoryURI": ("ReadonlyMDMFFileURI", True, True, "self", "MDMFDirectoryURIVerifier"),
}
SECRETS = {"WriteableSSKFileURI": ["writekey", "readkey"], "WriteableMDMFFileURI": ["writekey", "readkey"],
           "ReadonlySSKFileURI": ["readkey"], "ReadonlyMDMFFileURI": ["readkey"], "CHKFileURI": ["key"], "LiteralFileURI": ["data"]}
RK_TAG, SI_TAG, CHK_TAG = SINGLE["ssk_readkey_hash"][0], SINGLE["ssk_storage_index_hash"][0], SINGLE["storage_index_hash"][0]


def build(I, mod, cls_name, a):
    cls = getattr(mod, cls_name)
    if cls_name in ("CHKFileURI", "CHKFileVerifierURI"):
        return I.call_value(cls, [a["x"], a["y"], 3, 10, 1000], {})
    if cls_name == "LiteralFileURI":
        return I.call_value(cls, [a["x"]], {})
    return I.call_value(cls, [a["x"], a["y"]], {})


class Attenuate(Spec):
    file = F
    cross_check = 0

    def __init__(self, cls):
        self.cls_name = cls

    @property
    def name(self):
        return "Attenuate[%s]" % self.cls_name

    @property
    def qualname(self):
        return self.cls_name

    def inputs(self):
        return {"x": StrK(True), "y": StrK(True)}

    def requires(self, I, a):
        if I is None:
            return True
        cs = [hash_len_facts()]
        if "Verifier" in self.cls_name:
            cs.append(z3.Length(T(a["x"])) == 16)     # a verify cap is built from a 16-byte storage index
        return z3.And(cs)

    def run(self, I, a):
        mod = self.module()
        inner_name = DIR_TABLE[self.cls_name][0] if self.cls_name in DIR_TABLE else None
        if inner_name:
            inner = build(I, mod, inner_name, a)
            u = I.call_value(getattr(mod, self.cls_name), [inner], {})
        else:
            u = build(I, mod, self.cls_name, a)
        out = Outcome("return", None)
        out.post = {"u": u, "ro": I.call_value(I.get_attr(u, "get_readonly"), [], {}), "v": I.call_value(I.get_attr(u, "get_verify_cap"), [], {}),
                    "is_ro": I.call_value(I.get_attr(u, "is_readonly"), [], {}), "is_mut": I.call_value(I.get_attr(u, "is_mutable"), [], {})}
        return out

    def file_checks(self, name, u, ro, v, a):
        """obligations for a file cap u of class `name`"""
        isro, ismut, rocls, vcls = FILE_TABLE[name]
        g = []
        g.append(("readonly-cap-has-documented-class", z3.BoolVal((ro is u) if rocls == "self" else (isinstance(ro, SObj) and ro.cls.__name__ == rocls))))
        g.append(("verify-cap-has-documented-class", z3.BoolVal((v is None) if vcls is None else ((v is u) if vcls == "self" else (isinstance(v, SObj) and v.cls.__name__ == vcls)))))
        x = T(a["x"])
        if name.startswith("Writeable"):
            rk = tagged(zs(RK_TAG), x, 16)
            si = tagged(zs(SI_TAG), rk, 16)
            g += [("readcap-readkey-is-hash-of-writekey", T(ro.fields["readkey"]) == U(rk)),
                  ("same-storage-index-along-the-chain", z3.And(T(u.fields["storage_index"]) == U(si), T(ro.fields["storage_index"]) == U(si), T(v.fields["storage_index"]) == U(si))),
                  ("same-fingerprint-along-the-chain", z3.And(T(ro.fields["fingerprint"]) == T(a["y"]), T(v.fields["fingerprint"]) == T(a["y"]))),
                  ("readcap-carries-no-writekey", z3.BoolVal("writekey" not in ro.fields)),
                  ("verifycap-carries-no-key", z3.BoolVal(not ({"writekey", "readkey", "key"} & set(v.fields))))]
        elif name.startswith("Readonly"):
            si = tagged(zs(SI_TAG), x, 16)
            g += [("same-storage-index-along-the-chain", z3.And(T(u.fields["storage_index"]) == U(si), T(v.fields["storage_index"]) == U(si))),
                  ("same-fingerprint-along-the-chain", T(v.fields["fingerprint"]) == T(a["y"])),
                  ("verifycap-carries-no-key", z3.BoolVal(not ({"writekey", "readkey", "key"} & set(v.fields))))]
        elif name == "CHKFileURI":
            si = tagged(zs(CHK_TAG), x, 16)
            g += [("same-storage-index-along-the-chain", z3.And(T(u.fields["storage_index"]) == U(si), T(v.fields["storage_index"]) == U(si))),
                  ("same-UEB-hash-and-parameters", z3.And(T(v.fields["uri_extension_hash"]) == T(a["y"]), z3.BoolVal((v.fields["needed_shares"], v.fields["total_shares"], v.fields["size"]) == (3, 10, 1000)))),
                  ("verifycap-carries-no-key", z3.BoolVal(not ({"writekey", "readkey", "key"} & set(v.fields))))]
        return g

    def ensures(self, I, a, out):
        p = out.post
        u, ro, v = p["u"], p["ro"], p["v"]
        if self.cls_name in FILE_TABLE:
            isro, ismut = FILE_TABLE[self.cls_name][:2]
            return [("is_readonly-as-documented", z3.BoolVal(p["is_ro"] is isro)), ("is_mutable-as-documented", z3.BoolVal(p["is_mut"] is ismut))] \
                + self.file_checks(self.cls_name, u, ro, v, a)
        inner_name, isro, ismut, rocls, vcls = DIR_TABLE[self.cls_name]
        g = [("is_readonly-as-documented", z3.BoolVal(p["is_ro"] is isro)), ("is_mutable-as-documented", z3.BoolVal(p["is_mut"] is ismut)),
             ("readonly-dircap-has-documented-class", z3.BoolVal((ro is u) if rocls == "self" else (isinstance(ro, SObj) and ro.cls.__name__ == rocls))),
             ("verify-dircap-has-documented-class", z3.BoolVal((v is None) if vcls is None else (isinstance(v, SObj) and v.cls.__name__ == vcls)))]
        inner = u.fields["_filenode_uri"]
        iro = ro.fields["_filenode_uri"] if isinstance(ro, SObj) else None
        iv = v.fields["_filenode_uri"] if isinstance(v, SObj) else None
        g += [("dir-" + n, f) for n, f in self.file_checks(inner_name, inner, inner if rocls == "self" else iro, iv, a)]
        return g

    def canary(self, I, a, out):
        return [("canary", z3.BoolVal(out.post["is_ro"] is True and out.post["is_mut"] is True and out.post["v"] is None))]


BASES = None


def all_bases():
    import allmydata.uri as Umod
    names = list(FILE_TABLE) + list(DIR_TABLE) + ["DirectoryURIVerifier", "ImmutableDirectoryURIVerifier", "MDMFDirectoryURIVerifier"]
    return {n: getattr(Umod, n).BASE_STRING for n in names}


WRITEABLE = {"WriteableSSKFileURI", "WriteableMDMFFileURI", "DirectoryURI", "MDMFDirectoryURI"}
MUTABLE_RO = {"ReadonlySSKFileURI", "ReadonlyMDMFFileURI", "ReadonlyDirectoryURI", "ReadonlyMDMFDirectoryURI"}


class FromString(Spec):
    """uri.from_string(prefix + BASE + tail, deep_immutable): result class has that BASE; alleged-read-only / alleged-immutable
    / deep-immutable inputs never yield a writeable (resp. mutable) class but UnknownURI with the matching error."""
    file = F
    qualname = "from_string"
    cross_check = 0
    canary_case = {"base": "WriteableSSKFileURI", "prefix": b"", "deep": False, "parse_ok": True}

    def inputs(self):
        return {"tail": StrK(True), "base": ChoiceK(list(all_bases()) + ["x-other"]), "prefix": ChoiceK([b"", b"ro.", b"imm."]),
                "deep": ChoiceK([False, True]), "parse_ok": ChoiceK([True, False])}

    def all_cases(self):
        return [{"base": b, "prefix": p, "deep": d, "parse_ok": ok} for b in list(all_bases()) + ["x-other"]
                for p in (b"", b"ro.", b"imm.") for d in (False, True) for ok in (True, False)]

    def config(self):
        me = self
        ov = {}
        for n in all_bases():
            def mk(n):
                def h(I, args, kw):
                    me._parsed.append((n, args[-1]))
                    if not me._a["parse_ok"]:
                        from allmydata.uri import BadURIError
                        raise PyRaise(SObj(BadURIError, {"args": ()}))
                    import allmydata.uri as Umod
                    return SObj(getattr(Umod, n), {})
                return h
            ov["%s.init_from_string" % n] = mk(n)

        def dirbase(I, args, kw):
            return ov["%s.init_from_string" % args[0].__name__](I, args, kw)
        ov["_DirectoryBaseURI.init_from_string"] = dirbase
        return {"overrides": ov}

    def subject(self, a):
        base = all_bases().get(a["base"], b"x-tahoe-other:")
        return SStr(z3.Concat(zstr(a["prefix"] + base), T(a["tail"])), True)

    def run(self, I, a):
        self._a, self._parsed = a, []
        r = I.call_value(self.target(I), [self.subject(a), a["deep"], "name"], {})
        out = Outcome("return", r)
        out.post = {"parsed": list(self._parsed)}
        return out

    def ensures(self, I, a, out):
        r = out.value
        cls = r.cls.__name__
        can_w = (a["prefix"] == b"") and not a["deep"]
        can_m = (a["prefix"] != b"imm.") and not a["deep"]
        g = [("writeable-class-only-without-ro/imm/deep-immutable", z3.BoolVal(cls not in WRITEABLE or can_w)),
             ("mutable-class-only-without-imm/deep-immutable", z3.BoolVal(cls not in (WRITEABLE | MUTABLE_RO) or can_m)),
             ("result-class-matches-the-prefix-of-the-string", z3.BoolVal(cls == "UnknownURI" or cls == a["base"])),
             ("parser-sees-the-string-without-the-alleged-prefix", z3.BoolVal(all(n == a["base"] for n, s in out.post["parsed"])))]
        if out.post["parsed"]:
            base = all_bases()[a["base"]]
            g.append(("parser-input-is-BASE-plus-tail", T(out.post["parsed"][0][1]) == z3.Concat(zstr(base), T(a["tail"]))))
        if cls == "UnknownURI":
            g.append(("unknown-cap-keeps-the-original-string", T(r.fields["_uri"]) == T(self.subject(a))))
            err = r.fields.get("_error")
            known = a["base"] != "x-other"
            blocked = known and ((a["base"] in WRITEABLE and not can_w) or (a["base"] in MUTABLE_RO and not can_m))
            if blocked:
                from allmydata.interfaces import MustBeDeepImmutableError, MustBeReadonlyError
                want = MustBeDeepImmutableError if not can_m else MustBeReadonlyError
                g.append(("blocked-cap-reports-the-matching-constraint-error", z3.BoolVal(isinstance(err, SObj) and err.cls is want)))
            elif known and a["parse_ok"]:
                g.append(("well-formed-permitted-cap-is-not-unknown", z3.BoolVal(False)))
        return g

    def canary(self, I, a, out):
        return [("canary", z3.BoolVal(out.value.cls.__name__ == "UnknownURI"))]


class NodeCache(Spec):
    """NodeMaker.create_from_cap with an arbitrary (representation-invariant respecting) node cache: the node returned
    is the one a cold cache would build for THIS (cap, deep_immutable) -- a node cached for the same cap string in
    another context, or for another cap, is never handed out."""
    file = "allmydata/nodemaker.py"
    qualname = "NodeMaker.create_from_cap"
    level = "B"
    bound = "cache holding any subset of the four entries {M,I}+writecap, {M,I}+readcap (exhaustive over the subsets); cap strings symbolic"
    cross_check = 0
    canary_case = {"deep": True, "have_w": True, "have_r": False, "pre": (True, False, False, False)}

    def inputs(self):
        return {"w": StrK(True), "r": StrK(True), "deep": ChoiceK([False, True]), "have_w": ChoiceK([False, True]), "have_r": ChoiceK([False, True]),
                "pre": ChoiceK([()])}

    def all_cases(self):
        import itertools
        cs = []
        for deep in (False, True):
            for hw, hr in ((True, True), (True, False), (False, True)):
                for pre in itertools.product((False, True), repeat=4):
                    cs.append({"deep": deep, "have_w": hw, "have_r": hr, "pre": pre})
        return cs

    def requires(self, I, a):
        return z3.And(z3.Length(T(a["w"])) > 0, z3.Length(T(a["r"])) > 0, T(a["w"]) != T(a["r"]))

    def config(self):
        me = self

        def from_string(I, args, kw):
            cap, deep = args[0], kw.get("deep_immutable", args[1] if len(args) > 1 else False)
            return stub("cap", tag=("cold", cap, bool(deep)))

        def create(I, args, kw):
            capobj = args[-1]
            n = stub("node", is_mutable=lambda I_, a_, k_: True, get_storage_index=lambda I_, a_, k_: b"si")
            n.fields["tag"] = capobj.fields["tag"]
            return n
        return {"overrides": {"uri.from_string": from_string, "NodeMaker._create_from_single_cap": create}}

    def run(self, I, a):
        w, r = a["w"], a["r"]
        cache = {}
        from pyvc import models_ext as E
        keys = [(b"M", w), (b"I", w), (b"M", r), (b"I", r)]
        for on, (ctx, cap) in zip(a["pre"], keys):
            if on:
                n = stub("cached", is_mutable=lambda I_, a_, k_: True, get_storage_index=lambda I_, a_, k_: b"si")
                n.fields["tag"] = ("cold", cap, ctx == b"I")          # invariant: what a cold build for that key's context gives
                E.dict_set(I, cache, SStr(z3.Concat(zstr(ctx), T(cap)), True), n)
        nm = SObj(self.module().NodeMaker, {"_node_cache": cache, "blacklist": None})
        node = I.call_value(self.target(I), [nm, w if a["have_w"] else None, r if a["have_r"] else None, a["deep"], "name"], {})
        out = Outcome("return", node)
        return out

    def ensures(self, I, a, out):
        tag = out.value.fields["tag"]
        big = a["w"] if a["have_w"] else a["r"]
        return [("node-is-the-one-for-this-cap", T(tag[1]) == T(big)),
                ("node-was-built-for-this-immutability-context", z3.BoolVal(tag[2] is a["deep"]))]

    def canary(self, I, a, out):
        return [("canary", z3.BoolVal(out.value.fields["tag"][2] is False))]


def contracts(tier):
    return [Attenuate(k) for k in list(FILE_TABLE) + list(DIR_TABLE)] + [FromString(), NodeCache()]
