"""C17 Key and secret derivations match the specification -- contracts on hashutil and its callers"""
import z3
from pyvc.harness import Spec, StrK, Outcome
from pyvc.interp import ModelFn
from pyvc.values import *  # noqa
from pyvc.models_tahoe import hash_fn
from contracts.lib import *  # noqa

LEVEL = "proof"
MANIFEST_ENTRY = {
    "text": "Unbounded proof, for all byte-string inputs, that every tagged derivation in hashutil and every chain built on it (client/file/bucket lease secrets, write enabler, mutable key chain in the cap constructors, SecretHolder, MutableFileNode secrets) computes exactly SHA256d(netstring(TAG) + body)[:L] with the tags, argument order and truncation of the deployed format. Additionally, with the list shape bounded to 2 candidate servers (labelled bounded, level-B obligations): Tahoe2ServerSelector._create_trackers creates every upload ServerTracker with the bucket renewal/cancel derivations of the file renewal/cancel secrets and the lease seed of that same server. ServerTracker.query (unbounded, all byte strings) sends exactly those secrets, renewal before cancel, with the tracker's storage index and allocated size in its allocate_buckets request.",
    "note": "SHA-256 is an uninterpreted function, so the proof is equality of the hash INPUT and truncation for all inputs; the tag constants in the contract are the deployed format's (the source comments call any change a compatibility break). RSA DER serialisation and AES are opaque.",
}
EXPLANATION = "Each real function is executed symbolically and its result compared with an independently written specification term."
TRUSTED = ["hashlib.sha256 as an uninterpreted function String->String with 32-byte output; update() concatenates"]
ASSUMPTIONS = []
NOT_DECIDED = "the two file_*_secret_hash calls at the top of Tahoe2ServerSelector.get_shareholders (an inlineCallbacks generator; the hash functions themselves and _create_trackers, which consumes their results, are under contract)."

SHA = hash_fn("sha256")


def zs(b):
    return zstr(b)


class KL(object):
    """spec term with a known length (digests)"""
    def __init__(self, t, n):
        self.t, self.n = t, n


def U(t):
    return t.t if isinstance(t, KL) else t


def NS(t):
    if isinstance(t, KL):
        return z3.Concat(z3.StringVal("%d:" % t.n), t.t, z3.StringVal(","))
    if z3.is_string_value(t):
        return z3.Concat(z3.StringVal("%d:" % len(t.as_string())), t, z3.StringVal(","))
    return z3.Concat(z3.IntToStr(z3.Length(t)), z3.StringVal(":"), t, z3.StringVal(","))


def D(x, L=32):
    return KL(z3.SubString(SHA(SHA(x)), 0, L), L)


def T(v):
    return as_sstr(v).term


def tagged(tag, val, L=32):
    return D(z3.Concat(NS(tag), U(val)), L)


def pair(tag, v1, v2, L=32):
    return D(z3.Concat(NS(tag), NS(v1), NS(v2)), L)


def hash_len_facts():
    x = z3.String("hx")
    return z3.ForAll([x], z3.Length(SHA(x)) == 32)


SINGLE = {
    "storage_index_hash": (b"allmydata_immutable_key_to_storage_index_v1", 16),
    "block_hash": (b"allmydata_encoded_subshare_v1", 32),
    "uri_extension_hash": (b"allmydata_uri_extension_v1", 32),
    "plaintext_hash": (b"allmydata_plaintext_v1", 32),
    "crypttext_hash": (b"allmydata_crypttext_v1", 32),
    "crypttext_segment_hash": (b"allmydata_crypttext_segment_v1", 32),
    "plaintext_segment_hash": (b"allmydata_plaintext_segment_v1", 32),
    "ssk_writekey_hash": (b"allmydata_mutable_privkey_to_writekey_v1", 16),
    "ssk_write_enabler_master_hash": (b"allmydata_mutable_writekey_to_write_enabler_master_v1", 32),
    "ssk_pubkey_fingerprint_hash": (b"allmydata_mutable_pubkey_to_fingerprint_v1", 32),
    "ssk_readkey_hash": (b"allmydata_mutable_writekey_to_readkey_v1", 16),
    "ssk_storage_index_hash": (b"allmydata_mutable_readkey_to_storage_index_v1", 16),
    "mutable_rwcap_salt_hash": (b"allmydata_dirnode_child_rwcap_to_salt_v1", 16),
}
# historical order: the SECRET is the tag and the constant is the value (part of the deployed format)
SECRET_AS_TAG = {
    "my_renewal_secret_hash": b"allmydata_client_renewal_secret_v1",
    "my_cancel_secret_hash": b"allmydata_client_cancel_secret_v1",
}
PAIR = {
    "file_renewal_secret_hash": (b"allmydata_file_renewal_secret_v1", 32, False),
    "file_cancel_secret_hash": (b"allmydata_file_cancel_secret_v1", 32, False),
    "bucket_renewal_secret_hash": (b"allmydata_bucket_renewal_secret_v1", 32, True),
    "bucket_cancel_secret_hash": (b"allmydata_bucket_cancel_secret_v1", 32, True),
    "mutable_rwcap_key_hash": (b"allmydata_mutable_writekey_and_salt_to_dirnode_child_capkey_v1", 16, False),
    "ssk_readkey_data_hash": (b"allmydata_mutable_readkey_to_datakey_v1", 16, False),
}
WEM_TAG = b"allmydata_mutable_writekey_to_write_enabler_master_v1"
WE_TAG = b"allmydata_mutable_write_enabler_master_and_nodeid_to_write_enabler_v1"


def spec_my_renewal(secret):
    return tagged(secret, zs(SECRET_AS_TAG["my_renewal_secret_hash"]))


def spec_my_cancel(secret):
    return tagged(secret, zs(SECRET_AS_TAG["my_cancel_secret_hash"]))


def spec_bucket_renewal(secret, si, seed):
    return pair(zs(PAIR["bucket_renewal_secret_hash"][0]), pair(zs(PAIR["file_renewal_secret_hash"][0]), spec_my_renewal(secret), si), seed)


def spec_bucket_cancel(secret, si, seed):
    return pair(zs(PAIR["bucket_cancel_secret_hash"][0]), pair(zs(PAIR["file_cancel_secret_hash"][0]), spec_my_cancel(secret), si), seed)


def spec_write_enabler(writekey, seed):
    return pair(zs(WE_TAG), tagged(zs(WEM_TAG), writekey), seed)


class _Hash(Spec):
    file = "allmydata/util/hashutil.py"
    cross_check = 6
    fn = None
    nargs = 1

    def __init__(self, fn=None):
        if fn:
            self.fn = fn

    @property
    def name(self):
        return "%s[%s]" % (type(self).__name__, self.fn)

    @property
    def qualname(self):
        return self.fn

    def inputs(self):
        return {"a%d" % i: StrK(True, rndmax=24) for i in range(self.nargs)}

    def requires(self, I, a):
        return hash_len_facts() if I is not None else True

    def run(self, I, a):
        return I.call_value(self.target(I), [a["a%d" % i] for i in range(self.nargs)], {})

    def native(self, a):
        import allmydata.util.hashutil as hu
        return native_outcome(lambda: getattr(hu, self.fn)(*[a["a%d" % i] for i in range(self.nargs)]))

    def reference(self, a):
        """independent reference implementation (hashlib only) for native evaluation"""
        raise NotImplementedError

    def spec_term(self, a):
        raise NotImplementedError

    def ensures(self, I, a, out):
        if I is None:   # native: compare with the independent hashlib reference
            return [("equals-specified-derivation", z3.BoolVal(out.value == self.reference(a)))]
        return [("equals-specified-derivation", T(out.value) == U(self.spec_term(a)))]

    def canary(self, I, a, out):
        return [("canary", T(out.value) == U(D(T(a["a0"]))))]

    def same_result(self, n, s):
        return True   # engine result is an uninterpreted-hash term; compared through ensures instead


def ref_ns(b):
    return b"%d:%s," % (len(b), b)


def ref_d(x, L=32):
    import hashlib
    return hashlib.sha256(hashlib.sha256(x).digest()).digest()[:L]


class Tagged(_Hash):
    def spec_term(self, a):
        tag, L = SINGLE[self.fn]
        return tagged(zs(tag), T(a["a0"]), L)

    def reference(self, a):
        tag, L = SINGLE[self.fn]
        return ref_d(ref_ns(tag) + a["a0"], L)


class SecretAsTag(_Hash):
    def spec_term(self, a):
        return tagged(T(a["a0"]), zs(SECRET_AS_TAG[self.fn]))

    def reference(self, a):
        return ref_d(ref_ns(a["a0"]) + SECRET_AS_TAG[self.fn])


class Pair(_Hash):
    nargs = 2
    raises = (AssertionError,)

    def spec_term(self, a):
        tag, L, _ = PAIR[self.fn]
        return pair(zs(tag), T(a["a0"]), T(a["a1"]), L)

    def reference(self, a):
        tag, L, _ = PAIR[self.fn]
        return ref_d(ref_ns(tag) + ref_ns(a["a0"]) + ref_ns(a["a1"]), L)

    def inputs(self):
        d = {"a0": StrK(True, rndmax=24), "a1": StrK(True, rndmax=24)}
        if PAIR[self.fn][2]:
            d["a1"] = StrK(True, rndmax=20, alphabet=None)
            d["a1"].random = lambda rng: bytes(rng.randrange(256) for _ in range(rng.choice([20, 20, 20, 19, 0])))
        return d

    def ensures(self, I, a, out):
        if out.kind == "raise":
            need20 = PAIR[self.fn][2]
            ln = z3.Length(T(a["a1"]))
            return [("assertion-only-for-non-20-byte-peerid", z3.And(z3.BoolVal(need20), ln != 20))]
        g = _Hash.ensures(self, I, a, out)
        if PAIR[self.fn][2]:
            g.append(("peerid-is-20-bytes", z3.Length(T(a["a1"])) == 20))
        return g


class WriteEnabler(_Hash):
    fn = "ssk_write_enabler_hash"
    nargs = 2
    raises = (AssertionError,)

    def inputs(self):
        d = {"a0": StrK(True, rndmax=24), "a1": StrK(True)}
        d["a1"].random = lambda rng: bytes(rng.randrange(256) for _ in range(rng.choice([20, 20, 20, 21])))
        return d

    def spec_term(self, a):
        return spec_write_enabler(T(a["a0"]), T(a["a1"]))

    def reference(self, a):
        return ref_d(ref_ns(WE_TAG) + ref_ns(ref_d(ref_ns(WEM_TAG) + a["a0"])) + ref_ns(a["a1"]))

    def ensures(self, I, a, out):
        if out.kind == "raise":
            return [("assertion-only-for-non-20-byte-peerid", z3.Length(T(a["a1"])) != 20)]
        return _Hash.ensures(self, I, a, out) + [("peerid-is-20-bytes", z3.Length(T(a["a1"])) == 20)]


class SecretHolderChain(_Hash):
    """client.SecretHolder(lease_secret, conv).get_renewal_secret()/get_cancel_secret()"""
    file = "allmydata/client.py"
    fn = "SecretHolder"
    nargs = 2

    @property
    def qualname(self):
        return "SecretHolder.__init__"

    def run(self, I, a):
        sh = I.call_value(self.module().SecretHolder, [a["a0"], a["a1"]], {})
        return (I.call_value(I.get_attr(sh, "get_renewal_secret"), [], {}),
                I.call_value(I.get_attr(sh, "get_cancel_secret"), [], {}),
                I.call_value(I.get_attr(sh, "get_convergence_secret"), [], {}))

    def native(self, a):
        from allmydata.client import SecretHolder

        def f():
            sh = SecretHolder(a["a0"], a["a1"])
            return (sh.get_renewal_secret(), sh.get_cancel_secret(), sh.get_convergence_secret())
        return native_outcome(f)

    def ensures(self, I, a, out):
        r, c, conv = out.value
        if I is None:
            return [("renewal-secret-is-specified-derivation-of-lease-secret", z3.BoolVal(r == ref_d(ref_ns(a["a0"]) + SECRET_AS_TAG["my_renewal_secret_hash"]))),
                    ("cancel-secret-is-specified-derivation-of-lease-secret", z3.BoolVal(c == ref_d(ref_ns(a["a0"]) + SECRET_AS_TAG["my_cancel_secret_hash"]))),
                    ("convergence-secret-unchanged", z3.BoolVal(conv == a["a1"]))]
        return [("renewal-secret-is-specified-derivation-of-lease-secret", T(r) == U(spec_my_renewal(T(a["a0"])))),
                ("cancel-secret-is-specified-derivation-of-lease-secret", T(c) == U(spec_my_cancel(T(a["a0"])))),
                ("convergence-secret-unchanged", T(conv) == T(a["a1"]))]

    def canary(self, I, a, out):
        return [("canary", T(out.value[0]) == T(out.value[1]))]


class StubServer(object):
    pass


class MutableNodeSecrets(_Hash):
    """MutableFileNode.get_renewal_secret/get_cancel_secret/get_write_enabler(server)"""
    file = "allmydata/mutable/filenode.py"
    fn = "MutableFileNode"
    nargs = 4     # lease_secret, storage_index, writekey, seed
    raises = (AssertionError,)

    @property
    def qualname(self):
        return "MutableFileNode.get_renewal_secret"

    def inputs(self):
        d = {"a%d" % i: StrK(True, rndmax=20) for i in range(4)}
        d["a3"].random = lambda rng: bytes(rng.randrange(256) for _ in range(20))
        return d

    def config(self):
        me = self
        ov = {("getattr", "StubServer", "get_lease_seed"): lambda I, obj: ModelFn("seed", lambda I_, a, k: obj.fields["seed"]),
              ("getattr", "StubServer", "get_foolscap_write_enabler_seed"): lambda I, obj: ModelFn("seed", lambda I_, a, k: obj.fields["seed"])}
        return {"overrides": ov, "concrete_overrides": ov}

    def run(self, I, a):
        import allmydata.client as C
        sh = I.call_value(C.SecretHolder, [a["a0"], b""], {})
        node = SObj(self.module().MutableFileNode, {"_secret_holder": sh, "_storage_index": a["a1"], "_writekey": a["a2"]})
        srv = SObj(StubServer, {"seed": a["a3"]})
        return tuple(I.call_value(I.get_attr(node, m), [srv], {}) for m in ("get_renewal_secret", "get_cancel_secret", "get_write_enabler"))

    def native(self, a):
        from allmydata.client import SecretHolder
        from allmydata.mutable.filenode import MutableFileNode

        def f():
            n = object.__new__(MutableFileNode)
            n._secret_holder, n._storage_index, n._writekey = SecretHolder(a["a0"], b""), a["a1"], a["a2"]
            s = StubServer()
            s.get_lease_seed = lambda: a["a3"]
            s.get_foolscap_write_enabler_seed = lambda: a["a3"]
            return (n.get_renewal_secret(s), n.get_cancel_secret(s), n.get_write_enabler(s))
        return native_outcome(f)

    def ensures(self, I, a, out):
        if out.kind == "raise":
            return [("assertion-only-for-non-20-byte-seed", z3.Length(T(a["a3"])) != 20)]
        r, c, w = out.value
        if I is None:
            fr = ref_d(ref_ns(PAIR["file_renewal_secret_hash"][0]) + ref_ns(ref_d(ref_ns(a["a0"]) + SECRET_AS_TAG["my_renewal_secret_hash"])) + ref_ns(a["a1"]))
            fc = ref_d(ref_ns(PAIR["file_cancel_secret_hash"][0]) + ref_ns(ref_d(ref_ns(a["a0"]) + SECRET_AS_TAG["my_cancel_secret_hash"])) + ref_ns(a["a1"]))
            return [("bucket-renewal-secret-chain", z3.BoolVal(r == ref_d(ref_ns(PAIR["bucket_renewal_secret_hash"][0]) + ref_ns(fr) + ref_ns(a["a3"])))),
                    ("bucket-cancel-secret-chain", z3.BoolVal(c == ref_d(ref_ns(PAIR["bucket_cancel_secret_hash"][0]) + ref_ns(fc) + ref_ns(a["a3"])))),
                    ("write-enabler-chain", z3.BoolVal(w == ref_d(ref_ns(WE_TAG) + ref_ns(ref_d(ref_ns(WEM_TAG) + a["a2"])) + ref_ns(a["a3"]))))]
        return [("bucket-renewal-secret-chain", T(r) == U(spec_bucket_renewal(T(a["a0"]), T(a["a1"]), T(a["a3"])))),
                ("bucket-cancel-secret-chain", T(c) == U(spec_bucket_cancel(T(a["a0"]), T(a["a1"]), T(a["a3"])))),
                ("write-enabler-chain", T(w) == U(spec_write_enabler(T(a["a2"]), T(a["a3"]))))]

    def canary(self, I, a, out):
        return [("canary", T(out.value[0]) == T(out.value[1]))]


class CapKeyChain(_Hash):
    """uri cap constructors: write key -> read key -> storage index (SSK and MDMF), key -> storage index (CHK)"""
    file = "allmydata/uri.py"
    nargs = 2
    raises = ()

    def __init__(self, cls, kind):
        self.fn = cls
        self.kind = kind

    @property
    def qualname(self):
        return self.fn + ".__init__"

    def build(self, I, a):
        cls = getattr(self.module(), self.fn)
        if self.kind == "chk":
            return I.call_value(cls, [a["a0"], a["a1"], 3, 10, 1000], {})
        return I.call_value(cls, [a["a0"], a["a1"]], {})

    def run(self, I, a):
        u = self.build(I, a)
        return (u.fields.get("readkey"), u.fields["storage_index"], u.fields.get("writekey"), u.fields.get("key"))

    def native(self, a):
        import allmydata.uri as U
        cls = getattr(U, self.fn)

        def f():
            u = cls(a["a0"], a["a1"], 3, 10, 1000) if self.kind == "chk" else cls(a["a0"], a["a1"])
            return (getattr(u, "readkey", None), u.storage_index, getattr(u, "writekey", None), getattr(u, "key", None))
        return native_outcome(f)

    def ensures(self, I, a, out):
        rk, si, wk, key = out.value
        rk_tag, si_tag, chk_tag = SINGLE["ssk_readkey_hash"][0], SINGLE["ssk_storage_index_hash"][0], SINGLE["storage_index_hash"][0]
        if I is None:
            if self.kind == "write":
                erk = ref_d(ref_ns(rk_tag) + a["a0"], 16)
                return [("readkey-derived-from-writekey", z3.BoolVal(rk == erk and wk == a["a0"])),
                        ("storage-index-derived-from-readkey", z3.BoolVal(si == ref_d(ref_ns(si_tag) + erk, 16)))]
            if self.kind == "read":
                return [("storage-index-derived-from-readkey", z3.BoolVal(si == ref_d(ref_ns(si_tag) + a["a0"], 16) and rk == a["a0"]))]
            return [("storage-index-derived-from-key", z3.BoolVal(si == ref_d(ref_ns(chk_tag) + a["a0"], 16) and key == a["a0"]))]
        if self.kind == "write":
            erk = tagged(zs(rk_tag), T(a["a0"]), 16)
            return [("readkey-derived-from-writekey", z3.And(T(rk) == U(erk), T(wk) == T(a["a0"]))),
                    ("storage-index-derived-from-readkey", T(si) == U(tagged(zs(si_tag), erk, 16)))]
        if self.kind == "read":
            return [("storage-index-derived-from-readkey", z3.And(T(si) == U(tagged(zs(si_tag), T(a["a0"]), 16)), T(rk) == T(a["a0"])))]
        return [("storage-index-derived-from-key", z3.And(T(si) == U(tagged(zs(chk_tag), T(a["a0"]), 16)), T(key) == T(a["a0"])))]

    def canary(self, I, a, out):
        return [("canary", T(out.value[1]) == T(a["a0"]))]


class UploadTrackerSecrets(_Hash):
    """Tahoe2ServerSelector._create_trackers: the lease secrets every ServerTracker (writeable or read-only server) is created
    with are the per-bucket derivations of the FILE secrets with the lease seed of THAT server -- renewal from the file renewal
    secret, cancel from the file cancel secret -- for all secrets, seeds and size limits (2 candidate servers)."""
    file = "allmydata/immutable/upload.py"
    fn = "Tahoe2ServerSelector"
    nargs = 4      # file renewal secret, file cancel secret, seed of server 0, seed of server 1
    raises = (AssertionError,)
    level = "B"
    bound = "2 candidate servers (seeds, secrets and the servers' size limits symbolic)"

    @property
    def qualname(self):
        return "Tahoe2ServerSelector._create_trackers"

    def inputs(self):
        from pyvc.harness import IntK
        d = {"a%d" % i: StrK(True, rndmax=20) for i in range(4)}
        d["a2"].random = lambda rng: bytes(rng.randrange(256) for _ in range(20))
        d["a3"].random = lambda rng: bytes(rng.randrange(256) for _ in range(20))
        d["max0"], d["max1"], d["alloc"] = IntK(0), IntK(0), IntK(0)
        return d

    def servers(self, I, a):
        from contracts.lib import stub
        V1 = b"http://allmydata.org/tahoe/protocols/storage/v1"
        out = []
        for i in (0, 1):
            out.append(stub("server%d" % i, get_lease_seed=(lambda v: lambda I_, a_, k: v)(a["a%d" % (2 + i)]),
                            get_serverid=(lambda v: lambda I_, a_, k: v)(b"id%d" % i),
                            get_version=(lambda v: lambda I_, a_, k: {V1: {b"maximum-immutable-share-size": v}})(a["max%d" % i])))
        return out

    def run(self, I, a):
        from contracts.lib import stub, noop
        made = []
        srv = self.servers(I, a)
        sel = SObj(self.module().Tahoe2ServerSelector, {"peer_selector": stub("peer_selector", add_peer=noop, mark_readonly_peer=noop)})
        create = ModelFn("create_server_tracker", lambda I_, a_, k: (made.append((a_[0], a_[1], a_[2])), ("tracker", a_[0]))[1])
        ro, rw = I.call_value(self.target(I), [sel, list(srv), a["alloc"], a["a0"], a["a1"], create], {})
        return tuple((srv.index(s), r, c) for (s, r, c) in made), len(ro) + len(rw)

    def native(self, a):
        from allmydata.immutable.upload import Tahoe2ServerSelector
        V1 = b"http://allmydata.org/tahoe/protocols/storage/v1"

        class S(object):
            def __init__(s, i):
                s.i = i
            get_lease_seed = lambda s: a["a%d" % (2 + s.i)]
            get_serverid = lambda s: b"id%d" % s.i
            get_version = lambda s: {V1: {b"maximum-immutable-share-size": a["max%d" % s.i]}}

        class P(object):
            add_peer = mark_readonly_peer = lambda s, x: None

        def f():
            sel = object.__new__(Tahoe2ServerSelector)
            sel.peer_selector = P()
            made = []
            srv = [S(0), S(1)]
            ro, rw = sel._create_trackers(srv, a["alloc"], a["a0"], a["a1"], lambda s, r, c: (made.append((s.i, r, c)), s)[1])
            return tuple(made), len(ro) + len(rw)
        return native_outcome(f)

    def ensures(self, I, a, out):
        if out.kind == "raise":
            ln = [z3.Length(T(a["a2"])), z3.Length(T(a["a3"]))] if I is not None else None
            return [("assertion-only-for-non-20-byte-seed", z3.Or(ln[0] != 20, ln[1] != 20) if I is not None else z3.BoolVal(len(a["a2"]) != 20 or len(a["a3"]) != 20))]
        made, n = out.value
        g = [("one-tracker-per-candidate-server", z3.BoolVal(n == 2 and sorted(m[0] for m in made) == [0, 1]))]
        rt, ct = PAIR["bucket_renewal_secret_hash"][0], PAIR["bucket_cancel_secret_hash"][0]
        for (i, r, c) in made:
            seed = a["a%d" % (2 + i)]
            if I is None:
                g.append(("server-%d-renewal-secret-is-bucket-derivation-of-the-file-renewal-secret-with-its-own-seed" % i, z3.BoolVal(r == ref_d(ref_ns(rt) + ref_ns(a["a0"]) + ref_ns(seed)))))
                g.append(("server-%d-cancel-secret-is-bucket-derivation-of-the-file-cancel-secret-with-its-own-seed" % i, z3.BoolVal(c == ref_d(ref_ns(ct) + ref_ns(a["a1"]) + ref_ns(seed)))))
            else:
                g.append(("server-%d-renewal-secret-is-bucket-derivation-of-the-file-renewal-secret-with-its-own-seed" % i, T(r) == U(pair(zs(rt), T(a["a0"]), T(seed)))))
                g.append(("server-%d-cancel-secret-is-bucket-derivation-of-the-file-cancel-secret-with-its-own-seed" % i, T(c) == U(pair(zs(ct), T(a["a1"]), T(seed)))))
        return g

    def canary(self, I, a, out):
        made, n = out.value
        return [("canary", T(made[0][1]) == T(made[0][2]))]


class TrackerQuery(_Hash):
    """ServerTracker.__init__ + ServerTracker.query: the allocate_buckets request carries the storage index, the bucket
    RENEWAL secret, the bucket CANCEL secret (in that order), the share numbers asked for and the tracker's allocated size --
    the values the tracker was created with, for all of them."""
    file = "allmydata/immutable/upload.py"
    fn = "ServerTracker"
    nargs = 3     # storage index, renewal secret, cancel secret
    raises = ()

    @property
    def qualname(self):
        return "ServerTracker.query"

    def config(self):
        from contracts.lib import stub
        wbp = lambda I, a, k: stub("wbp", get_allocated_size=lambda I_, a_, k_: 4242)
        ov = {"layout.make_write_bucket_proxy": wbp, "upload.Referenceable": lambda I, a, k: "canary", "referenceable.Referenceable": lambda I, a, k: "canary"}
        return {"overrides": ov, "concrete_overrides": ov}

    def run(self, I, a):
        from contracts.lib import stub
        calls = []

        def allocate(I_, args, kw):
            calls.append((tuple(args), dict(kw)))
            return stub("deferred", addCallback=lambda I2, a2, k2: None)
        ss = stub("storage_server", allocate_buckets=allocate)
        server = stub("server", get_storage_server=lambda I_, a_, k_: ss)
        t = I.call_value(self.module().ServerTracker, [server, 1000, 100, 10, 4, a["a0"], a["a1"], a["a2"], 500], {})
        I.call_value(I.get_attr(t, "query"), [set([3, 7])], {})
        return tuple(calls)

    def native(self, a):
        from allmydata.immutable.upload import ServerTracker
        calls = []

        class D(object):
            def addCallback(self, f):
                return self

        class SS(object):
            def allocate_buckets(self, *args, **kw):
                calls.append((args, kw))
                return D()

        class Server(object):
            def get_storage_server(self):
                return SS()

        def f():
            t = ServerTracker(Server(), 1000, 100, 10, 4, a["a0"], a["a1"], a["a2"], 500)
            t.query(set([3, 7]))
            return tuple(calls), t.allocated_size
        out = native_outcome(f)
        if out.kind == "return":
            self._native_alloc = out.value[1]
            out.value = out.value[0]
        return out

    def ensures(self, I, a, out):
        calls = out.value
        if len(calls) != 1 or len(calls[0][0]) != 5:
            return [("exactly-one-allocate-buckets-request-with-five-positional-arguments", z3.BoolVal(False))]
        (si, renew, cancel, sharenums, size), kw = calls[0]
        if I is None:
            return [("request-carries-the-trackers-storage-index", z3.BoolVal(si == a["a0"])),
                    ("renewal-secret-in-the-renewal-position", z3.BoolVal(renew == a["a1"])),
                    ("cancel-secret-in-the-cancel-position", z3.BoolVal(cancel == a["a2"])),
                    ("request-names-the-share-numbers-asked-for", z3.BoolVal(set(sharenums) == {3, 7})),
                    ("request-reserves-the-write-proxys-allocated-size", z3.BoolVal(size == self._native_alloc))]
        return [("request-carries-the-trackers-storage-index", T(si) == T(a["a0"])),
                ("renewal-secret-in-the-renewal-position", T(renew) == T(a["a1"])),
                ("cancel-secret-in-the-cancel-position", T(cancel) == T(a["a2"])),
                ("request-names-the-share-numbers-asked-for", z3.BoolVal(set(sharenums) == {3, 7})),
                ("request-reserves-the-write-proxys-allocated-size", z3.BoolVal(size == 4242))]

    def canary(self, I, a, out):
        return [("canary", T(out.value[0][0][1]) == T(out.value[0][0][2]))]


def contracts(tier):
    cs = [Tagged(f) for f in SINGLE] + [SecretAsTag(f) for f in SECRET_AS_TAG] + [Pair(f) for f in PAIR]
    cs += [WriteEnabler(), SecretHolderChain(), MutableNodeSecrets()]
    cs += [CapKeyChain("WriteableSSKFileURI", "write"), CapKeyChain("WriteableMDMFFileURI", "write"),
           CapKeyChain("ReadonlySSKFileURI", "read"), CapKeyChain("ReadonlyMDMFFileURI", "read"),
           CapKeyChain("CHKFileURI", "chk")]
    cs += [UploadTrackerSecrets(), TrackerQuery()]
    return cs
