"""C29 Share containers survive a server crash -- crash-point obligations on storage/immutable.py lease operations and BucketWriter.close"""
import z3
from pyvc.harness import Spec, IntK, BytesArrK, ChoiceK, Outcome
from pyvc.values import *  # noqa
from pyvc.models_ext2 import PathTok, FileState, disk_get
from contracts.lib import *  # noqa
from contracts.C25 import _Lease, mkfile, lease_off, LS

LEVEL = "other"
MANIFEST_ENTRY = {
    "text": "Crash model: the process may stop after any mutating file call (each call atomic and durable in program order); restart re-opens the share with a fresh ShareFile, which derives the data region from the file size and the lease count in the header. For ShareFile.add_lease / renew_lease / cancel_lease on immutable shares with 0..2 leases (all bytes symbolic, schema v1 and v2) a recovery obligation is emitted after EVERY file operation: the data region seen after restart is byte-identical to the one before the operation, and every lease that was not being modified is still listed. BucketWriter.close: at every crash point the final share is absent or complete. MutableShareFile.add_lease (4 header slots in all 16 occupancy patterns, 0..1 extra leases, symbolic bytes): share data, data length, write enabler and every existing lease are unchanged after every write and at the end. slot_testv_and_readv_and_writev touches only the named shares (contract shared with C24). Known findings: the windows inside add_lease and cancel_lease where record and count are out of step.",
    "note": "Bounded number of leases, hence level 'other'. Torn writes and OS reordering are outside the crash model. MutableShareFile._change_container_size (documents its own crash window) and StorageServer._clean_incomplete are not under contract.",
    "technique": "contract-based deductive verification with a crash-point hook in the file model (pyvc VCs + z3); number of leases bounded",
}
EXPLANATION = "RecoveryInv after each mutating file call of the real lease operations."
TRUSTED = ["file model: each mutating call is atomic and durable in program order"]
ASSUMPTIONS = ["no torn writes, no reordering"]
NOT_DECIDED = "mutable containers, restart cleanup of incoming/."
F = "allmydata/storage/immutable.py"


def recovered_view(c, n):
    """what a fresh ShareFile(home) sees: lease count from the header, data region = [12, filesize - 72*count)"""
    cnt = be(c, 8, 4)
    end = n - LS * cnt
    return cnt, end


class _Crash(_Lease):
    op = None
    raises = (IndexError,)

    def config(self):
        me = self

        def on_op(I, what, key):
            st = I.disk[key]
            if what == "write":
                at = I.ghost.get("last_write_at")
                at = z3.simplify(at) if z3.is_expr(at) else at
                is_count = (z3.is_int_value(at) and at.as_long() == 8) if z3.is_expr(at) else at == 8
                what = "count-write" if is_count else "record-write"
            me._snaps.append((what, st.content, Z(st.length)))
        return {"on_file_op": on_op}

    @staticmethod
    def tags(kinds):
        """crash-after-<kind>-<i-th operation of that kind>: names a crash window by what was written last, not by a bare index"""
        seen, out = {}, []
        for k in kinds:
            seen[k] = seen.get(k, 0) + 1
            out.append("crash-after-%s-%d" % (k, seen[k]))
        return out

    def run(self, I, a):
        self._snaps = []
        out = _Lease.run(self, I, a)
        out.post["snaps"] = list(self._snaps)
        return out

    def untouched_leases(self, a, c):
        """indices of leases that the operation does not modify (condition, index)"""
        raise NotImplementedError

    def native_call(self, sf, a):
        raise NotImplementedError

    def native(self, a):
        """run the real operation on a real file, stopping after the k-th mutating file call (k = 1, 2, ...), then re-open
        the share with a fresh ShareFile and look at data and leases"""
        import builtins, os
        import allmydata.storage.immutable as M
        from contracts.C25 import header
        body = a["body"]
        content = header(a["version"], a["n"]) + body[12:]
        results = []

        class Crash(BaseException):
            pass

        def lease_key(l):
            return (l.owner_num, bytes(getattr(l, "renew_secret", b"") if not hasattr(l, "_lease_info") else l._lease_info.renew_secret),
                    l.get_expiration_time())
        with TempDir() as d:
            p = os.path.join(d, "share")

            def fresh():
                with open(p, "wb") as fh:
                    fh.write(content)
            fresh()
            sf0 = M.ShareFile(p)
            data0 = sf0.read_share_data(0, 10 ** 9)
            leases0 = [lease_key(l) for l in sf0.get_leases()]
            raw0 = [content[12 + a["datalen"] + 72 * i: 12 + a["datalen"] + 72 * (i + 1)] for i in range(a["n"])]
            outcome = None
            for k in range(1, 6):
                fresh()
                count = [0]
                kinds = []
                real_open = builtins.open

                class F(object):
                    def __init__(s, f):
                        s.f = f

                    def __getattr__(s, nm):
                        return getattr(s.f, nm)

                    def __enter__(s):
                        return s

                    def __exit__(s, *x):
                        s.f.close()

                    def _hit(s, kind):
                        s.f.flush()
                        count[0] += 1
                        kinds.append(kind)
                        if count[0] == k:
                            s.f.close()
                            raise Crash()

                    def write(s, b):
                        at = s.f.tell()
                        r = s.f.write(b)
                        s._hit("count-write" if at == 8 else "record-write")
                        return r

                    def truncate(s, *x):
                        r = s.f.truncate(*x)
                        s._hit("truncate")
                        return r
                M.open = lambda path, mode="r": F(real_open(path, mode))
                crashed = False
                try:
                    try:
                        self.native_call(M.ShareFile(p), a)
                    except Crash:
                        crashed = True
                    except Exception as e:       # noqa
                        outcome = e
                finally:
                    del M.open
                if not crashed:
                    break
                if not os.path.exists(p):
                    results.append((self.tags(kinds)[-1], (True, True, True), []))
                    continue
                data_same, now = (False, False, False), []
                try:
                    sf = M.ShareFile(p)
                    d_now = sf.read_share_data(0, 10 ** 9)
                    m_ = min(len(d_now), len(data0))
                    data_same = (len(d_now) <= len(data0), len(d_now) >= len(data0), d_now[:m_] == data0[:m_])
                    now = [lease_key(l) for l in sf.get_leases()]
                except Exception as e:       # noqa
                    pass
                results.append((self.tags(kinds)[-1], data_same, [i for i in range(a["n"]) if leases0[i] not in now]))
        out = Outcome("return", None) if outcome is None else Outcome("raise", exc=outcome, exc_cls=type(outcome))
        out.post = {"native_crash": results, "raw0": raw0}
        return out

    def native_ensures(self, a, out):
        g = []
        c = None
        for (tag, data_same, missing) in out.post["native_crash"]:
            g.append(("%s:data-region-does-not-grow-after-restart" % tag, z3.BoolVal(data_same[0])))
            g.append(("%s:data-region-does-not-shrink-after-restart" % tag, z3.BoolVal(data_same[1])))
            g.append(("%s:data-bytes-after-restart-are-unchanged" % tag, z3.BoolVal(data_same[2])))
            for i in range(a["n"]):
                untouched = self.native_untouched(a, out.post["raw0"], i)
                g.append(("%s:unmodified-lease-%d-still-listed-after-restart" % (tag, i), z3.BoolVal((not untouched) or i not in missing)))
        return g

    def native_untouched(self, a, raw0, i):
        return True

    def same_result(self, n, s):
        return True

    def ensures(self, I, a, out):
        if I is None:
            return self.native_ensures(a, out)
        c, n = as_arr(out.post["file0"])
        g = []
        cnt0, end0 = recovered_view(c, n)
        tags = self.tags([w for (w, ck, nk) in out.post["snaps"]])
        for k, (what, ck, nk) in enumerate(out.post["snaps"]):
            cnt, end = recovered_view(ck, nk)
            tag = tags[k]
            g.append(("%s:data-region-does-not-grow-after-restart" % tag, end <= end0))
            g.append(("%s:data-region-does-not-shrink-after-restart" % tag, end >= end0))
            g.append(("%s:data-bytes-after-restart-are-unchanged" % tag, forall_range(12, z3.If(end < end0, end, end0), lambda j: z3.Select(ck, j) == z3.Select(c, j))))
            for cond, i in self.untouched_leases(a, c):
                # lease i's 72 bytes are still listed by get_leases() after restart: it is one of the cnt records starting at `end`
                rec0 = lease_off(a, i)
                listed = z3.Or([z3.And(cnt > j, forall_range(0, LS, lambda q, j=j: z3.Select(ck, end + LS * j + q) == z3.Select(c, rec0 + q))) for j in range(a["n"] + 1)])
                g.append(("%s:unmodified-lease-%d-still-listed-after-restart" % (tag, i), z3.Implies(cond, listed)))
        if not out.post["snaps"]:
            g.append(("no-file-operation-nothing-to-recover", z3.BoolVal(True)))
        return g

    canary = None


class CrashAddLease(_Crash):
    method = "add_lease"

    def call(self, I, sf, a):
        import allmydata.storage.lease as L
        li = SObj(L.LeaseInfo, {"owner_num": a["owner"], "renew_secret": a["secret"], "cancel_secret": a["cancel"], "_expiration_time": a["t"], "nodeid": b"n" * 20})
        return I.call_value(self.target(I), [sf, li], {})

    def untouched_leases(self, a, c):
        return [(z3.BoolVal(True), i) for i in range(a["n"])]

    def native_call(self, sf, a):
        from allmydata.storage.lease import LeaseInfo
        sf.add_lease(LeaseInfo(a["owner"], a["secret"], a["cancel"], a["t"], b"n" * 20))


def _stored(a, raw, off, secret):
    import nacl.hash
    from nacl.encoding import RawEncoder
    want = secret if a["version"] == 1 else nacl.hash.blake2b(secret, digest_size=32, encoder=RawEncoder)
    return raw[off:off + 32] == want


class CrashRenewLease(_Crash):
    method = "renew_lease"

    def call(self, I, sf, a):
        return I.call_value(self.target(I), [sf, a["secret"], a["t"]], {})

    def untouched_leases(self, a, c):
        return [(z3.Not(self.matches(a, c, i)), i) for i in range(a["n"])]

    def native_call(self, sf, a):
        sf.renew_lease(a["secret"], a["t"])

    def native_untouched(self, a, raw0, i):
        return not _stored(a, raw0[i], 4, a["secret"])


class CrashCancelLease(_Crash):
    method = "cancel_lease"

    def call(self, I, sf, a):
        return I.call_value(self.target(I), [sf, a["secret"]], {})

    def matches(self, a, c, i):
        from contracts.C25 import stored_secret_is
        return stored_secret_is(c, lease_off(a, i) + 36, a["secret"], a["version"] == 2)

    def untouched_leases(self, a, c):
        return [(z3.Not(self.matches(a, c, i)), i) for i in range(a["n"])]

    def native_call(self, sf, a):
        sf.cancel_lease(a["secret"])

    def native_untouched(self, a, raw0, i):
        return not _stored(a, raw0[i], 36, a["secret"])


class CrashClose(Spec):
    """BucketWriter.close: at every crash point the share is either not in the final directory or complete there."""
    file = F
    qualname = "BucketWriter.close"
    cross_check = 0

    def inputs(self):
        return {"file0": FileK(None)}

    def requires(self, I, a):
        from contracts.C22 import WFI
        c, n = as_arr(a["file0"])
        return WFI(c, n)

    def config(self):
        me = self

        def on_op(I, what, key):
            if not getattr(me, "_recording", True):
                return
            fin = I.disk.get("final/si/0")
            me._snaps.append((what, key, None if fin is None or not fin.exists else (fin.content, Z(fin.length))))
        return {"on_file_op": on_op, "rmdir": lambda I, key: None}

    def run(self, I, a):
        from contracts.C22 import mk_timer, mk_ss, mk_clock
        self._snaps = []
        put_file(I, "incoming/si/0", a["file0"])
        # the writer's container object is the real ShareFile opened on the incoming file (so anything close() does to the
        # share through it is executed, not abstracted away); opening it is not a crash point
        self._recording = False
        sf = I.call_value(self.module().ShareFile, [PathTok("incoming/si/0")], {})
        self._recording = True
        import allmydata.storage.lease as L
        lease = SObj(L.LeaseInfo, {"owner_num": 1, "renew_secret": b"r" * 32, "cancel_secret": b"c" * 32, "_expiration_time": 2 ** 31, "nodeid": b"n" * 20})
        bw = SObj(self.module().BucketWriter, {"ss": mk_ss(), "incominghome": PathTok("incoming/si/0"), "finalhome": PathTok("final/si/0"), "_lease_info": lease,
                                               "closed": False, "_timeout": mk_timer(True), "_sharefile": sf, "_max_size": 10, "_clock": mk_clock()})
        I.call_value(self.target(I), [bw], {})
        out = Outcome("return", None)
        out.post = {"snaps": list(self._snaps)}
        return out

    def ensures(self, I, a, out):
        c, n = as_arr(a["file0"])
        g = [("some-crash-point-exists", z3.BoolVal(len(out.post["snaps"]) >= 1))]
        for k, (what, key, fin) in enumerate(out.post["snaps"]):
            if fin is None:
                g.append(("crash-after-op-%d:share-absent-from-final" % (k + 1), z3.BoolVal(True)))
            else:
                g.append(("crash-after-op-%d:share-in-final-is-complete" % (k + 1), same_file(c, n, fin[0], fin[1])))
        return g


class MutableAddLease(Spec):
    """MutableShareFile.add_lease (a lease-only operation) never changes the share data, the data length, the write
    enabler or existing leases -- after every file operation (crash points) and at the end.  Container with a concrete
    slot layout: 4 header slots (each empty or occupied), 0..1 extra leases; all other bytes symbolic."""
    file = "allmydata/storage/mutable.py"
    qualname = "MutableShareFile.add_lease"
    level = "B"
    bound = "4 header lease slots each empty/occupied (all 16 patterns), 0..1 extra lease records, container data area of 20 bytes"
    cross_check = 1
    CSIZE = 20

    @property
    def raises(self):
        from allmydata.interfaces import NoSpace
        return (NoSpace,)

    def inputs(self):
        return {"body": FileK(lambda rng: bytes(rng.randrange(256) for _ in range(584))), "slots": ChoiceK([()]), "extra": ChoiceK([0, 1]), "version": ChoiceK([1, 2]), "secret": BytesArrK(fixed=32),
                "cancel": BytesArrK(fixed=32), "t": IntK(0, 2 ** 32 - 1), "owner": IntK(1, 2 ** 32 - 1), "avail": IntK(0)}

    def all_cases(self):
        import itertools
        return [{"slots": s, "extra": e, "version": v} for s in itertools.product((0, 1), repeat=4) for e in (0, 1) for v in (1, 2)]

    def layout(self, a):
        elo = 468 + self.CSIZE
        return elo, elo + 4 + 92 * a["extra"]

    def mkfile(self, a):
        from allmydata.storage.mutable_schema import _magic
        if isinstance(a["body"], bytes):
            return self.concrete_file(a)
        body, blen = as_arr(a["body"])
        arr = body
        elo, total = self.layout(a)
        conc = {}
        for i, b in enumerate(_magic(a["version"])):
            conc[i] = b
        for i, b in enumerate(elo.to_bytes(8, "big")):
            conc[92 + i] = b
        for s, occ in enumerate(a["slots"]):
            for i, b in enumerate((7 if occ else 0).to_bytes(4, "big")):
                conc[100 + 92 * s + i] = b
        for i, b in enumerate(a["extra"].to_bytes(4, "big")):
            conc[elo + i] = b
        if a["extra"]:
            for i, b in enumerate((9).to_bytes(4, "big")):
                conc[elo + 4 + i] = b
        for i, b in conc.items():
            arr = z3.Store(arr, i, b)
        return SBytes(arr, blen)

    def requires(self, I, a):
        elo, total = self.layout(a)
        if isinstance(a["body"], bytes):
            return len(a["body"]) >= total
        body, blen = as_arr(a["body"])
        return blen == total

    def config(self):
        me = self

        def on_op(I, what, key):
            st = I.disk[key]
            me._snaps.append((what, st.content, Z(st.length)))
        return {"on_file_op": on_op}

    def run(self, I, a):
        import allmydata.storage.lease as L
        from allmydata.storage.mutable_schema import schema_from_header
        from allmydata.storage.mutable_schema import _magic
        self._snaps = []
        f0 = self.mkfile(a)
        put_file(I, "home", f0)
        schema = [s for s in __import__("allmydata.storage.mutable_schema", fromlist=["x"]).ALL_SCHEMAS if s.version == a["version"]][0]
        ms = SObj(self.module().MutableShareFile, {"home": PathTok("home"), "_schema": schema})
        li = SObj(L.LeaseInfo, {"owner_num": a["owner"], "renew_secret": a["secret"], "cancel_secret": a["cancel"], "_expiration_time": a["t"], "nodeid": b"n" * 20})
        try:
            out = Outcome("return", I.call_value(self.target(I), [ms, a["avail"], li], {}))
        except PyRaise as pr:
            out = Outcome("raise", exc=pr.exc, exc_cls=pr.cls)
        out.post = {"file0": f0, "file": file_post(I, "home"), "snaps": list(self._snaps)}
        return out

    def concrete_file(self, a):
        from allmydata.storage.mutable_schema import _magic
        elo, total = self.layout(a)
        b = bytearray(a["body"][:total].ljust(total, b"\0"))
        b[0:32] = _magic(a["version"])
        b[92:100] = elo.to_bytes(8, "big")
        for s, occ in enumerate(a["slots"]):
            b[100 + 92 * s:104 + 92 * s] = (7 if occ else 0).to_bytes(4, "big")
        b[elo:elo + 4] = a["extra"].to_bytes(4, "big")
        if a["extra"]:
            b[elo + 4:elo + 8] = (9).to_bytes(4, "big")
        return bytes(b)

    def native(self, a):
        """the real add_lease on a real file; the file content is snapshotted after every write()"""
        import os
        import allmydata.storage.mutable as M
        from allmydata.storage.lease import LeaseInfo
        content = self.concrete_file(a)
        snaps = []
        with TempDir() as d:
            p = os.path.join(d, "share")
            with open(p, "wb") as fh:
                fh.write(content)
            real_open = open

            class F(object):
                def __init__(s, f):
                    s.f = f

                def __getattr__(s, nm):
                    return getattr(s.f, nm)

                def __enter__(s):
                    return s

                def __exit__(s, *e):
                    s.f.close()

                def write(s, data):
                    r = s.f.write(data)
                    s.f.flush()
                    with real_open(p, "rb") as g:
                        snaps.append(g.read())
                    return r
            M.open = lambda path, mode="r": F(real_open(path, mode))
            try:
                ms = M.MutableShareFile(p)
                out = native_outcome(lambda: ms.add_lease(a["avail"], LeaseInfo(a["owner"], a["secret"], a["cancel"], a["t"], b"n" * 20)))
            finally:
                del M.open
            with real_open(p, "rb") as g:
                final = g.read()
        out.post = {"file0": content, "native_states": [("crash-after-op-%d" % (k + 1), s) for k, s in enumerate(snaps)] + [("finally", final)]}
        return out

    def same_result(self, n, s):
        from pyvc.runner import plainify
        return n.post["native_states"][-1][1] == plainify(s.post["file"]) and [x[1] for x in n.post["native_states"][:-1]] == [
            plainify(SBytes(ck, nk)) for (w, ck, nk) in s.post["snaps"]]

    def native_ensures(self, a, out):
        c = out.post["file0"]
        elo, total = self.layout(a)
        occupied = [100 + 92 * s for s, occ in enumerate(a["slots"]) if occ] + ([elo + 4] if a["extra"] else [])
        g = []
        for tag, ck in out.post["native_states"]:
            g.append(("%s:share-data-and-lengths-unchanged" % tag, z3.BoolVal(ck[468:elo] == c[468:elo] and ck[:100] == c[:100])))
            g.append(("%s:existing-leases-unchanged" % tag, z3.BoolVal(all(ck[o:o + 92] == c[o:o + 92] for o in occupied))))
        if out.kind == "raise":
            g.append(("NoSpace-only-when-a-new-slot-is-needed-and-does-not-fit", z3.BoolVal(all(a["slots"]) and 92 > a["avail"])))
        return g

    def ensures(self, I, a, out):
        if I is None:
            return self.native_ensures(a, out)
        c, n = as_arr(out.post["file0"])
        elo, total = self.layout(a)
        states = [("crash-after-op-%d" % (k + 1), ck) for k, (w, ck, nk) in enumerate(out.post["snaps"])] + [("finally", as_arr(out.post["file"])[0])]
        g = []
        occupied = [100 + 92 * s for s, occ in enumerate(a["slots"]) if occ] + ([elo + 4] if a["extra"] else [])
        for tag, ck in states:
            g.append(("%s:share-data-and-lengths-unchanged" % tag, forall_range(0, 100, lambda j: z3.Select(ck, j) == z3.Select(c, j)) if False else
                      z3.And(forall_range(468, elo, lambda j: z3.Select(ck, j) == z3.Select(c, j)), forall_range(0, 100, lambda j: z3.Select(ck, j) == z3.Select(c, j)))))
            g.append(("%s:existing-leases-unchanged" % tag, z3.And([forall_range(o, o + 92, lambda j: z3.Select(ck, j) == z3.Select(c, j)) for o in occupied] or [z3.BoolVal(True)])))
        if out.kind == "raise":
            g.append(("NoSpace-only-when-a-new-slot-is-needed-and-does-not-fit", z3.And(z3.BoolVal(all(a["slots"])), 92 > Z(a["avail"]))))
        return g

    def canary(self, I, a, out):
        c, n = as_arr(out.post["file0"])
        c1, n1 = as_arr(out.post["file"])
        return [("canary", same_file(c, n, c1, n1))]

    canary_case = {"slots": (1, 1, 0, 1), "extra": 0, "version": 1}


def contracts(tier):
    cs = [CrashAddLease(), CrashRenewLease(), CrashCancelLease(), CrashClose(), MutableAddLease()]
    # "every share not being written keeps its data and leases": the read-test-write contract of C24 (only named shares touched)
    from contracts.C24 import SlotTestvReadvWritev
    cs.append(SlotTestvReadvWritev())
    if tier == "thorough":
        for c in cs[:3]:
            c.maxleases = 3
    return cs
